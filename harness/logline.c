/* C14 harness (formatter, gate, pipeline): drives aws_format_standard_log_line, the no-alloc logger and a
 * pipeline logger (default formatter, foreground channel or a failing channel, recording writer) through an op
 * file.  Environment text is pinned so that the model can be fed the same: clock_gettime is wrapped
 * (-Wl,--wrap=clock_gettime) to a frozen instant; the thread id is pinned by running the ops that follow an `env`
 * op on a fresh thread whose pthread_self() (-Wl,--wrap=pthread_self) is the value named by the op.  The id TEXT is
 * computed by the library (aws_thread_current_thread_id -> aws_thread_id_t_to_string, cached per thread by the
 * formatter): nothing of the library's private state is touched, and a fresh thread per `env` means a cache that
 * is not per thread shows up as the previous thread's id on this thread's lines.
 *
 *   env <secs> <tid_hex> <ts0_hex> <ts1_hex> <ts2_hex>      expected texts (echoed as OBSERVED on a W line);
 *                                                           tid text = 16 hex digits = the pthread_t of the new thread
 *   fmt <total> <level> <subject_hex|null> <msg_len> <date_format> <shape>
 *   init <a|b|n> <level>          a: pipeline+foreground  b: pipeline+failing channel  n: no-alloc logger
 *   setlevel <a|b|n> <level>
 *   subjects <slot> <name_hex>+  register a subject list (ids slot*1024 ..) as an exact-size heap array; slot 0 = declare the library's own
 *   wfail <k>* | wfail -         the recording writer's write() fails on these call ordinals (counted from the case start)
 *   pipe <a|b> <level> <subject_id> <subject_hex> <msg_len> <shape> <macro|cond>
 *   noalloc <level> <subject_id> <subject_hex> <msg_len> <shape> <macro|cond>
 */
#include "h_common.h"
#include <aws/common/date_time.h>
#include <aws/common/log_channel.h>
#include <aws/common/log_formatter.h>
#include <aws/common/log_writer.h>
#include <aws/common/logging.h>
#include <aws/common/string.h>
#include <aws/common/thread.h>
#include <stdarg.h>
#include <stdlib.h>
#include <string.h>
#include <time.h>

#include <pthread.h>

/* ---- pinned thread id: only the worker thread of the current `env` sees the fake value ---- */
static pthread_t s_worker;
static volatile bool s_fake_on;
static uint64_t s_fake_self;
pthread_t __real_pthread_self(void);
pthread_t __wrap_pthread_self(void) {
    pthread_t r = __real_pthread_self();
    if (s_fake_on && pthread_equal(r, s_worker)) {
        return (pthread_t)s_fake_self;
    }
    return r;
}

/* ---- frozen clock ---- */
static bool s_frozen;
static uint64_t s_frozen_secs;
int __real_clock_gettime(clockid_t id, struct timespec *ts);
int __wrap_clock_gettime(clockid_t id, struct timespec *ts) {
    if (s_frozen && id == CLOCK_REALTIME) {
        ts->tv_sec = (time_t)s_frozen_secs;
        ts->tv_nsec = 0;
        return 0;
    }
    return __real_clock_gettime(id, ts);
}

/* ---- log subject lists registered by `subjects` ops: EXACT-SIZE heap arrays, so that a read of entry [count] is a
 * heap-buffer-overflow for ASan; slot 0 is the library's own aws-c-common list (the op only declares its names) ---- */
#define MAX_SLOTS 64
static struct aws_log_subject_info_list *s_lists[MAX_SLOTS];
static void s_drop_list(size_t slot) {
    struct aws_log_subject_info_list *l = s_lists[slot];
    if (l) {
        aws_unregister_log_subject_info_list(l);
        for (size_t i = 0; i < l->count; ++i) {
            free((void *)l->subject_list[i].subject_name);
        }
        free(l->subject_list);
        free(l);
        s_lists[slot] = NULL;
    }
}
static void s_op_subjects(char **t, int n) {
    size_t slot = hc_parse_size(t[1]);
    size_t count = (size_t)(n - 2);
    if (slot >= AWS_PACKAGE_SLOTS || slot >= MAX_SLOTS || count == 0) {
        printf("bad-op\n");
        return;
    }
    if (slot != 0) {
        s_drop_list(slot);
        struct aws_log_subject_info *arr = malloc(count * sizeof(*arr)); /* exact size: red zone right behind entry count-1 */
        for (size_t i = 0; i < count; ++i) {
            uint8_t *name = NULL; /* the token NULL: an entry whose subject_name pointer is NULL */
            if (strcmp(t[2 + i], "NULL") != 0) {
                size_t len;
                name = hc_hex_decode(t[2 + i], &len);
                name = realloc(name, len + 1);
                name[len] = 0;
            }
            arr[i].subject_id = (aws_log_subject_t)(slot * AWS_LOG_SUBJECT_STRIDE + i);
            arr[i].subject_name = (const char *)name;
            arr[i].subject_description = "harness subject";
        }
        struct aws_log_subject_info_list *l = malloc(sizeof(*l));
        l->subject_list = arr;
        l->count = count;
        s_lists[slot] = l;
        aws_register_log_subject_info_list(l);
    }
    printf("W subjects slot=%zu count=%zu\n", slot, count);
}

/* ---- message text: pat(len)[i] = '0' + (7 i + len) mod 75 ('%'-free, NUL-free, newline-free) ---- */
static char *s_pattern(size_t len) {
    char *p = malloc(len + 4);
    for (size_t i = 0; i < len; ++i) {
        p[i] = (char)('0' + (i * 7 + len) % 75);
    }
    p[len] = 0;
    return p;
}

static int s_call_format(struct aws_logging_standard_formatting_data *d, ...) {
    va_list args;
    va_start(args, d);
    int rc = aws_format_standard_log_line(d, args);
    va_end(args);
    return rc;
}

/* the same message through different format-argument shapes */
static int s_format_shaped(struct aws_logging_standard_formatting_data *d, size_t len, int shape) {
    char *m = s_pattern(len);
    int rc;
    if (len == 0 && (shape == 2 || shape == 4)) {
        shape = 0;
    }
    switch (shape) {
        case 1:
            d->format = m;
            rc = s_call_format(d);
            break;
        case 2: {
            size_t h = len / 2;
            char *a = strndup(m, h);
            d->format = "%s%c%s";
            rc = s_call_format(d, a, (int)m[h], m + h + 1);
            free(a);
            break;
        }
        case 3:
            m[len] = 'X';
            m[len + 1] = 'Y';
            m[len + 2] = 0;
            d->format = "%.*s";
            rc = s_call_format(d, (int)len, m);
            break;
        case 4:
            d->format = "%0*d";
            rc = s_call_format(d, (int)len, 7);
            break;
        default:
            d->format = "%s";
            rc = s_call_format(d, m);
            break;
    }
    free(m);
    return rc;
}

/* ---- recording writer ---- */
#define MAXREC 64
static uint8_t *s_rec[MAXREC];
static size_t s_rec_len[MAXREC];
static bool s_rec_nulterm[MAXREC];
static size_t s_nrec;
#define MAXFAIL 64
static size_t s_wfail[MAXFAIL], s_nwfail, s_wcalls, s_werr;

static void s_rec_clear(void) {
    for (size_t i = 0; i < s_nrec; ++i) {
        free(s_rec[i]);
    }
    s_nrec = 0;
}
static int s_rec_write(struct aws_log_writer *writer, const struct aws_string *output) {
    (void)writer;
    HC_CHECK(s_nrec < MAXREC);
    s_rec[s_nrec] = malloc(output->len ? output->len : 1);
    memcpy(s_rec[s_nrec], output->bytes, output->len);
    s_rec_len[s_nrec] = output->len;
    s_rec_nulterm[s_nrec] = output->bytes[output->len] == 0;
    ++s_nrec;
    size_t ordinal = s_wcalls++;
    for (size_t i = 0; i < s_nwfail; ++i) {
        if (s_wfail[i] == ordinal) {
            ++s_werr;
            return aws_raise_error(AWS_ERROR_FILE_WRITE_FAILURE); /* disk full, closed pipe, … */
        }
    }
    return AWS_OP_SUCCESS;
}
static void s_rec_clean_up(struct aws_log_writer *writer) {
    (void)writer;
}
static struct aws_log_writer_vtable s_rec_vtable = {.write = s_rec_write, .clean_up = s_rec_clean_up};

/* ---- failing channel: send fails, ownership stays with the caller ---- */
static int s_fail_send(struct aws_log_channel *channel, struct aws_string *line) {
    (void)channel;
    (void)line;
    return aws_raise_error(AWS_ERROR_UNKNOWN);
}
static void s_fail_clean_up(struct aws_log_channel *channel) {
    (void)channel;
}
static struct aws_log_channel_vtable s_fail_vtable = {.send = s_fail_send, .clean_up = s_fail_clean_up};

struct pipe_logger {
    bool have;
    struct aws_logger logger;
    struct aws_log_formatter formatter;
    struct aws_log_channel channel;
    struct aws_log_writer writer;
};
static struct pipe_logger s_pipe[3];
static bool s_have_noalloc;
static struct aws_logger s_noalloc;
static FILE *s_noalloc_file;

static void s_reset(void) {
    aws_logger_set(NULL);
    for (int i = 0; i < 3; ++i) {
        if (s_pipe[i].have) {
            aws_logger_clean_up(&s_pipe[i].logger);
            aws_log_channel_clean_up(&s_pipe[i].channel);
            aws_log_formatter_clean_up(&s_pipe[i].formatter);
            s_pipe[i].have = false;
        }
    }
    if (s_have_noalloc) {
        aws_logger_clean_up(&s_noalloc);
        fclose(s_noalloc_file);
        s_have_noalloc = false;
    }
    s_rec_clear();
    for (size_t i = 0; i < MAX_SLOTS; ++i) {
        s_drop_list(i);
    }
    s_nwfail = s_wcalls = s_werr = 0;
    s_frozen = false;
}

/* ---- a formatter that reports success but hands back no line (logger c) ---- */
static int s_null_format(
    struct aws_log_formatter *formatter,
    struct aws_string **formatted_output,
    enum aws_log_level level,
    aws_log_subject_t subject,
    const char *format,
    va_list args) {
    (void)formatter;
    (void)level;
    (void)subject;
    (void)format;
    (void)args;
    *formatted_output = NULL;
    return AWS_OP_SUCCESS;
}
static void s_null_format_clean_up(struct aws_log_formatter *formatter) {
    (void)formatter;
}
static struct aws_log_formatter_vtable s_null_format_vtable = {.format = s_null_format, .clean_up = s_null_format_clean_up};

static void s_init_pipe(int which, int level, int date_format) {
    struct pipe_logger *p = &s_pipe[which];
    HC_CHECK(!p->have);
    struct aws_log_formatter_standard_options fo = {.date_format = (enum aws_date_format)date_format};
    if (which == 2) {
        p->formatter.vtable = &s_null_format_vtable;
        p->formatter.allocator = hc_allocator();
        p->formatter.impl = NULL;
    } else {
        HC_CHECK(aws_log_formatter_init_default(&p->formatter, hc_allocator(), &fo) == AWS_OP_SUCCESS);
    }
    p->writer.vtable = &s_rec_vtable;
    p->writer.allocator = hc_allocator();
    p->writer.impl = NULL;
    if (which != 1) {
        HC_CHECK(aws_log_channel_init_foreground(&p->channel, hc_allocator(), &p->writer) == AWS_OP_SUCCESS);
    } else {
        p->channel.vtable = &s_fail_vtable;
        p->channel.allocator = hc_allocator();
        p->channel.writer = &p->writer;
        p->channel.impl = NULL;
    }
    HC_CHECK(
        aws_logger_init_from_external(
            &p->logger, hc_allocator(), &p->formatter, &p->channel, &p->writer, (enum aws_log_level)level) ==
        AWS_OP_SUCCESS);
    p->have = true;
}

static void s_print_line(const uint8_t *p, size_t n) {
    printf("P line ");
    hc_put_hex(p, n);
    printf("\n");
}

/* AWS_LOGF / aws_logger_get_conditional + AWS_LOGUF, same message through the chosen shape */
static void s_log_shaped(struct aws_logger *lg, int level, uint32_t subject, size_t len, int shape, bool cond) {
    char *m = s_pattern(len);
    if (len == 0 && (shape == 2 || shape == 4)) {
        shape = 0;
    }
    aws_logger_set(lg);
    volatile int odd = level & 1;
    struct aws_logger *cl = NULL;
    if (cond) {
        cl = aws_logger_get_conditional(subject, (enum aws_log_level)level);
        HC_CHECK(cl == NULL || cl == lg);
    }
#define DO_LOG(...)                                                                                                    \
    do {                                                                                                               \
        if (cond) {                                                                                                    \
            if (cl != NULL) {                                                                                          \
                AWS_LOGUF(cl, (enum aws_log_level)level, subject, __VA_ARGS__);                                        \
            }                                                                                                          \
        } else {                                                                                                       \
            /* level and subject as NON-PRIMARY expressions (conditional selection), as a caller may write them */        \
            AWS_LOGF(odd ? (enum aws_log_level)level : (enum aws_log_level)(level + 0), odd ? subject : subject + 0, __VA_ARGS__); \
        }                                                                                                              \
    } while (0)
    switch (shape) {
        case 1:
            DO_LOG(m);
            break;
        case 2: {
            size_t h = len / 2;
            char *a = strndup(m, h);
            DO_LOG("%s%c%s", a, (int)m[h], m + h + 1);
            free(a);
            break;
        }
        case 3:
            m[len] = 'X';
            m[len + 1] = 'Y';
            m[len + 2] = 0;
            DO_LOG("%.*s", (int)len, m);
            break;
        case 4:
            DO_LOG("%0*d", (int)len, 7);
            break;
        default:
            DO_LOG("%s", m);
            break;
    }
#undef DO_LOG
    aws_logger_set(NULL);
    free(m);
}

static void s_op_env(char **t) {
    s_frozen_secs = hc_parse_u64(t[1]);
    s_frozen = true;
    /* observed: the id text the public functions give for this thread */
    char repr[AWS_THREAD_ID_T_REPR_BUFSZ];
    HC_CHECK(aws_thread_id_t_to_string(aws_thread_current_thread_id(), repr, AWS_THREAD_ID_T_REPR_BUFSZ) == AWS_OP_SUCCESS);
    printf("W env tid=");
    hc_put_hex((const uint8_t *)repr, strlen(repr));
    enum aws_date_format fmts[3] = {AWS_DATE_FORMAT_RFC822, AWS_DATE_FORMAT_ISO_8601, AWS_DATE_FORMAT_ISO_8601_BASIC};
    for (int i = 0; i < 3; ++i) {
        uint8_t buf[AWS_DATE_TIME_STR_MAX_LEN + 28];
        struct aws_byte_buf bb = aws_byte_buf_from_empty_array(buf, sizeof(buf));
        struct aws_date_time now;
        aws_date_time_init_now(&now);
        HC_CHECK(aws_date_time_to_utc_time_str(&now, fmts[i], &bb) == AWS_OP_SUCCESS);
        printf(" ts%d=", i);
        hc_put_hex(bb.buffer, bb.len);
    }
    printf("\n");
}

static void s_op_fmt(char **t) {
    size_t total = hc_parse_size(t[1]);
    int level = atoi(t[2]);
    uint8_t *subj = NULL;
    size_t subj_len = 0;
    if (strcmp(t[3], "null") != 0) {
        subj = hc_hex_decode(t[3], &subj_len);
        subj = realloc(subj, subj_len + 1);
        subj[subj_len] = 0;
    }
    size_t msg_len = hc_parse_size(t[4]);
    int date_format = atoi(t[5]);
    int shape = atoi(t[6]);
    /* run 1: exact-size heap block (ASan red zone begins at buf[total]); run 2: guard bytes on both sides */
    enum { GUARD = 32 };
    uint8_t *exact = malloc(total ? total : 1);
    memset(exact, 0xCD, total ? total : 1);
    uint8_t *guarded = malloc(total + 2 * GUARD);
    memset(guarded, 0xEE, total + 2 * GUARD);
    memset(guarded + GUARD, 0xCD, total);
    int rcs[2];
    size_t aw[2];
    int err[2];
    for (int run = 0; run < 2; ++run) {
        struct aws_logging_standard_formatting_data d = {
            .log_line_buffer = (char *)(run == 0 ? exact : guarded + GUARD),
            .total_length = total,
            .level = (enum aws_log_level)level,
            .subject_name = (const char *)subj,
            .format = NULL,
            .date_format = (enum aws_date_format)date_format,
            .allocator = hc_allocator(),
            .amount_written = 0,
        };
        aws_reset_error();
        rcs[run] = s_format_shaped(&d, msg_len, shape);
        aw[run] = d.amount_written;
        err[run] = aws_last_error();
    }
    bool canary = true;
    for (size_t i = 0; i < GUARD; ++i) {
        canary = canary && guarded[i] == 0xEE && guarded[GUARD + total + i] == 0xEE;
    }
    bool same = rcs[0] == rcs[1] && err[0] == err[1];
    if (rcs[0] == AWS_OP_SUCCESS) {
        size_t cmp = aw[0] + 1 < total ? aw[0] + 1 : total;
        same = same && aw[0] == aw[1] && memcmp(exact, guarded + GUARD, cmp) == 0;
        printf("P fmt rc=OK amount=%zu nul=%d\n", aw[0], aw[0] < total ? exact[aw[0]] == 0 : -1);
        s_print_line(exact, aw[0] <= total ? aw[0] : total);
    } else {
        printf("P fmt rc=%s\n", err[0] ? aws_error_name(err[0]) : "ERR");
    }
    printf("P canary %s\n", canary && same ? "ok" : (canary ? "RUNS-DIFFER" : "BROKEN"));
    free(exact);
    free(guarded);
    free(subj);
}

static void s_op_log(struct aws_logger *lg, bool is_file, char **t, int base) {
    int level = atoi(t[base]);
    uint32_t subject = (uint32_t)hc_parse_u64(t[base + 1]);
    size_t msg_len = hc_parse_size(t[base + 3]);
    int shape = atoi(t[base + 4]);
    bool cond = !strcmp(t[base + 5], "cond");
    long live0 = hc_live_blocks();
    long pos0 = 0;
    if (is_file) {
        fflush(s_noalloc_file);
        pos0 = ftell(s_noalloc_file);
    }
    s_rec_clear();
    size_t werr0 = s_werr;
    s_log_shaped(lg, level, subject, msg_len, shape, cond);
    if (is_file) {
        fflush(s_noalloc_file);
        long pos1 = ftell(s_noalloc_file);
        size_t n = (size_t)(pos1 - pos0);
        uint8_t *buf = malloc(n ? n : 1);
        fseek(s_noalloc_file, pos0, SEEK_SET);
        HC_CHECK(fread(buf, 1, n, s_noalloc_file) == n);
        fseek(s_noalloc_file, 0, SEEK_END);
        printf("P log lines=%d live=%ld werr=0\n", n ? 1 : 0, hc_live_blocks() - live0);
        if (n) {
            s_print_line(buf, n);
        }
        free(buf);
    } else {
        printf("P log lines=%zu live=%ld werr=%zu\n", s_nrec, hc_live_blocks() - live0, s_werr - werr0);
        for (size_t i = 0; i < s_nrec; ++i) {
            s_print_line(s_rec[i], s_rec_len[i]);
            if (!s_rec_nulterm[i]) {
                printf("P MONITOR line %zu handed to the writer is not NUL-terminated at len\n", i);
            }
        }
    }
}

/* number of open file descriptors of this process */
#include <dirent.h>
#include <unistd.h>
static int s_open_fds(void) {
    int n = 0;
    DIR *d = opendir("/proc/self/fd");
    if (!d) {
        return -1;
    }
    while (readdir(d)) {
        ++n;
    }
    closedir(d);
    return n;
}

/* two logger lifetimes on one file NAME: 'w' = pipeline logger over the library's file writer opened by name
 * (appends), 'n' = no-alloc logger opened by name (truncates); then the file is read back */
static void s_op_filelog(char kind, int k, int level) {
    char path[64];
    snprintf(path, sizeof(path), "/tmp/verif_c14_filelog_%ld.log", (long)getpid());
    remove(path);
    int fds0 = s_open_fds();
    for (int r = 0; r < 2; ++r) {
        struct aws_logger lg;
        struct aws_log_formatter formatter;
        struct aws_log_channel channel;
        struct aws_log_writer writer;
        if (kind == 'w') {
            struct aws_log_writer_file_options wo = {.filename = path, .file = NULL};
            HC_CHECK(aws_log_writer_init_file(&writer, hc_allocator(), &wo) == AWS_OP_SUCCESS);
            struct aws_log_formatter_standard_options fo = {.date_format = AWS_DATE_FORMAT_ISO_8601};
            HC_CHECK(aws_log_formatter_init_default(&formatter, hc_allocator(), &fo) == AWS_OP_SUCCESS);
            HC_CHECK(aws_log_channel_init_foreground(&channel, hc_allocator(), &writer) == AWS_OP_SUCCESS);
            HC_CHECK(aws_logger_init_from_external(&lg, hc_allocator(), &formatter, &channel, &writer, AWS_LL_TRACE) == 0);
        } else {
            struct aws_logger_standard_options o = {.level = AWS_LL_TRACE, .filename = path, .file = NULL};
            HC_CHECK(aws_logger_init_noalloc(&lg, hc_allocator(), &o) == AWS_OP_SUCCESS);
        }
        for (int j = 0; j < k; ++j) {
            s_log_shaped(&lg, level, AWS_LS_COMMON_GENERAL, (size_t)(3 + j + 5 * r), 0, false);
        }
        aws_logger_clean_up(&lg);
        if (kind == 'w') {
            aws_log_channel_clean_up(&channel);
            aws_log_formatter_clean_up(&formatter);
            aws_log_writer_clean_up(&writer);
        }
    }
    int fds1 = s_open_fds();
    FILE *f = fopen(path, "rb");
    size_t cap = 1 << 20, len = 0;
    uint8_t *buf = malloc(cap);
    if (f) {
        len = fread(buf, 1, cap, f);
        fclose(f);
    }
    remove(path);
    size_t lines = 0;
    for (size_t i = 0; i < len; ++i) {
        lines += buf[i] == '\n';
    }
    printf("P filelog lines=%zu fds=%d\n", lines, fds1 - fds0);
    size_t start = 0;
    for (size_t i = 0; i < len; ++i) {
        if (buf[i] == '\n') {
            s_print_line(buf + start, i + 1 - start);
            start = i + 1;
        }
    }
    if (start < len) {
        printf("P MONITOR file ends in a torn line of %zu bytes\n", len - start);
    }
    free(buf);
}

static char *g_t[HC_MAX_TOKS];
static int g_n;
static bool g_pending, g_eof;

/* ops following an `env`, executed on the worker thread until the next `case` / `env` / end of input */
static void *s_worker_main(void *arg) {
    (void)arg;
    char **t = g_t;
    int n = g_n;
    s_worker = __real_pthread_self();
    s_fake_on = true;
    s_op_env(t);
    for (;;) {
        n = g_n = hc_next_line(g_t);
        if (n < 0) {
            g_eof = true;
            break;
        }
        if (!strcmp(t[0], "case") || !strcmp(t[0], "env")) {
            g_pending = true;
            break;
        }
        if (false) {
        } else if (!strcmp(t[0], "subjects") && n >= 3) {
            s_op_subjects(t, n);
        } else if (!strcmp(t[0], "unsubjects") && n == 2) {
            size_t slot = hc_parse_size(t[1]);
            if (slot == 0 || slot >= AWS_PACKAGE_SLOTS || slot >= MAX_SLOTS) {
                printf("bad-op\n");
                continue;
            }
            s_drop_list(slot);
            printf("W unsubjects slot=%zu\n", slot);
        } else if (!strcmp(t[0], "nologger") && n == 3) {
            /* no logger installed (aws_logger_set(NULL) was the last word): nothing may reach any writer */
            char *m = s_pattern(hc_parse_size(t[2]));
            s_rec_clear();
            int level = atoi(t[1]);
            AWS_LOGF((enum aws_log_level)level, AWS_LS_COMMON_GENERAL, "%s", m);
            struct aws_logger *cur = aws_logger_get();
            printf("P nologger lines=%zu level=%d\n", s_nrec, (int)cur->vtable->get_log_level(cur, AWS_LS_COMMON_GENERAL));
            free(m);
        } else if (!strcmp(t[0], "strlevel") && n == 2) {
            size_t len;
            uint8_t *txt = hc_hex_decode(t[1], &len);
            txt = realloc(txt, len + 1);
            txt[len] = 0;
            enum aws_log_level lvl = (enum aws_log_level)77;
            aws_reset_error();
            int rc = aws_string_to_log_level((const char *)txt, &lvl);
            if (rc == AWS_OP_SUCCESS) {
                printf("P strlevel rc=OK level=%d\n", (int)lvl);
            } else {
                printf("P strlevel rc=%s\n", hc_last_error_name());
            }
            free(txt);
        } else if (!strcmp(t[0], "levelname") && n == 2) {
            const char *name = NULL;
            aws_reset_error();
            int rc = aws_log_level_to_string((enum aws_log_level)atoi(t[1]), &name);
            if (rc == AWS_OP_SUCCESS && name) {
                printf("P levelname rc=OK ");
                hc_put_hex((const uint8_t *)name, strlen(name));
                printf("\n");
            } else {
                printf("P levelname rc=%s\n", hc_last_error_name());
            }
        } else if (!strcmp(t[0], "writerinit") && n == 2 && strlen(t[1]) == 1 && strchr("0123", t[1][0])) {
            /* argument shapes of aws_log_writer_init_file: neither, name, FILE, both */
            int k = t[1][0] - '0';
            char path[64];
            snprintf(path, sizeof(path), "/tmp/verif_c14_writerinit_%ld.log", (long)getpid());
            int fds0 = s_open_fds();
            FILE *f = (k & 2) ? tmpfile() : NULL;
            struct aws_log_writer_file_options wo = {.filename = (k & 1) ? path : NULL, .file = f};
            struct aws_log_writer w;
            aws_reset_error();
            int rc = aws_log_writer_init_file(&w, hc_allocator(), &wo);
            if (rc == AWS_OP_SUCCESS) {
                aws_log_writer_clean_up(&w);
            }
            if (f) {
                fclose(f);
            }
            remove(path);
            printf("P writerinit rc=%s fds=%d\n", hc_err(rc), s_open_fds() - fds0);
        } else if (!strcmp(t[0], "filelog") && n == 4 && (t[1][0] == 'w' || t[1][0] == 'n') && !t[1][1]) {
            s_op_filelog(t[1][0], atoi(t[2]), atoi(t[3]));
        } else if (!strcmp(t[0], "wfail") && n >= 2 && n - 1 <= MAXFAIL) {
            s_nwfail = 0;
            for (int i = 1; i < n; ++i) {
                if (strcmp(t[i], "-") != 0) {
                    s_wfail[s_nwfail++] = hc_parse_size(t[i]);
                }
            }
        } else if (!strcmp(t[0], "fmt") && n == 7) {
            s_op_fmt(t);
        } else if (!strcmp(t[0], "initfail") && n == 2 && strlen(t[1]) == 1 && strchr("snw", t[1][0])) {
            /* a file name that cannot be opened: the init must fail and keep nothing */
            const char *bad = "/nonexistent_dir_verif_c14/x.log";
            long live0 = hc_live_blocks();
            int fds0 = s_open_fds();
            int rc;
            if (t[1][0] == 's') {
                struct aws_logger lg;
                struct aws_logger_standard_options o = {.level = AWS_LL_TRACE, .filename = bad, .file = NULL};
                rc = aws_logger_init_standard(&lg, hc_allocator(), &o);
            } else if (t[1][0] == 'n') {
                struct aws_logger lg;
                struct aws_logger_standard_options o = {.level = AWS_LL_TRACE, .filename = bad, .file = NULL};
                rc = aws_logger_init_noalloc(&lg, hc_allocator(), &o);
            } else {
                struct aws_log_writer w;
                struct aws_log_writer_file_options wo = {.filename = bad, .file = NULL};
                rc = aws_log_writer_init_file(&w, hc_allocator(), &wo);
            }
            printf("P initfail rc=%s live=%ld fds=%d\n", rc == AWS_OP_SUCCESS ? "OK" : "ERR", hc_live_blocks() - live0, s_open_fds() - fds0);
        } else if (!strcmp(t[0], "init") && (n == 3 || n == 4) && strlen(t[1]) == 1 && strchr("abcn", t[1][0])) {
            int level = atoi(t[2]);
            if (t[1][0] == 'n') {
                if (s_have_noalloc) {
                    printf("bad-op\n");
                    continue;
                }
                s_noalloc_file = tmpfile();
                HC_CHECK(s_noalloc_file != NULL);
                struct aws_logger_standard_options o = {.level = (enum aws_log_level)level, .file = s_noalloc_file};
                HC_CHECK(aws_logger_init_noalloc(&s_noalloc, hc_allocator(), &o) == AWS_OP_SUCCESS);
                s_have_noalloc = true;
            } else {
                if (s_pipe[t[1][0] - 'a'].have) {
                    printf("bad-op\n");
                    continue;
                }
                s_init_pipe(t[1][0] - 'a', level, n == 4 ? atoi(t[3]) : AWS_DATE_FORMAT_ISO_8601);
            }
        } else if (!strcmp(t[0], "setlevel") && n == 3 && strlen(t[1]) == 1 && strchr("abcn", t[1][0])) {
            struct aws_logger *lg = t[1][0] == 'n' ? (s_have_noalloc ? &s_noalloc : NULL)
                                                   : (s_pipe[t[1][0] - 'a'].have ? &s_pipe[t[1][0] - 'a'].logger : NULL);
            if (!lg) {
                printf("bad-op\n");
                continue;
            }
            int rc = aws_logger_set_log_level(lg, (enum aws_log_level)atoi(t[2]));
            printf("P setlevel %s\n", hc_err(rc));
        } else if (!strcmp(t[0], "pipe") && n == 8 && strlen(t[1]) == 1 && strchr("abc", t[1][0])) {
            if (!s_pipe[t[1][0] - 'a'].have) {
                printf("bad-op\n");
                continue;
            }
            s_op_log(&s_pipe[t[1][0] - 'a'].logger, false, t, 2);
        } else if (!strcmp(t[0], "noalloc") && n == 7) {
            if (!s_have_noalloc) {
                printf("bad-op\n");
                continue;
            }
            s_op_log(&s_noalloc, true, t, 1);
        } else {
            printf("bad-op\n");
        }
    }
    s_fake_on = false;
    return NULL;
}

int main(void) {
    aws_common_library_init(hc_allocator());
    while (!g_eof) {
        if (!g_pending) {
            g_n = hc_next_line(g_t);
            if (g_n < 0) {
                break;
            }
        }
        g_pending = false;
        if (!strcmp(g_t[0], "case")) {
            s_reset();
            hc_case_begin(g_t[1]);
        } else if (!strcmp(g_t[0], "env") && g_n == 6) {
            size_t len;
            uint8_t *tid = hc_hex_decode(g_t[2], &len);
            char txt[17];
            HC_CHECK(len == 16);
            memcpy(txt, tid, 16);
            txt[16] = 0;
            free(tid);
            s_fake_self = strtoull(txt, NULL, 16);
            pthread_t th;
            HC_CHECK(pthread_create(&th, NULL, s_worker_main, NULL) == 0);
            pthread_join(th, NULL);
        } else {
            printf("bad-op\n");
        }
    }
    s_reset();
    return 0;
}
