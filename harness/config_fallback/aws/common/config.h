#ifndef AWS_COMMON_CONFIG_H
#define AWS_COMMON_CONFIG_H

/**
 * Copyright Amazon.com, Inc. or its affiliates. All Rights Reserved.
 * SPDX-License-Identifier: Apache-2.0.
 */

/*
 * This header exposes compiler feature test results determined during cmake
 * configure time to inline function implementations. The macros defined here
 * should be considered to be an implementation detail, and can change at any
 * time.
 */
#define AWS_HAVE_GCC_OVERFLOW_MATH_EXTENSIONS
#define AWS_HAVE_GCC_INLINE_ASM
/* #undef AWS_HAVE_MSVC_INTRINSICS_X64 */
#define AWS_HAVE_POSIX_LARGE_FILE_SUPPORT
#define AWS_HAVE_EXECINFO
/* #undef AWS_HAVE_WINAPI_DESKTOP */
#define AWS_HAVE_LINUX_IF_LINK_H
#define AWS_HAVE_AVX2_INTRINSICS
#define AWS_HAVE_AVX512_INTRINSICS
#define AWS_HAVE_MM256_EXTRACT_EPI64
#define AWS_HAVE_CLMUL
/* #undef AWS_HAVE_ARM32_CRC */
/* #undef AWS_HAVE_ARMv8_1 */
/* #undef AWS_ARCH_ARM64 */
#define AWS_ARCH_INTEL
#define AWS_ARCH_INTEL_X64
#define AWS_USE_CPU_EXTENSIONS

#endif
