/* Force-included when source/posix/system_info.c is compiled for the no-backtrace flavour of the C17 harness:
 * the platform variant without <execinfo.h>, where aws_backtrace() returns 0 (the #else branch of AWS_HAVE_EXECINFO). */
#include <aws/common/config.h>
#undef AWS_HAVE_EXECINFO
