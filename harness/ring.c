/* C15 harness: drives aws_ring_buffer through an op file; releases can be injected between the
 * acquirer's tail load and head load through the schedule-point callback (verif_atomics.h).
 *
 *   initbig <n>: like init, but the storage comes from an allocator that only RESERVES address space (mmap PROT_NONE,
 *                MAP_NORESERVE) and is never touched - the ring itself never reads or writes its storage - so rings of
 *                2^32 bytes and more can be driven; prints `P big-unavailable` (and ignores the case) if the mapping fails
 *   init <n> | acq <k> <p> <size> [live<j>] | upto <k> <p> <min> <size> [live<j>] | rel
 *
 * *dest of every acquire is pre-filled: with a sentinel, or (live<j>, only without injected releases) it IS the caller's
 * handle of the j-th outstanding buffer (0 = oldest) - the idiom of tests/ring_buffer_test.c for requests expected to
 * fail.  A refused request must leave *dest untouched (P dest_untouched); if it does not, the handle stays clobbered and
 * its later in-order release publishes whatever it now describes.  A granted request with a live handle as dest: the
 * caller is taken to have kept a copy (the handle is restored), the new buffer is queued as usual. */
#include "h_common.h"
#include <aws/common/byte_buf.h>
#include <aws/common/ring_buffer.h>
#include <stdlib.h>
#include <string.h>
#include <sys/mman.h>
#ifndef MAP_ANONYMOUS
#    define MAP_ANONYMOUS 0x20 /* Linux; hidden by _POSIX_C_SOURCE */
#endif
#ifndef MAP_NORESERVE
#    define MAP_NORESERVE 0x4000
#endif

#define MAXOUT 4096
static struct aws_ring_buffer s_ring;
static bool s_have;
static struct aws_byte_buf s_out[MAXOUT];  /* the caller's handles (what release is called with) */
static struct aws_byte_buf s_true[MAXOUT]; /* shadow copies: the true extent of each buffer, for the overlap monitor */
static uint8_t s_sentinel_byte;
static size_t s_head_idx, s_tail_idx; /* FIFO of outstanding buffers: [s_tail_idx, s_head_idx) */
static size_t s_inject;               /* releases to perform at schedule point s_inject_at of the current call */
static int s_inject_at;               /* 0 = before the first atomic access, 1 = before the second, ... */
static int s_point;                   /* atomic accesses seen so far in the current call */
static bool s_in_call;
static char s_ev[64];                 /* sequence of atomic accesses of the current call, e.g. "LtLhSh" */

/* ---- reserve-only allocator for rings of 4 GiB and more ---- */
static bool s_big;         /* the current ring's storage is reserved address space: never touch it */
static void *s_big_block;  /* the reservation made for the next mem_acquire */
static size_t s_big_size;
static void *s_big_acquire(struct aws_allocator *a, size_t size) {
    (void)a;
    HC_CHECK(s_big_block && size == s_big_size);
    return s_big_block;
}
static void s_big_release(struct aws_allocator *a, void *p) {
    (void)a;
    HC_CHECK(p == s_big_block);
    munmap(s_big_block, s_big_size);
    s_big_block = NULL;
}
static struct aws_allocator s_big_allocator = {.mem_acquire = s_big_acquire, .mem_release = s_big_release};

static void s_release_oldest(void) {
    if (s_tail_idx < s_head_idx) {
        aws_ring_buffer_release(&s_ring, &s_out[s_tail_idx]);
        HC_CHECK(s_out[s_tail_idx].buffer == NULL);
        ++s_tail_idx;
    }
}

static int s_last_tail_store_order = -1;

void verif_sched_point_o(int kind, const volatile void *addr, int order) {
    if (s_have && kind == 1 && addr == (const volatile void *)&s_ring.tail) {
        s_last_tail_store_order = order;
    }
    if (!s_have || !s_in_call) {
        return;
    }
    if (s_point == s_inject_at) {
        /* the releaser runs now, between two atomic accesses of the acquirer */
        size_t k = s_inject;
        s_inject = 0;
        s_in_call = false;
        while (k--) {
            s_release_oldest();
        }
        s_in_call = true;
    }
    size_t n = strlen(s_ev);
    if (n + 4 < sizeof(s_ev)) {
        s_ev[n] = kind == 0 ? 'L' : kind == 1 ? 'S' : 'X';
        s_ev[n + 1] = addr == (const volatile void *)&s_ring.tail ? 't' : addr == (const volatile void *)&s_ring.head ? 'h' : '?';
        s_ev[n + 2] = (char)('0' + (order >= 0 && order <= 9 ? order : 9)); /* __ATOMIC_RELAXED 0 .. __ATOMIC_SEQ_CST 5 */
        s_ev[n + 3] = 0;
    }
    ++s_point;
}

static void s_call_begin(const char *k, const char *p) {
    s_inject = (size_t)atol(k);
    s_inject_at = atoi(p);
    s_point = 0;
    s_ev[0] = 0;
    s_in_call = true;
}

static void s_call_end(void) {
    s_in_call = false;
    /* a release scheduled behind the last atomic access of the call happens right after it */
    while (s_inject) {
        --s_inject;
        s_release_oldest();
    }
    printf("W ev=%s\n", s_ev[0] ? s_ev : "-");
}

static void s_reset(void) {
    if (s_have) {
        aws_ring_buffer_clean_up(&s_ring);
        if (hc_live_blocks() != 0) { /* clean_up hands the storage back */
            printf("P MONITOR clean_up left %ld block(s) allocated\n", hc_live_blocks());
        }
    }
    s_have = false;
    s_big = false;
    s_head_idx = s_tail_idx = 0;
    s_inject = 0;
    s_in_call = false;
}

/* the library's own validity predicate (ring_buffer.inl), an observation point of the property */
static void s_print_valid(void) {
    printf("P valid=%d\n", (int)aws_ring_buffer_is_valid(&s_ring));
    /* head == tail exactly when nothing is outstanding (c15_is_empty_iff) */
    printf("P empty=%d\n", (int)aws_ring_buffer_is_empty(&s_ring));
}

/* choose *dest for the call: the live handle named by the optional token, else `local` filled with a sentinel */
static struct aws_byte_buf *s_pick_dest(const char *tok, struct aws_byte_buf *local, struct aws_byte_buf *saved, bool *live) {
    struct aws_byte_buf *d = local;
    *live = false;
    local->len = 0x11;
    local->buffer = &s_sentinel_byte;
    local->capacity = 0x33;
    local->allocator = (struct aws_allocator *)(void *)&s_sentinel_byte;
    if (tok && !strncmp(tok, "live", 4) && s_inject == 0) {
        size_t j = (size_t)atol(tok + 4);
        if (s_tail_idx + j < s_head_idx) {
            d = &s_out[s_tail_idx + j];
            *live = true;
        }
    }
    *saved = *d;
    return d;
}

static void s_after_acquire(int rc, struct aws_byte_buf *dest, const struct aws_byte_buf *saved, bool live) {
    s_call_end();
    if (rc != AWS_OP_SUCCESS) {
        printf("P acq %s\n", hc_last_error_name());
        /* frame condition: a refused request does not write *dest */
        printf("P dest_untouched=%d\n", memcmp(dest, saved, sizeof(*dest)) == 0);
    }
    struct aws_byte_buf got = *dest;
    if (rc == AWS_OP_SUCCESS && live) {
        *dest = *saved; /* the caller kept its copy of the handle */
    }
    dest = &got;
    if (rc == AWS_OP_SUCCESS) {
        size_t off = (size_t)(dest->buffer - s_ring.allocation);
        printf("P acq OK len=%zu\n", dest->capacity);
        printf("W off=%zu\n", off);
        /* property monitor on real addresses: inside the ring, disjoint from every outstanding buffer */
        bool inside = dest->buffer >= s_ring.allocation && dest->buffer + dest->capacity <= s_ring.allocation_end;
        bool overlap = false;
        for (size_t i = s_tail_idx; i < s_head_idx; ++i) {
            uint8_t *a = s_true[i].buffer, *ae = a + s_true[i].capacity;
            if (dest->buffer < ae && a < dest->buffer + dest->capacity) {
                overlap = true;
            }
        }
        if (!inside || overlap || dest->len != 0) {
            printf("P MONITOR inside=%d overlap=%d len=%zu\n", inside, overlap, dest->len);
        }
        if (inside && !s_big) {
            memset(dest->buffer, 0xA5, dest->capacity); /* ASan: whole buffer writable */
        }
        /* the library's own "inside the ring" predicate: the granted buffer, a foreign one, one straddling the end */
        {
            uint8_t foreign_mem[4];
            struct aws_byte_buf foreign = aws_byte_buf_from_empty_array(foreign_mem, sizeof(foreign_mem));
            struct aws_byte_buf straddle = aws_byte_buf_from_empty_array(s_ring.allocation_end - 1, 2);
            printf(
                "P belongs=%d%d%d\n",
                (int)aws_ring_buffer_buf_belongs_to_pool(&s_ring, dest),
                (int)aws_ring_buffer_buf_belongs_to_pool(&s_ring, &foreign),
                (int)aws_ring_buffer_buf_belongs_to_pool(&s_ring, &straddle));
        }
        HC_CHECK(s_head_idx < MAXOUT);
        s_true[s_head_idx] = *dest;
        s_out[s_head_idx] = *dest;
        s_out[s_head_idx++].len = dest->capacity / 2; /* the user wrote some data: len != capacity, release goes by capacity */
    }
    printf("P outstanding=%zu\n", s_head_idx - s_tail_idx);
    s_print_valid();
}

int main(void) {
    char *t[HC_MAX_TOKS];
    int n;
    aws_common_library_init(hc_allocator());
    while ((n = hc_next_line(t)) >= 0) {
        if (!strcmp(t[0], "case")) {
            s_reset();
            hc_case_begin(t[1]);
        } else if (!strcmp(t[0], "init") && n == 2) {
            s_reset();
            HC_CHECK(aws_ring_buffer_init(&s_ring, hc_allocator(), hc_parse_size(t[1])) == AWS_OP_SUCCESS);
            s_have = true;
            s_print_valid();
        } else if (!strcmp(t[0], "initbig") && n == 2) {
            s_reset();
            s_big_size = hc_parse_size(t[1]);
            s_big_block = mmap(NULL, s_big_size, PROT_NONE, MAP_PRIVATE | MAP_ANONYMOUS | MAP_NORESERVE, -1, 0);
            if (s_big_block == MAP_FAILED) {
                s_big_block = NULL;
                printf("P big-unavailable\n");
            } else {
                HC_CHECK(aws_ring_buffer_init(&s_ring, &s_big_allocator, s_big_size) == AWS_OP_SUCCESS);
                s_have = true;
                s_big = true;
                s_print_valid();
            }
        } else if (!s_have) {
            printf("bad-op\n");
        } else if (!strcmp(t[0], "acq") && (n == 4 || (n == 5 && !strncmp(t[4], "live", 4)))) {
            struct aws_byte_buf local, saved;
            bool live;
            s_inject = (size_t)atol(t[1]);
            struct aws_byte_buf *dest = s_pick_dest(n == 5 ? t[4] : NULL, &local, &saved, &live);
            s_call_begin(t[1], t[2]);
            int rc = aws_ring_buffer_acquire(&s_ring, hc_parse_size(t[3]), dest);
            s_after_acquire(rc, dest, &saved, live);
        } else if (!strcmp(t[0], "upto") && (n == 5 || (n == 6 && !strncmp(t[5], "live", 4)))) {
            struct aws_byte_buf local, saved;
            bool live;
            s_inject = (size_t)atol(t[1]);
            struct aws_byte_buf *dest = s_pick_dest(n == 6 ? t[5] : NULL, &local, &saved, &live);
            s_call_begin(t[1], t[2]);
            int rc = aws_ring_buffer_acquire_up_to(&s_ring, hc_parse_size(t[3]), hc_parse_size(t[4]), dest);
            s_after_acquire(rc, dest, &saved, live);
        } else if (!strcmp(t[0], "rel") && n == 1) {
            bool any = s_tail_idx < s_head_idx;
            s_last_tail_store_order = -1;
            s_release_oldest();
            if (any) {
                printf("W relorder=%d\n", s_last_tail_store_order); /* the tail is published with release order */
            }
            printf("P outstanding=%zu\n", s_head_idx - s_tail_idx);
            s_print_valid();
        } else {
            printf("bad-op\n");
        }
    }
    s_reset();
    return 0;
}
