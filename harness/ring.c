/* C15 harness: drives aws_ring_buffer through an op file; releases can be injected between the
 * acquirer's tail load and head load through the schedule-point callback (verif_atomics.h). */
#include "h_common.h"
#include <aws/common/byte_buf.h>
#include <aws/common/ring_buffer.h>
#include <stdlib.h>
#include <string.h>

#define MAXOUT 4096
static struct aws_ring_buffer s_ring;
static bool s_have;
static struct aws_byte_buf s_out[MAXOUT];
static size_t s_head_idx, s_tail_idx; /* FIFO of outstanding buffers: [s_tail_idx, s_head_idx) */
static size_t s_inject;               /* releases to perform at the next head load */
static bool s_saw_tail_load;

static void s_release_oldest(void) {
    if (s_tail_idx < s_head_idx) {
        aws_ring_buffer_release(&s_ring, &s_out[s_tail_idx]);
        HC_CHECK(s_out[s_tail_idx].buffer == NULL);
        ++s_tail_idx;
    }
}

void verif_sched_point(int kind, const volatile void *addr) {
    if (!s_have) {
        return;
    }
    if (kind == 0 && addr == (const volatile void *)&s_ring.tail) {
        s_saw_tail_load = true;
    }
    if (kind == 0 && addr == (const volatile void *)&s_ring.head && s_saw_tail_load) {
        /* the acquirer has loaded tail and is about to load head: the releaser runs now */
        size_t k = s_inject;
        s_inject = 0;
        s_saw_tail_load = false;
        while (k--) {
            s_release_oldest();
        }
    }
}

static void s_reset(void) {
    if (s_have) {
        aws_ring_buffer_clean_up(&s_ring);
    }
    s_have = false;
    s_head_idx = s_tail_idx = 0;
    s_inject = 0;
    s_saw_tail_load = false;
}

static void s_after_acquire(int rc, struct aws_byte_buf *dest) {
    if (rc == AWS_OP_SUCCESS) {
        size_t off = (size_t)(dest->buffer - s_ring.allocation);
        printf("P acq OK len=%zu\n", dest->capacity);
        printf("W off=%zu\n", off);
        /* property monitor on real addresses: inside the ring, disjoint from every outstanding buffer */
        bool inside = dest->buffer >= s_ring.allocation && dest->buffer + dest->capacity <= s_ring.allocation_end;
        bool overlap = false;
        for (size_t i = s_tail_idx; i < s_head_idx; ++i) {
            uint8_t *a = s_out[i].buffer, *ae = a + s_out[i].capacity;
            if (dest->buffer < ae && a < dest->buffer + dest->capacity) {
                overlap = true;
            }
        }
        if (!inside || overlap || dest->len != 0) {
            printf("P MONITOR inside=%d overlap=%d len=%zu\n", inside, overlap, dest->len);
        }
        memset(dest->buffer, 0xA5, dest->capacity); /* ASan: whole buffer writable */
        HC_CHECK(s_head_idx < MAXOUT);
        s_out[s_head_idx++] = *dest;
    } else {
        printf("P acq %s\n", hc_last_error_name());
    }
    printf("P outstanding=%zu\n", s_head_idx - s_tail_idx);
}

int main(void) {
    char *t[HC_MAX_TOKS];
    int n;
    aws_common_library_init(hc_allocator());
    while ((n = hc_next_line(t)) >= 0) {
        if (!strcmp(t[0], "case")) {
            s_reset();
            hc_case_begin(t[1]);
        } else if (!strcmp(t[0], "init") && n == 2) {
            s_reset();
            HC_CHECK(aws_ring_buffer_init(&s_ring, hc_allocator(), hc_parse_size(t[1])) == AWS_OP_SUCCESS);
            s_have = true;
        } else if (!s_have) {
            printf("bad-op\n");
        } else if (!strcmp(t[0], "acq") && n == 3) {
            struct aws_byte_buf dest;
            AWS_ZERO_STRUCT(dest);
            s_inject = (size_t)atol(t[1]);
            s_saw_tail_load = false;
            int rc = aws_ring_buffer_acquire(&s_ring, hc_parse_size(t[2]), &dest);
            s_inject = 0;
            s_after_acquire(rc, &dest);
        } else if (!strcmp(t[0], "upto") && n == 4) {
            struct aws_byte_buf dest;
            AWS_ZERO_STRUCT(dest);
            s_inject = (size_t)atol(t[1]);
            s_saw_tail_load = false;
            int rc = aws_ring_buffer_acquire_up_to(&s_ring, hc_parse_size(t[2]), hc_parse_size(t[3]), &dest);
            s_inject = 0;
            s_after_acquire(rc, &dest);
        } else if (!strcmp(t[0], "rel") && n == 1) {
            s_release_oldest();
            printf("P outstanding=%zu\n", s_head_idx - s_tail_idx);
        } else {
            printf("bad-op\n");
        }
    }
    s_reset();
    return 0;
}
