/* C07 harness: drives the real aws_task_scheduler.  Task functions execute their script by calling the
 * real API re-entrantly (guarded by the API contract: schedule only a task that is not pending, cancel
 * only a pending one) and print (task, generation, status, time of the enclosing run_all) as P lines. */
#include "h_common.h"
#include <aws/common/task_scheduler.h>
#include <inttypes.h>
#include <stdlib.h>
#include <string.h>
#include <unistd.h>

#define MAXT 64
#define MAXS 4096
#define MAXA 16
#define MAXDEPTH 2000

enum { A_NOW, A_FUTURE, A_CANCEL };
struct act {
    int kind;
    int t;
    uint64_t time;
};
struct script {
    int t;
    unsigned gen;
    int status;
    int n;
    struct act a[MAXA];
};
struct htask {
    struct aws_task task;
    int id;
    unsigned gen;
};

static struct aws_task_scheduler s_sched;
static bool s_have, s_quiet, s_failmode, s_diverged;
static size_t s_nt;
static struct htask s_tasks[MAXT];
static struct script s_scripts[MAXS];
static int s_nscripts, s_depth;
static uint64_t s_now;
static unsigned s_skipped;

static void do_sched_now(int t) {
    if (t < 0 || (size_t)t >= s_nt || s_tasks[t].task.abi_extension.scheduled) {
        ++s_skipped;
        return;
    }
    s_tasks[t].gen++;
    aws_task_scheduler_schedule_now(&s_sched, &s_tasks[t].task);
}

static void do_sched_future(int t, uint64_t time) {
    if (t < 0 || (size_t)t >= s_nt || s_tasks[t].task.abi_extension.scheduled) {
        ++s_skipped;
        return;
    }
    s_tasks[t].gen++;
    if (s_failmode) {
        /* forced failure of aws_priority_queue_push_ref: for the duration of this call the timed queue is a
         * static queue (a handle on a static queue is refused), so the timed_list fall-back is taken */
        struct aws_priority_queue saved = s_sched.timed_queue;
        struct aws_priority_queue dummy;
        void *buf[1];
        aws_priority_queue_init_static(&dummy, buf, 1, sizeof(struct aws_task *), saved.pred);
        s_sched.timed_queue = dummy;
        aws_task_scheduler_schedule_future(&s_sched, &s_tasks[t].task, time);
        s_sched.timed_queue = saved;
    } else {
        aws_task_scheduler_schedule_future(&s_sched, &s_tasks[t].task, time);
    }
}

static void do_cancel(int t) {
    if (t < 0 || (size_t)t >= s_nt || !s_tasks[t].task.abi_extension.scheduled) {
        ++s_skipped;
        return;
    }
    aws_task_scheduler_cancel_task(&s_sched, &s_tasks[t].task);
}

static void s_fn(struct aws_task *task, void *arg, enum aws_task_status status) {
    (void)task;
    struct htask *h = arg;
    if (s_quiet) {
        return;
    }
    printf(
        "P log T%d g%u %s %" PRIu64 "\n", h->id, h->gen, status == AWS_TASK_STATUS_RUN_READY ? "RUN" : "CANCELED", s_now);
    if (s_depth >= MAXDEPTH) {
        s_diverged = true;
        return;
    }
    ++s_depth;
    int st = status == AWS_TASK_STATUS_RUN_READY ? 0 : 1;
    unsigned gen = h->gen;
    for (int i = s_nscripts - 1; i >= 0; --i) {
        if (s_scripts[i].t == h->id && s_scripts[i].gen == gen && s_scripts[i].status == st) {
            for (int k = 0; k < s_scripts[i].n; ++k) {
                struct act *a = &s_scripts[i].a[k];
                if (a->kind == A_NOW) {
                    do_sched_now(a->t);
                } else if (a->kind == A_FUTURE) {
                    do_sched_future(a->t, a->time);
                } else {
                    do_cancel(a->t);
                }
            }
            break;
        }
    }
    --s_depth;
}

static void s_reset(void) {
    if (s_have) {
        s_quiet = true;
        aws_task_scheduler_clean_up(&s_sched);
        s_quiet = false;
        if (hc_live_blocks() != 0) {
            printf("P MONITOR leak blocks=%ld\n", hc_live_blocks());
        }
    }
    s_have = false;
    s_nscripts = 0;
    s_depth = 0;
    s_now = 0;
    s_skipped = 0;
    s_failmode = false;
    s_diverged = false;
}

static int s_task(const char *t) {
    if (t[0] != 'T') {
        return -1;
    }
    char *end;
    long v = strtol(t + 1, &end, 10);
    if (*end || end == t + 1 || v < 0) {
        return -1;
    }
    return (int)v;
}

static bool s_time(const char *t, uint64_t *out) {
    if (!((t[0] >= '0' && t[0] <= '9') || !strncmp(t, "MAX", 3))) {
        return false;
    }
    *out = hc_parse_u64(t);
    return true;
}

static struct htask *s_of_node(struct aws_linked_list_node *n) {
    struct aws_task *task = AWS_CONTAINER_OF(n, struct aws_task, node);
    return (struct htask *)task->arg;
}

static void s_report(void) {
    if (s_skipped) {
        printf("P skipped %u\n", s_skipped);
        s_skipped = 0;
    }
    if (s_diverged) {
        printf("P DIVERGED\n");
    }
    uint64_t next = 0;
    bool has = aws_task_scheduler_has_tasks(&s_sched, &next);
    printf("P has %d %" PRIu64 "\n", has ? 1 : 0, next);
    printf("W asap");
    for (struct aws_linked_list_node *n = aws_linked_list_begin(&s_sched.asap_list);
         n != aws_linked_list_end(&s_sched.asap_list);
         n = aws_linked_list_next(n)) {
        printf(" T%d:%" PRIu64, s_of_node(n)->id, s_of_node(n)->task.timestamp);
    }
    printf("\nW tl");
    for (struct aws_linked_list_node *n = aws_linked_list_begin(&s_sched.timed_list);
         n != aws_linked_list_end(&s_sched.timed_list);
         n = aws_linked_list_next(n)) {
        printf(" T%d:%" PRIu64, s_of_node(n)->id, s_of_node(n)->task.timestamp);
    }
    printf("\nW heap");
    size_t len = aws_priority_queue_size(&s_sched.timed_queue);
    bool ok = aws_task_scheduler_is_valid(&s_sched);
    bool order = true;
    for (size_t i = 0; i < len; ++i) {
        struct aws_task **pp = NULL;
        aws_array_list_get_at_ptr(&s_sched.timed_queue.container, (void **)&pp, i);
        struct htask *h = (struct htask *)(*pp)->arg;
        printf(" %" PRIu64 ":T%d", (*pp)->timestamp, h->id);
        if ((*pp)->priority_queue_node.current_index != i || !(*pp)->abi_extension.scheduled) {
            ok = false;
        }
        if (i > 0) {
            /* C06 white-box on the scheduler's own timed queue: heap order of the container array */
            struct aws_task **par = NULL;
            aws_array_list_get_at_ptr(&s_sched.timed_queue.container, (void **)&par, (i - 1) / 2);
            if ((*par)->timestamp > (*pp)->timestamp) {
                order = false;
            }
        }
    }
    /* handles (C06 through the scheduler): a task that has been scheduled and is not in the heap has a handle that
     * says "not in queue"; one that says "in queue" sits on its own element */
    for (size_t t = 0; t < s_nt; ++t) {
        struct aws_task *tk = &s_tasks[t].task;
        if (s_tasks[t].gen > 0 && aws_priority_queue_node_is_in_queue(&tk->priority_queue_node)) {
            size_t idx = tk->priority_queue_node.current_index;
            struct aws_task **pp = NULL;
            if (idx >= len || aws_array_list_get_at_ptr(&s_sched.timed_queue.container, (void **)&pp, idx) || *pp != tk) {
                ok = false;
            }
        }
    }
    printf("\nW running\n");
    if (!ok) {
        printf("P MONITOR scheduler invalid or heap handle out of place\n");
    }
    if (!order) {
        printf("P MONITOR timed queue not in heap order\n");
    }
}

int main(void) {
    char *t[HC_MAX_TOKS];
    int n;
    aws_common_library_init(hc_allocator());
    while ((n = hc_next_line(t)) >= 0) {
        if (!strcmp(t[0], "case")) {
            s_reset();
            hc_case_begin(t[1]);
            alarm(2); /* watchdog: a case takes milliseconds; a hang is reported as a crash of this case */
        } else if (!strcmp(t[0], "init") && n == 2) {
            long nt = atol(t[1]);
            if (nt <= 0 || nt > MAXT) {
                printf("bad-op\n");
                continue;
            }
            s_reset();
            s_nt = (size_t)nt;
            for (int i = 0; i < MAXT; ++i) {
                /* task and scheduler objects are NOT zero before init: stale fields must not matter */
                memset(&s_tasks[i].task, 0xA5, sizeof(s_tasks[i].task));
                aws_task_init(&s_tasks[i].task, s_fn, &s_tasks[i], "t");
                s_tasks[i].id = i;
                s_tasks[i].gen = 0;
            }
            memset(&s_sched, 0xA5, sizeof(s_sched));
            HC_CHECK(aws_task_scheduler_init(&s_sched, hc_allocator()) == AWS_OP_SUCCESS);
            s_have = true;
        } else if (!s_have) {
            printf("bad-op\n");
        } else if (!strcmp(t[0], "script") && n >= 4) {
            int tk = s_task(t[1]);
            int st = !strcmp(t[3], "run") ? 0 : !strcmp(t[3], "canceled") ? 1 : -1;
            char *end;
            long gen = strtol(t[2], &end, 10);
            bool good = tk >= 0 && (size_t)tk < s_nt && st >= 0 && !*end && gen >= 0 && s_nscripts < MAXS;
            struct script sc;
            memset(&sc, 0, sizeof(sc));
            sc.t = tk;
            sc.gen = (unsigned)gen;
            sc.status = st;
            int i = 4;
            while (good && i < n) {
                struct act a;
                memset(&a, 0, sizeof(a));
                if (!strcmp(t[i], "now") && i + 1 < n && s_task(t[i + 1]) >= 0) {
                    a.kind = A_NOW;
                    a.t = s_task(t[i + 1]);
                    i += 2;
                } else if (!strcmp(t[i], "future") && i + 2 < n && s_task(t[i + 1]) >= 0 && s_time(t[i + 2], &a.time)) {
                    a.kind = A_FUTURE;
                    a.t = s_task(t[i + 1]);
                    i += 3;
                } else if (!strcmp(t[i], "cancel") && i + 1 < n && s_task(t[i + 1]) >= 0) {
                    a.kind = A_CANCEL;
                    a.t = s_task(t[i + 1]);
                    i += 2;
                } else {
                    good = false;
                    break;
                }
                if (sc.n >= MAXA) {
                    good = false;
                    break;
                }
                sc.a[sc.n++] = a;
                if (i < n) {
                    if (strcmp(t[i], ";") || i + 1 >= n) {
                        good = false;
                        break;
                    }
                    ++i;
                }
            }
            if (!good) {
                printf("bad-op\n");
            } else {
                s_scripts[s_nscripts++] = sc;
            }
        } else if (!strcmp(t[0], "sched_now") && n == 2 && s_task(t[1]) >= 0) {
            do_sched_now(s_task(t[1]));
            s_report();
        } else if (!strcmp(t[0], "sched_future") && n == 3 && s_task(t[1]) >= 0) {
            uint64_t time;
            if (!s_time(t[2], &time)) {
                printf("bad-op\n");
                continue;
            }
            do_sched_future(s_task(t[1]), time);
            s_report();
        } else if (!strcmp(t[0], "cancel") && n == 2 && s_task(t[1]) >= 0) {
            do_cancel(s_task(t[1]));
            s_report();
        } else if (!strcmp(t[0], "stale_link") && n == 2 && s_task(t[1]) >= 0) {
            /* leave STALE links in the task's list node, as a caller-owned hand-off list does (thread_scheduler.c): link
             * the node into a scratch list, then re-initialise the list without popping.  Only for a task that is not
             * pending.  Nothing of the scheduler's state changes. */
            static struct aws_linked_list scratch;
            int tk = s_task(t[1]);
            if ((size_t)tk >= s_nt || s_tasks[tk].task.abi_extension.scheduled) {
                ++s_skipped;
            } else {
                aws_linked_list_init(&scratch);
                aws_linked_list_push_back(&scratch, &s_tasks[tk].task.node);
                aws_linked_list_init(&scratch);
            }
            s_report();
        } else if (!strcmp(t[0], "cancel_raw") && n == 2 && s_task(t[1]) >= 0) {
            /* aws_task_scheduler_cancel_task without the wrapper's "is pending" guard: the task may never have been
             * scheduled, have run already or have been cancelled already */
            int tk = s_task(t[1]);
            if ((size_t)tk >= s_nt) {
                ++s_skipped;
            } else {
                aws_task_scheduler_cancel_task(&s_sched, &s_tasks[tk].task);
            }
            s_report();
        } else if (!strcmp(t[0], "run_all") && n == 2) {
            uint64_t time;
            if (!s_time(t[1], &time)) {
                printf("bad-op\n");
                continue;
            }
            s_now = time;
            aws_task_scheduler_run_all(&s_sched, time);
            s_report();
        } else if (!strcmp(t[0], "has_tasks") && n == 1) {
            s_report();
        } else if (!strcmp(t[0], "cleanup") && n == 1) {
            if (aws_task_scheduler_has_tasks(&s_sched, NULL)) {
                s_now = UINT64_MAX;
            }
            aws_task_scheduler_clean_up(&s_sched);
            HC_CHECK(aws_task_scheduler_init(&s_sched, hc_allocator()) == AWS_OP_SUCCESS);
            s_report();
        } else if (!strcmp(t[0], "failmode") && n == 2 && (!strcmp(t[1], "0") || !strcmp(t[1], "1"))) {
            s_failmode = t[1][0] == '1';
            s_report();
        } else {
            printf("bad-op\n");
        }
    }
    s_reset();
    return 0;
}
