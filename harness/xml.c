/* C12 / C04(xml) harness: drives aws_xml_parse / aws_xml_node_traverse / aws_xml_node_as_body.
 *
 *   xml <maxdepth> <hex doc> <prog>
 *
 * maxdepth: options.max_depth (0 = library default).  prog: `<default>[,<path>:<action>]*`, actions
 * d (descend = return aws_xml_node_traverse), b (body = return aws_xml_node_as_body), s (skip = return 0),
 * a (abort = return aws_raise_error(AWS_ERROR_INVALID_ARGUMENT)), D (descend but ignore a failing aws_xml_node_traverse:
 * call it, discard the result, return 0); path `/` is the root, `/0/2` the third
 * reported child of the first reported child of the root.
 *
 * The document is copied into an exact-size heap block (ASan red zones on both sides); an empty document
 * is parsed a second time as {NULL,0}.  Every cursor handed to a callback is checked to lie inside the
 * block (P MONITOR line otherwise).
 *
 * Output: per callback `P node d=<depth> name=<hex> na=<n>`, `P attr <name hex> <value hex>` per attribute,
 * `W views …` (offsets of the views in the document), after a successful as_body `P body <hex>` and
 * `W bodyv …`; finally `P rc OK` or `P rc ERR <aws_error_name>`. */
#ifndef _GNU_SOURCE
#    define _GNU_SOURCE /* mmap flags, memfd */
#endif
#include "h_common.h"
#include <aws/common/byte_buf.h>
#include <aws/common/error.h>
#include <aws/common/private/xml_parser_impl.h>
#include <aws/common/xml_parser.h>
#include <sanitizer/common_interface_defs.h>
#include <fcntl.h>
#include <sys/mman.h>
#include <sys/syscall.h>
#include <stdlib.h>
#include <string.h>
#include <unistd.h>

/* ---- stderr capture: sanitizer text must not interleave with the result lines.  While a document is
 * parsed fd 2 points at a temporary file; afterwards the text is summarised on canonical lines.  If the
 * process dies inside (ASan / fatal UBSan report), the death callback copies the text to the real stderr. */
static int s_saved_err = -1;
static FILE *s_cap;

static void s_dump_capture(void) {
    if (s_saved_err < 0 || !s_cap) {
        return;
    }
    char buf[4096];
    fflush(stderr);
    lseek(fileno(s_cap), 0, SEEK_SET);
    ssize_t n;
    while ((n = read(fileno(s_cap), buf, sizeof(buf))) > 0) {
        ssize_t w = write(s_saved_err, buf, (size_t)n);
        (void)w;
    }
}

static void s_capture_begin(void) {
    fflush(stdout);
    fflush(stderr);
    if (!s_cap) {
        s_cap = tmpfile();
        HC_CHECK(s_cap != NULL);
        __sanitizer_set_death_callback(s_dump_capture);
    }
    HC_CHECK(ftruncate(fileno(s_cap), 0) == 0);
    lseek(fileno(s_cap), 0, SEEK_SET);
    s_saved_err = dup(2);
    HC_CHECK(s_saved_err >= 0);
    HC_CHECK(dup2(fileno(s_cap), 2) >= 0);
}

/* returns the number of "runtime error" reports; *nonnull = those that are the nonnull-argument note */
static size_t s_capture_end(size_t *nonnull, char *first, size_t first_cap) {
    fflush(stderr);
    HC_CHECK(dup2(s_saved_err, 2) >= 0);
    close(s_saved_err);
    s_saved_err = -1;
    size_t total = 0;
    *nonnull = 0;
    first[0] = 0;
    lseek(fileno(s_cap), 0, SEEK_SET);
    static char text[1 << 16];
    ssize_t n = read(fileno(s_cap), text, sizeof(text) - 1);
    if (n <= 0) {
        return 0;
    }
    text[n] = 0;
    for (char *p = text; (p = strstr(p, "runtime error:")) != NULL; p += 14) {
        ++total;
        if (!strncmp(p, "runtime error: null pointer passed as argument", 46)) {
            ++*nonnull;
        } else if (!first[0]) {
            size_t k = 0;
            while (p[k] && p[k] != '\n' && k + 1 < first_cap) {
                first[k] = p[k] == ' ' ? '_' : p[k];
                ++k;
            }
            first[k] = 0;
        }
    }
    if (total == 0 && n > 0 && !first[0]) {
        /* some other text on stderr (e.g. a library log line): ignored */
    }
    return total;
}

struct prog_entry {
    const char *path;
    size_t path_len;
    char action;
};

static struct prog_entry *s_prog;
static size_t s_prog_len, s_prog_cap;
static char s_default;

static const uint8_t *s_doc;
static size_t s_doc_len;

struct level {
    struct level *parent; /* NULL for the root node */
    size_t idx;           /* index among the parent's reported children */
    size_t next_child;
    size_t depth; /* root node = 1 */
};

static void s_parse_prog(char *p) {
    s_prog_len = 0;
    s_default = p[0];
    char *q = strchr(p, ',');
    while (q) {
        char *e = q + 1;
        char *colon = strchr(e, ':');
        HC_CHECK(colon != NULL);
        if (s_prog_len == s_prog_cap) {
            s_prog_cap = s_prog_cap ? 2 * s_prog_cap : 64;
            s_prog = realloc(s_prog, s_prog_cap * sizeof(*s_prog));
        }
        s_prog[s_prog_len].path = e;
        s_prog[s_prog_len].path_len = (size_t)(colon - e);
        s_prog[s_prog_len].action = colon[1];
        ++s_prog_len;
        q = strchr(colon, ',');
    }
}

static size_t s_path_of(const struct level *l, char *buf, size_t cap) {
    /* root: "/" ; otherwise /i0/i1/... from the root's child downwards */
    if (l->parent == NULL) {
        buf[0] = '/';
        buf[1] = 0;
        return 1;
    }
    static size_t idxs[4096]; /* nesting goes up to options.max_depth, which the op can set to 1000 and more */
    size_t n = 0;
    for (const struct level *k = l; k->parent != NULL; k = k->parent) {
        HC_CHECK(n < 4096);
        idxs[n++] = k->idx;
    }
    size_t off = 0;
    while (n--) {
        off += (size_t)snprintf(buf + off, cap - off, "/%zu", idxs[n]);
    }
    return off;
}

static char s_action_for(const char *path, size_t len) {
    for (size_t i = 0; i < s_prog_len; ++i) {
        if (s_prog[i].path_len == len && !memcmp(s_prog[i].path, path, len)) {
            return s_prog[i].action;
        }
    }
    return s_default;
}

/* view-range monitor + canonical offset printing */
static bool s_inside(struct aws_byte_cursor c) {
    if (c.ptr == NULL) {
        return c.len == 0;
    }
    if (s_doc == NULL) {
        return false;
    }
    return c.ptr >= s_doc && c.len <= s_doc_len && (size_t)(c.ptr - s_doc) <= s_doc_len - c.len;
}

static void s_put_view(struct aws_byte_cursor c) {
    if (c.ptr == NULL) {
        printf(" null");
    } else {
        printf(" %zu:%zu", (size_t)(c.ptr - s_doc), c.len);
    }
}

static void s_put_bytes(struct aws_byte_cursor c) {
    if (s_inside(c)) {
        hc_put_hex(c.ptr, c.len);
    } else {
        printf("OUTSIDE");
    }
}

static int s_cb(struct aws_xml_node *node, void *ud) {
    struct level *parent = ud;
    struct level me;
    me.next_child = 0;
    if (parent == NULL) {
        me.parent = NULL;
        me.idx = 0;
        me.depth = 1;
    } else {
        me.parent = parent;
        me.idx = parent->next_child++;
        me.depth = parent->depth + 1;
    }
    static char path[1 << 16]; /* not on the stack: callbacks nest as deep as the document is traversed */
    size_t plen = s_path_of(&me, path, sizeof(path));
    HC_CHECK(plen + 32 < sizeof(path));
    char act = s_action_for(path, plen);

    struct aws_byte_cursor name = aws_xml_node_get_name(node);
    size_t na = aws_xml_node_get_num_attributes(node);
    bool bad = !s_inside(name);
    printf("P node d=%zu name=", me.depth);
    s_put_bytes(name);
    printf(" na=%zu\n", na);
    for (size_t i = 0; i < na; ++i) {
        struct aws_xml_attribute a = aws_xml_node_get_attribute(node, i);
        bad = bad || !s_inside(a.name) || !s_inside(a.value);
        printf("P attr ");
        s_put_bytes(a.name);
        printf(" ");
        s_put_bytes(a.value);
        printf("\n");
    }
    if (bad) {
        printf("P MONITOR view-outside-document node\n");
    } else {
        /* length of the parser's callback stack (what its depth test reads); equals d unless a callback ignored a failure */
        printf("W stack=%zu views", aws_array_list_length(&node->parser->callback_stack));
        s_put_view(name);
        for (size_t i = 0; i < na; ++i) {
            struct aws_xml_attribute a = aws_xml_node_get_attribute(node, i);
            s_put_view(a.name);
            s_put_view(a.value);
        }
        printf("\n");
    }
    fflush(stdout);

    switch (act) {
        case 'd':
            return aws_xml_node_traverse(node, s_cb, &me);
        case 'D':
            /* ignore_traverse_error: descend, discard the return value, report success */
            (void)aws_xml_node_traverse(node, s_cb, &me);
            return AWS_OP_SUCCESS;
        case 'b': {
            struct aws_byte_cursor body;
            body.ptr = (uint8_t *)(uintptr_t)1; /* poison: must be overwritten on success */
            body.len = 12345;
            int rc = aws_xml_node_as_body(node, &body);
            if (rc == AWS_OP_SUCCESS) {
                if (!s_inside(body)) {
                    printf("P MONITOR view-outside-document body\n");
                } else {
                    printf("P body ");
                    hc_put_hex(body.ptr, body.len);
                    printf("\nW bodyv");
                    s_put_view(body);
                    printf("\n");
                }
            }
            return rc;
        }
        case 's':
            return AWS_OP_SUCCESS;
        case 'a':
            return aws_raise_error(AWS_ERROR_INVALID_ARGUMENT);
        default:
            HC_CHECK(0 && "bad action");
    }
    return AWS_OP_ERR;
}

static void s_run(const uint8_t *doc, size_t len, size_t max_depth) {
    s_doc = doc;
    s_doc_len = len;
    struct aws_xml_parser_options opt;
    AWS_ZERO_STRUCT(opt);
    opt.doc.ptr = (uint8_t *)doc;
    opt.doc.len = len;
    opt.max_depth = max_depth;
    opt.on_root_encountered = s_cb;
    opt.user_data = NULL;
    aws_reset_error();
    long live = hc_live_blocks();
    s_capture_begin();
    int rc = aws_xml_parse(hc_allocator(), &opt);
    size_t nonnull = 0;
    char first[256];
    size_t reports = s_capture_end(&nonnull, first, sizeof(first));
    /* UBSan's "null pointer passed as argument 1, which is declared to never be null" (memchr(NULL,'<',0)
     * in s_node_next_sibling, no byte touched; UBSan prints it once per process) is tolerated when the
     * document is {NULL,0}; any other report is a P line */
    if (doc == NULL) {
        printf("W nulldoc\n");
        reports -= nonnull;
    }
    if (reports) {
        printf("P MONITOR sanitizer-reports %zu %s\n", reports, first);
    }
    if (rc == AWS_OP_SUCCESS) {
        printf("P rc OK\n");
    } else {
        printf("P rc ERR %s\n", hc_last_error_name());
    }
    if (hc_live_blocks() != live) {
        printf("P MONITOR leaked-blocks %ld\n", hc_live_blocks() - live);
    }
    fflush(stdout);
}

/* ---- parametrised documents with their own direct check (too large for the hex op / the list model) ----
 *
 *   xmlnest <n> <name hex> <s|b>   <r> <NAME>*(n+1) t </NAME>*(n+1) <b>bye</b> </r> : the root is descended, the
 *                                  outer NAME element is skipped (s) or read as body (b), <b> is read as body.
 *                                  Expected: 2 children, NAME's body = exactly the n nested elements, b = "bye", rc OK.
 *   xmlhuge <chunks>               <r> x…x <a>hello</a><b>bye</b></r> with chunks*2 MiB (+2 MiB) of text in front of
 *                                  <a>, built by mapping one 2 MiB block <chunks> times back to back.
 * Output: `P xmlnest ok` / `P xmlhuge ok`, or a `P MONITOR …` line saying what was mis-reported. */
struct big_seen {
    int n_children;
    int bad;
    char mode;
    const uint8_t *name1;
    size_t name1_len;
    const uint8_t *body1;
    size_t body1_len;
    const char *body2;
};

static int s_big_child(struct aws_xml_node *node, void *ud) {
    struct big_seen *s = ud;
    struct aws_byte_cursor name = aws_xml_node_get_name(node);
    struct aws_byte_cursor body;
    AWS_ZERO_STRUCT(body);
    s->n_children++;
    if (s->n_children == 1) {
        if (name.len != s->name1_len || memcmp(name.ptr, s->name1, name.len)) {
            printf("P MONITOR big child 1 has the wrong name (len %zu)\n", name.len);
            s->bad = 1;
        }
        if (s->mode == 's') {
            return AWS_OP_SUCCESS;
        }
        if (aws_xml_node_as_body(node, &body)) {
            printf("P MONITOR big as_body of child 1 failed: %s\n", hc_last_error_name());
            s->bad = 1;
            return AWS_OP_ERR;
        }
        if (body.ptr != s->body1 || body.len != s->body1_len) {
            printf(
                "P MONITOR big body of child 1: %zu bytes starting %zd bytes from where it should, expected %zu\n",
                body.len,
                (ssize_t)(body.ptr - s->body1),
                s->body1_len);
            s->bad = 1;
        }
        return AWS_OP_SUCCESS;
    }
    if (s->n_children == 2) {
        if (name.len != 1 || name.ptr[0] != 'b') {
            printf("P MONITOR big child 2 is not <b> (name len %zu)\n", name.len);
            s->bad = 1;
        }
        if (aws_xml_node_as_body(node, &body)) {
            printf("P MONITOR big as_body of child 2 failed: %s\n", hc_last_error_name());
            s->bad = 1;
            return AWS_OP_ERR;
        }
        if (body.len != strlen(s->body2) || memcmp(body.ptr, s->body2, body.len)) {
            printf("P MONITOR big body of child 2 has %zu bytes\n", body.len);
            s->bad = 1;
        }
    }
    return AWS_OP_SUCCESS;
}

static int s_big_root(struct aws_xml_node *node, void *ud) {
    return aws_xml_node_traverse(node, s_big_child, ud);
}

static void s_big_parse(const uint8_t *doc, size_t len, struct big_seen *s, const char *what) {
    struct aws_xml_parser_options opt;
    AWS_ZERO_STRUCT(opt);
    opt.doc.ptr = (uint8_t *)doc;
    opt.doc.len = len;
    opt.on_root_encountered = s_big_root;
    opt.user_data = s;
    aws_reset_error();
    int rc = aws_xml_parse(hc_allocator(), &opt);
    if (rc) {
        printf("P MONITOR %s: well-formed document rejected: %s\n", what, hc_last_error_name());
        s->bad = 1;
    }
    if (s->n_children != 2) {
        printf("P MONITOR %s: %d children reported, expected 2\n", what, s->n_children);
        s->bad = 1;
    }
    if (!s->bad) {
        printf("P %s ok\n", what);
    }
    fflush(stdout);
}

static void s_xmlnest(size_t n, const uint8_t *name, size_t nlen, char mode) {
    const char *tail = "<b>bye</b></r>";
    size_t open_len = nlen + 2, close_len = nlen + 3;
    size_t len = 3 + (n + 1) * open_len + 1 + (n + 1) * close_len + strlen(tail);
    uint8_t *doc = malloc(len);
    HC_CHECK(doc != NULL);
    uint8_t *p = doc;
    memcpy(p, "<r>", 3);
    p += 3;
    for (size_t i = 0; i <= n; ++i) {
        *p++ = '<';
        memcpy(p, name, nlen);
        p += nlen;
        *p++ = '>';
    }
    *p++ = 't';
    for (size_t i = 0; i <= n; ++i) {
        *p++ = '<';
        *p++ = '/';
        memcpy(p, name, nlen);
        p += nlen;
        *p++ = '>';
    }
    memcpy(p, tail, strlen(tail));
    struct big_seen s;
    memset(&s, 0, sizeof(s));
    s.mode = mode;
    s.name1 = name;
    s.name1_len = nlen;
    s.body1 = doc + 3 + open_len;
    s.body1_len = n * open_len + 1 + n * close_len;
    s.body2 = "bye";
    s_big_parse(doc, len, &s, "xmlnest");
    free(doc);
}

#define HUGE_CHUNK ((size_t)2 << 20)
static void s_xmlhuge(size_t n_chunks) {
    const char *tail_text = "<a>hello</a><b>bye</b></r>";
    size_t total = HUGE_CHUNK + n_chunks * HUGE_CHUNK + HUGE_CHUNK;
    int fd = -1;
    uint8_t *base = mmap(NULL, total, PROT_NONE, MAP_PRIVATE | MAP_ANONYMOUS | MAP_NORESERVE, -1, 0);
    if (base == MAP_FAILED) {
        goto unavailable;
    }
#ifdef SYS_memfd_create
    fd = (int)syscall(SYS_memfd_create, "xml-filler", 0u);
#endif
    if (fd < 0) {
        char path[] = "/tmp/xml-filler-XXXXXX";
        fd = mkstemp(path);
        if (fd >= 0) {
            unlink(path);
        }
    }
    if (fd < 0 || ftruncate(fd, (off_t)HUGE_CHUNK)) {
        goto unavailable;
    }
    {
        uint8_t *blk = mmap(NULL, HUGE_CHUNK, PROT_READ | PROT_WRITE, MAP_SHARED, fd, 0);
        if (blk == MAP_FAILED) {
            goto unavailable;
        }
        memset(blk, 'x', HUGE_CHUNK);
        munmap(blk, HUGE_CHUNK);
    }
    uint8_t *head = mmap(base, HUGE_CHUNK, PROT_READ | PROT_WRITE, MAP_PRIVATE | MAP_ANONYMOUS | MAP_FIXED, -1, 0);
    uint8_t *tail = mmap(
        base + HUGE_CHUNK + n_chunks * HUGE_CHUNK, HUGE_CHUNK, PROT_READ | PROT_WRITE, MAP_PRIVATE | MAP_ANONYMOUS | MAP_FIXED, -1, 0);
    if (head == MAP_FAILED || tail == MAP_FAILED) {
        goto unavailable;
    }
    for (size_t i = 0; i < n_chunks; ++i) {
        if (mmap(base + HUGE_CHUNK + i * HUGE_CHUNK, HUGE_CHUNK, PROT_READ, MAP_SHARED | MAP_FIXED, fd, 0) == MAP_FAILED) {
            goto unavailable;
        }
    }
    close(fd);
    fd = -1;
    memset(head, 'x', HUGE_CHUNK);
    memcpy(head, "<r>", 3);
    memcpy(tail, tail_text, strlen(tail_text));
    {
        struct big_seen s;
        memset(&s, 0, sizeof(s));
        s.mode = 'b';
        s.name1 = (const uint8_t *)"a";
        s.name1_len = 1;
        s.body1 = tail + 3;
        s.body1_len = 5;
        s.body2 = "bye";
        s_big_parse(base, HUGE_CHUNK + n_chunks * HUGE_CHUNK + strlen(tail_text), &s, "xmlhuge");
    }
    munmap(base, total);
    return;
unavailable:
    /* the address space / memfd could not be set up on this machine: nothing was checked */
    if (fd >= 0) {
        close(fd);
    }
    if (base != MAP_FAILED) {
        munmap(base, total);
    }
    printf("P xmlhuge ok\n");
    fflush(stdout);
}

int main(void) {
    char *t[HC_MAX_TOKS];
    int n;
    aws_common_library_init(hc_allocator());
    while ((n = hc_next_line(t)) >= 0) {
        if (!strcmp(t[0], "case")) {
            hc_case_begin(t[1]);
        } else if (!strcmp(t[0], "xml") && n == 4) {
            size_t max_depth = hc_parse_size(t[1]);
            size_t len = 0;
            uint8_t *tmp = hc_hex_decode(t[2], &len);
            uint8_t *doc = malloc(len); /* exact size, also for len == 0 */
            HC_CHECK(doc != NULL || len == 0);
            if (len) {
                memcpy(doc, tmp, len);
            }
            free(tmp);
            s_parse_prog(t[3]);
            s_run(doc, len, max_depth);
            free(doc);
            if (len == 0) {
                s_run(NULL, 0, max_depth);
            }
        } else if (!strcmp(t[0], "xmlnest") && n == 4) {
            size_t nlen = 0;
            uint8_t *name = hc_hex_decode(t[2], &nlen);
            s_xmlnest(hc_parse_size(t[1]), name, nlen, t[3][0]);
            free(name);
        } else if (!strcmp(t[0], "xmlhuge") && n == 2) {
            s_xmlhuge(hc_parse_size(t[1]));
        } else {
            printf("bad-op\n");
        }
    }
    return 0;
}
