/* C03 harness: drives the small-block allocator (source/allocator_sba.c) through an op file.
 * posix_memalign/free are wrapped at link time (-Wl,--wrap) so that the pages the allocator obtains
 * from the OS are numbered in the order they are obtained and counted; chunk identity is printed as
 * (page ordinal, offset).  Every live block carries a per-block fill pattern over its whole
 * requested size which is re-verified after every op, together with pairwise disjointness of the
 * real address ranges and alignment.  `stress` runs real threads (supporting test). */
#include "h_common.h"
#include <aws/common/allocator.h>
#include <pthread.h>
#include <stdlib.h>
#include <string.h>
#include <unistd.h>
#include <signal.h>
#include <fcntl.h>
#include <sys/wait.h>

/* Two builds of this file: the plain one (op files, OS-scheduled stress) and, with -DSBA_SCHED, one linked with
 * harness/detsched.c where every pthread mutex call of the LIBRARY is a schedule point (scenario / explore ops).
 * The harness's own bookkeeping locks must not become schedule points there: they use the real functions. */
#ifdef SBA_SCHED
#    include "detsched.h"
int __real_pthread_mutex_lock(pthread_mutex_t *m);
int __real_pthread_mutex_unlock(pthread_mutex_t *m);
#    define HLOCK(m) __real_pthread_mutex_lock(m)
#    define HUNLOCK(m) __real_pthread_mutex_unlock(m)
#else
#    define HLOCK(m) pthread_mutex_lock(m)
#    define HUNLOCK(m) pthread_mutex_unlock(m)
#endif

static void s_progress(void); /* re-arms the wall-clock watchdog: the current long op is making progress */
#define HUGE_TOUCH_LIMIT ((size_t)1 << 20)
#define HUGE_BACKED_LIMIT ((size_t)1 << 41)

/* ------------------------------------------------------------------ page tracking (link-time wrap) */
int __real_posix_memalign(void **out, size_t align, size_t size);
void __real_free(void *p);

#define MAXPAGES 65536
static pthread_mutex_t s_pg_lock = PTHREAD_MUTEX_INITIALIZER;
static struct pg {
    uintptr_t addr;
    long ord;
    size_t cls; /* size class of the chunks handed out from it (0 = not yet seen) */
} s_pg[MAXPAGES];
static size_t s_pg_n;      /* entries in use */
static long s_pg_next;     /* next ordinal */
static long s_pg_total;    /* pages ever obtained since `new` */
static size_t s_page_size = 4096;
/* pages the allocator gave back and the OS has not handed out again: a second free of one of them is a double release */
static uintptr_t s_rel[MAXPAGES];
static size_t s_rel_n;
static long s_double_release;

/* BACKEND BALANCE.  While the recording parent is inside its backend (s_in_backend), every block the backend takes
 * from / gives back to the C library is counted: after each parent call the backend must hold exactly one C-library
 * block per parent block it has handed out (a parent realloc that forgets to free the old block shows up here). */
void *__real_malloc(size_t n);
void *__real_calloc(size_t a, size_t b);
void *__real_realloc(void *p, size_t n);
static __thread int s_in_backend;
static long s_backend_live;

void *__wrap_malloc(size_t n) {
    void *p = __real_malloc(n);
    if (s_in_backend && p) {
        __atomic_fetch_add(&s_backend_live, 1, __ATOMIC_SEQ_CST);
    }
    return p;
}

void *__wrap_calloc(size_t a, size_t b) {
    void *p = __real_calloc(a, b);
    if (s_in_backend && p) {
        __atomic_fetch_add(&s_backend_live, 1, __ATOMIC_SEQ_CST);
    }
    return p;
}

void *__wrap_realloc(void *q, size_t n) {
    void *p = __real_realloc(q, n);
    if (s_in_backend && p && !q) {
        __atomic_fetch_add(&s_backend_live, 1, __ATOMIC_SEQ_CST);
    }
    return p;
}

int __wrap_posix_memalign(void **out, size_t align, size_t size) {
#ifdef SBA_SCHED
    /* a schedule point INSIDE the bin operation (the page request of s_sba_alloc_from_bin): under the bin mutex nobody
     * else can enter the same bin here; an operation that runs outside its lock is interleaved at this point */
    if (align == size && align >= 1024 && ds_self_ordinal() >= 0) {
        ds_yield(1);
    }
#endif
    int rc = __real_posix_memalign(out, align, size);
    if (s_in_backend && rc == 0) {
        __atomic_fetch_add(&s_backend_live, 1, __ATOMIC_SEQ_CST);
    }
    if (rc == 0 && align == size && align >= 1024) {
        HLOCK(&s_pg_lock);
        for (size_t i = 0; i < s_rel_n; ++i) {
            if (s_rel[i] == (uintptr_t)*out) {
                s_rel[i] = s_rel[--s_rel_n];
                break;
            }
        }
        HC_CHECK(s_pg_n < MAXPAGES);
        s_pg[s_pg_n].addr = (uintptr_t)*out;
        s_pg[s_pg_n].ord = s_pg_next++;
        s_pg[s_pg_n].cls = 0;
        ++s_pg_n;
        ++s_pg_total;
        HUNLOCK(&s_pg_lock);
    }
    return rc;
}

void __wrap_free(void *p) {
#ifdef SBA_SCHED
    if (p && (((uintptr_t)p) & 4095) == 0 && s_pg_n && ds_self_ordinal() >= 0) {
        ds_yield(2); /* inside s_sba_free_to_bin: the page is about to go back to the OS */
    }
#endif
    if (s_in_backend && p) {
        __atomic_fetch_sub(&s_backend_live, 1, __ATOMIC_SEQ_CST);
    }
    if (p && (((uintptr_t)p) & 1023) == 0 && (s_pg_n || s_rel_n)) {
        bool found = false, twice = false;
        HLOCK(&s_pg_lock);
        for (size_t i = 0; i < s_pg_n; ++i) {
            if (s_pg[i].addr == (uintptr_t)p) {
                s_pg[i] = s_pg[--s_pg_n];
                found = true;
                if (s_rel_n < MAXPAGES) {
                    s_rel[s_rel_n++] = (uintptr_t)p;
                }
                break;
            }
        }
        for (size_t i = 0; !found && i < s_rel_n; ++i) {
            if (s_rel[i] == (uintptr_t)p) {
                twice = true;
                ++s_double_release;
            }
        }
        HUNLOCK(&s_pg_lock);
        if (twice) {
            return; /* reported through s_double_release; do not hand the page to free() a second time */
        }
    }
    __real_free(p);
}

/* page containing ptr: ordinal or -1; optionally records / returns the page's size class */
static long s_page_of(const void *ptr, size_t note_cls, size_t *cls_out, size_t *off_out) {
    uintptr_t base = ((uintptr_t)ptr) & ~(uintptr_t)(s_page_size - 1);
    long ord = -1;
    HLOCK(&s_pg_lock);
    for (size_t i = 0; i < s_pg_n; ++i) {
        if (s_pg[i].addr == base) {
            ord = s_pg[i].ord;
            if (note_cls && !s_pg[i].cls) {
                s_pg[i].cls = note_cls;
            }
            if (cls_out) {
                *cls_out = s_pg[i].cls;
            }
            break;
        }
    }
    HUNLOCK(&s_pg_lock);
    if (off_out) {
        *off_out = (size_t)((uintptr_t)ptr - base);
    }
    return ord;
}

static size_t s_class_of(size_t size) {
    size_t c = 32;
    while (c < size) {
        c <<= 1;
    }
    return c;
}

static int s_bin_index(size_t cls) {
    int i = 0;
    while ((32u << i) < cls) {
        ++i;
    }
    return i;
}

#define NBINS 16
/* pages held per bin (by the class recorded for each live page); returns 1 when every bin holds <= 1 */
static int s_quiescent(long *per_bin, int *nb) {
    int ok = 1, n = 5;
    memset(per_bin, 0, sizeof(long) * NBINS);
    HLOCK(&s_pg_lock);
    for (size_t i = 0; i < s_pg_n; ++i) {
        int b = s_pg[i].cls ? s_bin_index(s_pg[i].cls) : NBINS - 1;
        if (b >= NBINS) {
            b = NBINS - 1;
        }
        per_bin[b]++;
        if (b >= n) {
            n = b + 1;
        }
    }
    HUNLOCK(&s_pg_lock);
    for (int b = 0; b < n; ++b) {
        if (per_bin[b] > 1) {
            ok = 0;
        }
    }
    *nb = n;
    return ok;
}

/* ------------------------------------------------------------------ recording parent allocator
 * wraps hc_allocator() and remembers which blocks the parent has handed out and not got back, so that
 * every pointer the small-block allocator returns can be classified exactly: inside a page it
 * currently holds, a block of the parent, or neither (memory the allocator does not own — e.g. a
 * chunk of a page it already returned to the OS). */
#define MAXPARENT 16384
static pthread_mutex_t s_par_lock = PTHREAD_MUTEX_INITIALIZER;
static void *s_par[MAXPARENT];
static size_t s_par_n;

static void s_par_add(void *p) {
    if (!p) {
        return;
    }
    HLOCK(&s_par_lock);
    HC_CHECK(s_par_n < MAXPARENT);
    s_par[s_par_n++] = p;
    HUNLOCK(&s_par_lock);
}

static void s_par_del(void *p) {
    HLOCK(&s_par_lock);
    for (size_t i = 0; i < s_par_n; ++i) {
        if (s_par[i] == p) {
            s_par[i] = s_par[--s_par_n];
            break;
        }
    }
    HUNLOCK(&s_par_lock);
}

static bool s_par_has(const void *p) {
    bool r = false;
    HLOCK(&s_par_lock);
    for (size_t i = 0; i < s_par_n; ++i) {
        if (s_par[i] == p) {
            r = true;
            break;
        }
    }
    HUNLOCK(&s_par_lock);
    return r;
}

/* PARENT CONFIGURATIONS.  The recording parent forwards to a backend:
 *   hc        harness/h_common.c exact-size allocator (ASan red zones tight, realloc always moves)   [default]
 *   malloc    plain malloc/realloc/calloc/free (recycles freed memory; used by `history`)
 *   default   aws_default_allocator()
 *   aligned   aws_aligned_allocator()   (posix_memalign; its realloc keeps the block when shrinking)
 * and may withhold optional entry points, so that aws_mem_realloc / aws_mem_calloc emulate them:
 *   norealloc hc without mem_realloc;   nocalloc hc without mem_calloc;   bare hc with neither */
static bool s_par_raw;
static struct aws_allocator *s_backend;
static size_t s_par_base;
static long s_backend_base;

static void *s_par_acquire(struct aws_allocator *a, size_t size) {
    (void)a;
    ++s_in_backend;
    void *p = s_par_raw ? malloc(size) : s_backend->mem_acquire(s_backend, size);
    --s_in_backend;
    s_par_add(p);
    return p;
}

static void s_par_release(struct aws_allocator *a, void *p) {
    (void)a;
    if (p) {
        s_par_del(p);
        ++s_in_backend;
        if (s_par_raw) {
            free(p);
        } else {
            s_backend->mem_release(s_backend, p);
        }
        --s_in_backend;
    }
}

static void *s_par_realloc(struct aws_allocator *a, void *p, size_t oldsize, size_t newsize) {
    (void)a;
    ++s_in_backend;
    void *n = s_par_raw ? realloc(p, newsize) : s_backend->mem_realloc(s_backend, p, oldsize, newsize);
    --s_in_backend;
    if (n) {
        if (p) {
            s_par_del(p);
        }
        s_par_add(n);
    }
    return n;
}

static void *s_par_calloc(struct aws_allocator *a, size_t num, size_t size) {
    (void)a;
    ++s_in_backend;
    void *p = s_par_raw ? calloc(num, size) : s_backend->mem_calloc(s_backend, num, size);
    --s_in_backend;
    s_par_add(p);
    return p;
}

static struct aws_allocator s_parent = {
    .mem_acquire = s_par_acquire,
    .mem_release = s_par_release,
    .mem_realloc = s_par_realloc,
    .mem_calloc = s_par_calloc,
};
static struct aws_allocator s_parent_norealloc = {
    .mem_acquire = s_par_acquire,
    .mem_release = s_par_release,
    .mem_calloc = s_par_calloc,
};
static struct aws_allocator s_parent_nocalloc = {
    .mem_acquire = s_par_acquire,
    .mem_release = s_par_release,
    .mem_realloc = s_par_realloc,
};
static struct aws_allocator s_parent_bare = {
    .mem_acquire = s_par_acquire,
    .mem_release = s_par_release,
};

/* `fake` backend: serves any size without real memory, so that requests of 2^31+1 .. SIZE_MAX/2 bytes can be made.
 * <= 2^20: malloc; <= 2^41: an mmap(MAP_NORESERVE) region (only the touched prefix is ever committed);
 * larger: two mapped pages (the allocator reads the page base of a block on release), the rest never exists. */
#include <sys/mman.h>
#ifndef MAP_ANONYMOUS
#    define MAP_ANONYMOUS 0x20 /* Linux; hidden by the strict feature-test macros of this build */
#endif
#ifndef MAP_NORESERVE
#    define MAP_NORESERVE 0x4000
#endif
struct fake_rec {
    void *p;
    size_t size;
};
static struct fake_rec s_fake[4096];
static size_t s_fake_n;

static void *s_fake_acquire(struct aws_allocator *a, size_t size) {
    (void)a;
    void *p;
    if (size <= HUGE_TOUCH_LIMIT) {
        return malloc(size);
    }
    if (size <= HUGE_BACKED_LIMIT) {
        p = mmap(NULL, size, PROT_READ | PROT_WRITE, MAP_PRIVATE | MAP_ANONYMOUS | MAP_NORESERVE, -1, 0);
        HC_CHECK(p != MAP_FAILED);
    } else {
        /* not backed beyond two pages: s_sba_free reads the words at the page base of every pointer it is given, so
         * the start of the block must be readable; nothing else of it is ever touched */
        p = mmap(NULL, 8192, PROT_READ | PROT_WRITE, MAP_PRIVATE | MAP_ANONYMOUS, -1, 0);
        HC_CHECK(p != MAP_FAILED);
    }
    HC_CHECK(s_fake_n < 4096);
    s_fake[s_fake_n].p = p;
    s_fake[s_fake_n].size = size;
    ++s_fake_n;
    return p;
}

static size_t s_fake_size(void *p, bool remove) {
    for (size_t i = 0; i < s_fake_n; ++i) {
        if (s_fake[i].p == p) {
            size_t sz = s_fake[i].size;
            if (remove) {
                s_fake[i] = s_fake[--s_fake_n];
            }
            return sz;
        }
    }
    return 0;
}

static void s_fake_release(struct aws_allocator *a, void *p) {
    (void)a;
    size_t sz = s_fake_size(p, true);
    if (!sz) {
        free(p);
    } else {
        munmap(p, sz <= HUGE_BACKED_LIMIT ? sz : 8192);
    }
}

static void *s_fake_realloc(struct aws_allocator *a, void *p, size_t oldsize, size_t newsize) {
    void *n = s_fake_acquire(a, newsize);
    size_t keep = oldsize < newsize ? oldsize : newsize;
    if (p) {
        if (oldsize <= HUGE_BACKED_LIMIT && newsize <= HUGE_BACKED_LIMIT) {
            memcpy(n, p, keep < 4096 ? keep : 4096);
        }
        s_fake_release(a, p);
    }
    return n;
}

static void *s_fake_calloc(struct aws_allocator *a, size_t num, size_t size) {
    void *p = s_fake_acquire(a, num * size);
    if (num * size <= HUGE_TOUCH_LIMIT) {
        memset(p, 0, num * size);
    }
    return p;
}

static struct aws_allocator s_fake_alloc = {
    .mem_acquire = s_fake_acquire,
    .mem_release = s_fake_release,
    .mem_realloc = s_fake_realloc,
    .mem_calloc = s_fake_calloc,
};

static const char *s_parent_names[] = {"hc", "malloc", "default", "aligned", "norealloc", "nocalloc", "bare", "fake", NULL};

static int s_parent_kind(const char *name) {
    for (int i = 0; s_parent_names[i]; ++i) {
        if (!strcmp(name, s_parent_names[i])) {
            return i;
        }
    }
    return -1;
}

/* ------------------------------------------------------------------ blocks */
static uint8_t s_pat(size_t k, size_t i) {
    return (uint8_t)((k * 37 + i * 11 + 5) % 251 + 1);
}

struct blk {
    char name[24];
    uint8_t *ptr;
    size_t size;
    size_t k;
    size_t cls; /* class of the bin serving it, 0 = parent */
};
#define MAXBLK 4096
static struct blk s_blk[MAXBLK];
static size_t s_nblk;
static struct aws_allocator *s_sba;
static size_t s_hdr;

static struct blk *s_find(const char *name) {
    for (size_t i = 0; i < s_nblk; ++i) {
        if (!strcmp(s_blk[i].name, name)) {
            return &s_blk[i];
        }
    }
    return NULL;
}

/* HUGE requests (served by the `fake` parent without real memory): only a prefix of the block is ever touched.
 *   size <= 2^20           the whole block
 *   2^20 < size <= 2^41    the first 256 bytes (the fake parent maps such blocks MAP_NORESERVE)
 *   size > 2^41            nothing: the fake parent hands out an address it never backs */
static size_t s_touch_of(size_t size) {
    return size <= HUGE_TOUCH_LIMIT ? size : size <= HUGE_BACKED_LIMIT ? 256 : 0;
}

static size_t s_span_of(size_t size) { /* length used in overlap tests: no pointer wrap-around */
    return size <= HUGE_BACKED_LIMIT ? size : 8192;
}

static void s_fill(struct blk *b) {
    size_t n = s_touch_of(b->size);
    for (size_t i = 0; i < n; ++i) {
        b->ptr[i] = s_pat(b->k, i);
    }
}

static int s_intact(const struct blk *b) {
    size_t n = s_touch_of(b->size);
    for (size_t i = 0; i < n; ++i) {
        if (b->ptr[i] != s_pat(b->k, i)) {
            return 0;
        }
    }
    return 1;
}

/* identity line; records the class of the serving bin */
static void s_identify(struct blk *b, size_t alloc_size, bool same_ptr) {
    size_t off = 0, cls = 0;
    long ord = s_page_of(b->ptr, alloc_size <= 512 ? s_class_of(alloc_size) : 0, &cls, &off);
    if (ord >= 0) {
        printf("W %s page=%ld off=%zu\n", b->name, ord, off);
        if (!same_ptr) {
            b->cls = cls;
        }
    } else {
        /* not in a page the allocator holds: it must be a block of the parent */
        printf("W %s %s\n", b->name, s_par_has(b->ptr) ? "big" : "stray");
        b->cls = 0;
    }
}

static void s_checks(const struct blk *bl, size_t n, int *disjoint, int *align, int *intact, int *owned) {
    *disjoint = *align = *intact = *owned = 1;
    for (size_t i = 0; i < n; ++i) {
        const struct blk *a = &bl[i];
        /* the block lies in a page the allocator currently holds, or is a live block of the parent */
        if (s_page_of(a->ptr, 0, NULL, NULL) < 0 && !s_par_has(a->ptr)) {
            *owned = 0;
        }
        if (((uintptr_t)a->ptr) % 16) {
            *align = 0;
        }
        if (!s_intact(a)) {
            *intact = 0;
        }
        if (a->cls) {
            /* inside its page, beyond the header */
            size_t off = 0;
            long ord = s_page_of(a->ptr, 0, NULL, &off);
            if (ord < 0 || off < s_hdr || a->size > s_page_size || off + a->size > s_page_size) {
                *disjoint = 0;
            }
        }
        for (size_t j = i + 1; j < n; ++j) {
            const struct blk *b = &bl[j];
            if (a->ptr < b->ptr + s_span_of(b->size) && b->ptr < a->ptr + s_span_of(a->size)) {
                *disjoint = 0;
            }
        }
    }
}

static void s_status(void) {
    int d, a, in, ow;
    s_checks(s_blk, s_nblk, &d, &a, &in, &ow);
    printf("P ok disjoint=%d align=%d intact=%d owned=%d active=%zu\n", d, a, in, ow, aws_small_block_allocator_bytes_active(s_sba));
    printf("W reserved=%zu\n", aws_small_block_allocator_bytes_reserved(s_sba));
    if (s_nblk == 0) {
        long pb[NBINS];
        int nb;
        int ok = s_quiescent(pb, &nb);
        printf("P quiescent ok=%d\n", ok);
        printf("W qbins=");
        for (int b = 0; b < nb; ++b) {
            printf("%s%ld", b ? "," : "", pb[b]);
        }
        printf("\n");
    }
}

static void s_new(bool mt, int parent_kind) {
    HLOCK(&s_pg_lock);
    s_pg_next = 0;
    s_pg_total = 0;
    s_rel_n = 0;
    s_double_release = 0;
    HUNLOCK(&s_pg_lock);
    s_par_raw = parent_kind == 1;
    s_backend = parent_kind == 2   ? aws_default_allocator()
                : parent_kind == 3 ? aws_aligned_allocator()
                : parent_kind == 7 ? &s_fake_alloc
                                   : hc_allocator();
    s_par_base = s_par_n;
    s_backend_base = s_backend_live;
    struct aws_allocator *par = parent_kind == 4   ? &s_parent_norealloc
                                : parent_kind == 5 ? &s_parent_nocalloc
                                : parent_kind == 6 ? &s_parent_bare
                                                   : &s_parent;
    s_sba = aws_small_block_allocator_new(par, mt);
    HC_CHECK(s_sba);
    s_page_size = aws_small_block_allocator_page_size(s_sba);
    s_hdr = s_page_size - aws_small_block_allocator_page_size_available(s_sba);
}

static void s_reset(void) {
    if (s_sba) {
        for (size_t i = 0; i < s_nblk; ++i) {
            aws_mem_release(s_sba, s_blk[i].ptr);
        }
        aws_small_block_allocator_destroy(s_sba);
        s_sba = NULL;
    }
    s_nblk = 0;
}

static size_t s_block_no(const char *name, bool *ok) {
    *ok = name[0] == 'p' && name[1] >= '0' && name[1] <= '9' && strlen(name) < 20;
    return *ok ? (size_t)strtoull(name + 1, NULL, 10) : 0;
}

/* ------------------------------------------------------------------ threaded stress (supporting test) */
struct tctx {
    int tid;
    uint64_t rng;
    long ops;
    struct blk blk[64];
    size_t n;
    long fail_pattern, fail_kept, fail_zero, n_alloc, n_free, n_realloc;
    size_t serial;
};

static uint64_t s_next(uint64_t *s) {
    uint64_t x = *s;
    x ^= x << 13;
    x ^= x >> 7;
    x ^= x << 17;
    return *s = x;
}

static const size_t s_sizes[] = {1, 8, 16, 31, 32, 33, 63, 64, 65, 127, 128, 129, 255, 256, 257, 511, 512, 513, 4000};

static size_t s_pick_size(uint64_t *rng) {
    uint64_t r = s_next(rng);
    if (r % 10 < 7) {
        return s_sizes[(r >> 8) % (sizeof(s_sizes) / sizeof(s_sizes[0]))];
    }
    return 1 + (size_t)((r >> 8) % 700);
}

static void s_set_cls(struct blk *b, size_t alloc_size) {
    size_t cls = 0;
    long ord = s_page_of(b->ptr, alloc_size <= 512 ? s_class_of(alloc_size) : 0, &cls, NULL);
    b->cls = ord >= 0 ? cls : 0;
}

static void *s_worker(void *arg) {
    struct tctx *c = arg;
    for (long op = 0; op < c->ops; ++op) {
        uint64_t r = s_next(&c->rng) % 100;
        if (c->n < 64 && (r < 40 || c->n == 0)) {
            struct blk *b = &c->blk[c->n];
            b->size = s_pick_size(&c->rng);
            b->k = (size_t)c->tid * 100003u + c->serial++;
            if (r < 8) {
                size_t num = 1 + s_next(&c->rng) % 4;
                b->size = num * (1 + b->size / num);
                b->ptr = aws_mem_calloc(s_sba, num, b->size / num);
                for (size_t i = 0; i < b->size; ++i) {
                    if (b->ptr[i]) {
                        c->fail_zero++;
                        break;
                    }
                }
            } else {
                b->ptr = aws_mem_acquire(s_sba, b->size);
            }
            s_set_cls(b, b->size);
            s_fill(b);
            c->n++;
            c->n_alloc++;
        } else if (r < 60) {
            struct blk *b = &c->blk[s_next(&c->rng) % c->n];
            size_t nsz = s_pick_size(&c->rng);
            size_t keep = nsz < b->size ? nsz : b->size;
            void *p = b->ptr;
            uint8_t *old = b->ptr;
            aws_mem_realloc(s_sba, &p, b->size, nsz);
            b->ptr = p;
            for (size_t i = 0; i < keep; ++i) {
                if (b->ptr[i] != s_pat(b->k, i)) {
                    c->fail_kept++;
                    break;
                }
            }
            if (b->ptr != old) {
                s_set_cls(b, nsz);
            }
            b->size = nsz;
            s_fill(b);
            c->n_realloc++;
        } else {
            size_t idx = s_next(&c->rng) % c->n;
            struct blk *b = &c->blk[idx];
            if (!s_intact(b)) {
                c->fail_pattern++;
            }
            aws_mem_release(s_sba, b->ptr);
            c->blk[idx] = c->blk[--c->n];
            c->n_free++;
        }
        if (c->n) {
            if (!s_intact(&c->blk[s_next(&c->rng) % c->n])) {
                c->fail_pattern++;
            }
        }
    }
    return NULL;
}

static void s_stress(int nthreads, long ops, uint64_t seed) {
    static struct tctx ctx[8];
    static struct blk all[8 * 64];
    pthread_t th[8];
    memset(ctx, 0, sizeof(ctx));
    for (int t = 0; t < nthreads; ++t) {
        ctx[t].tid = t + 1;
        ctx[t].rng = seed * 0x9E3779B97F4A7C15ull + (uint64_t)(t + 1) * 0xD1B54A32D192ED03ull + 1;
        ctx[t].ops = ops;
        HC_CHECK(pthread_create(&th[t], NULL, s_worker, &ctx[t]) == 0);
    }
    long fp = 0, fk = 0, fz = 0, na = 0, nf = 0, nr = 0;
    size_t n = 0, expect_active = 0;
    for (int t = 0; t < nthreads; ++t) {
        pthread_join(th[t], NULL);
        fp += ctx[t].fail_pattern;
        fk += ctx[t].fail_kept;
        fz += ctx[t].fail_zero;
        na += ctx[t].n_alloc;
        nf += ctx[t].n_free;
        nr += ctx[t].n_realloc;
        for (size_t i = 0; i < ctx[t].n; ++i) {
            all[n++] = ctx[t].blk[i];
            expect_active += ctx[t].blk[i].cls;
        }
    }
    int d, a, in, ow;
    s_checks(all, n, &d, &a, &in, &ow);
    size_t active = aws_small_block_allocator_bytes_active(s_sba);
    long pages_peak = s_pg_total;
    for (size_t i = 0; i < n; ++i) {
        aws_mem_release(s_sba, all[i].ptr);
    }
    size_t active_end = aws_small_block_allocator_bytes_active(s_sba);
    long pb[NBINS];
    int nb;
    int q = s_quiescent(pb, &nb);
    int ok = d && a && in && ow && fp == 0 && fk == 0 && fz == 0 && active == expect_active && active_end == 0 && q;
    printf("P stress threads=%d ok=%d disjoint=%d align=%d intact=%d owned=%d pattern_failures=%ld kept_failures=%ld zero_failures=%ld "
           "active=%zu expected_active=%zu active_after_release=%zu quiescent=%d\n",
           nthreads, ok, d, a, in, ow, fp, fk, fz, active, expect_active, active_end, q);
    printf("H stress allocs=%ld frees=%ld reallocs=%ld live_at_join=%zu pages_obtained=%ld pages_held_after=%zu\n", na, nf, nr, n,
           pages_peak, s_pg_n);
}

/* ------------------------------------------------------------------ long random history (plain -O2 stage)
 * sizes 1..700 (bins and parent mixed), alternating grow / shrink phases so that pages drain and their memory
 * goes back to malloc, which may later place a parent block on it.  Monitors: a new block overlaps no live block;
 * a request <= 512 is a chunk boundary of its class inside a page the allocator holds, a larger one is a live
 * block of the parent; patterns intact at release; bytes_active = sum of the classes of the live small blocks. */
struct hblk {
    uint8_t *p;
    size_t n;
    size_t cls;
    uint8_t pat;
};

static void s_history(long steps, uint64_t seed, size_t maxlive, long phase) {
    struct hblk *b = calloc(maxlive ? maxlive : 1, sizeof(*b));
    size_t live = 0, live_max = 0;
    char what[320] = "";
    uint64_t rng = seed * 0x9E3779B97F4A7C15ull + 0x1234567ull;
    long step = 0, n_big = 0, n_small = 0;
    for (; step < steps && !what[0]; ++step) {
        if ((step & 1023) == 0) {
            s_progress();
        }
        unsigned grow = ((step / phase) % 2 == 0) ? 70 : 30;
        if (live < maxlive && (live == 0 || s_next(&rng) % 100 < grow)) {
            size_t n = 1 + (size_t)(s_next(&rng) % 700);
            uint8_t *p = aws_mem_acquire(s_sba, n);
            uint8_t pat = (uint8_t)(s_next(&rng) | 1);
            size_t off = 0, pcls = 0, cls = 0;
            long ord = s_page_of(p, n <= 512 ? s_class_of(n) : 0, &pcls, &off);
            if (n <= 512) {
                cls = s_class_of(n);
                ++n_small;
                if (ord < 0) {
                    snprintf(what, sizeof(what), "acquire(%zu) returned %s instead of a chunk of a page the allocator holds", n,
                             s_par_has(p) ? "a block the parent still counts as handed out" : "a pointer into memory it does not own");
                } else if (pcls != cls || off < s_hdr || (off - s_hdr) % cls || off + cls > s_page_size) {
                    snprintf(what, sizeof(what), "acquire(%zu) returned page offset %zu of a class-%zu page: not a chunk boundary of class %zu",
                             n, off, pcls, cls);
                }
            } else {
                ++n_big;
                if (ord >= 0 || !s_par_has(p)) {
                    snprintf(what, sizeof(what), "acquire(%zu) returned a pointer that is not a live block of the parent", n);
                }
            }
            for (size_t i = 0; i < live && !what[0]; ++i) {
                if (p < b[i].p + b[i].n && b[i].p < p + n) {
                    snprintf(what, sizeof(what), "new block of %zu bytes overlaps a live block of %zu bytes (offset %ld)", n, b[i].n,
                             (long)(p - b[i].p));
                }
            }
            if (what[0]) {
                break;
            }
            memset(p, pat, n);
            b[live].p = p;
            b[live].n = n;
            b[live].cls = cls;
            b[live].pat = pat;
            ++live;
            if (live > live_max) {
                live_max = live;
            }
        } else {
            size_t i = (size_t)(s_next(&rng) % live);
            for (size_t k = 0; k < b[i].n; ++k) {
                if (b[i].p[k] != b[i].pat) {
                    snprintf(what, sizeof(what), "live block of %zu bytes corrupted at byte %zu", b[i].n, k);
                    break;
                }
            }
            if (what[0]) {
                break;
            }
            aws_mem_release(s_sba, b[i].p);
            b[i] = b[--live];
        }
        if (step % 97 == 0) {
            size_t exp = 0;
            for (size_t i = 0; i < live; ++i) {
                exp += b[i].cls;
            }
            size_t act = aws_small_block_allocator_bytes_active(s_sba);
            if (act != exp) {
                snprintf(what, sizeof(what), "bytes_active=%zu but the live small blocks' size classes sum to %zu", act, exp);
            }
        }
    }
    int quiescent = 1;
    size_t active_end = 0;
    if (!what[0]) {
        for (size_t i = 0; i < live; ++i) {
            for (size_t k = 0; k < b[i].n; ++k) {
                if (b[i].p[k] != b[i].pat) {
                    snprintf(what, sizeof(what), "live block of %zu bytes corrupted at byte %zu (final check)", b[i].n, k);
                    break;
                }
            }
        }
    }
    if (!what[0]) {
        for (size_t i = 0; i < live; ++i) {
            aws_mem_release(s_sba, b[i].p);
        }
        live = 0;
        active_end = aws_small_block_allocator_bytes_active(s_sba);
        long pb[NBINS];
        int nb;
        quiescent = s_quiescent(pb, &nb);
        if (active_end != 0) {
            snprintf(what, sizeof(what), "everything released but bytes_active=%zu", active_end);
        } else if (!quiescent) {
            snprintf(what, sizeof(what), "everything released but a size class still holds more than one page");
        } else if ((long)s_par_n - (long)s_par_base > 11) {
            /* the allocator's own structure + 2 lists per bin are all it may still hold from the parent */
            snprintf(what, sizeof(what), "everything released but the parent still counts %ld blocks as handed out",
                     (long)s_par_n - (long)s_par_base);
        }
    }
    printf("P history seed=%llu steps=%ld ok=%d\n", (unsigned long long)seed, step, what[0] ? 0 : 1);
    if (what[0]) {
        printf("P MONITOR history step=%ld %s\n", step, what);
    }
    printf("H history small=%ld big=%ld live_max=%zu pages_obtained=%ld double_release=%ld\n", n_small, n_big, live_max, s_pg_total,
           s_double_release);
    free(b);
    if (what[0]) {
        /* the allocator's state is not to be trusted any more */
        fflush(stdout);
        _exit(0);
    }
}

#ifdef SBA_SCHED
/* ------------------------------------------------------------------ scripted threads under detsched
 * scenario <size> <pre> <T>   main pre-acquires <pre> blocks of <size> bytes; T worker threads
 * thread <give> tok...        next worker: receives <give> of the pre-acquired blocks (oldest first); program tokens:
 *                             a = acquire <size>, rf / rl = release first / last owned, ra / rz = release all fifo / lifo
 * run seed <s> | run explicit <csv> | run choices <csv>      one schedule
 * explore <bound> <maxruns> <seed>   baseline (no preemption) + every single preemption of it (+ sampled second ones)
 * Every run uses a fresh multi-threaded allocator.  Verdict after join: patterns intact, live blocks disjoint/owned,
 * then everything is released: bytes_active = 0, <= 1 page per class, no page released twice, destroy returns all. */
#    define SC_MAXT 4
#    define SC_MAXPROG 64
#    define SC_MAXB 400
struct sc_thread {
    int give;
    int nprog;
    char prog[SC_MAXPROG][4];
    struct blk own[SC_MAXB];
    size_t nown;
    long bad_pattern;
    size_t serial;
    /* `m`: this thread reads bytes_active while the others run; lo/hi = range of the harness's own live-byte account
     * during the call (every bin is read under its lock, so the value must lie in that range) */
    bool mon_active;
    size_t mon_lo, mon_hi;
    long bad_metric;
};
static size_t s_sc_live;        /* sum of the size classes of the live small blocks, kept by the harness */
static char s_sc_metric_msg[200];
static struct {
    size_t size;
    int pre;
    int nthreads, declared;
    struct sc_thread th[SC_MAXT];
} s_sc;

struct sc_verdict {
    int ok, rc, diverged;
    char what[256];
    size_t nsched;
    int sched[4096];
    size_t nevents;
    unsigned char ev_kind[4096];
};

static long s_sc_ops; /* bin operations performed by the workers of the current run */

static void s_sc_account(long delta) {
    s_sc_live = (size_t)((long)s_sc_live + delta);
    for (int i = 0; i < s_sc.nthreads; ++i) {
        struct sc_thread *m = &s_sc.th[i];
        if (m->mon_active) {
            if (s_sc_live < m->mon_lo) {
                m->mon_lo = s_sc_live;
            }
            if (s_sc_live > m->mon_hi) {
                m->mon_hi = s_sc_live;
            }
        }
    }
}

static void s_sc_release(struct sc_thread *th, size_t idx) {
    struct blk *b = &th->own[idx];
    ++s_sc_ops;
    if (!s_intact(b)) {
        th->bad_pattern++;
    }
    long cls = (long)b->cls;
    aws_mem_release(s_sba, b->ptr);
    s_sc_account(-cls); /* same scheduler step as the unlock of the bin */
    memmove(b, b + 1, (th->nown - idx - 1) * sizeof(*b));
    th->nown--;
}

static void *s_sc_worker(void *arg) {
    struct sc_thread *th = arg;
    int tid = (int)(th - s_sc.th) + 1;
    for (int i = 0; i < th->nprog; ++i) {
        const char *tk = th->prog[i];
        if (!strcmp(tk, "a")) {
            if (th->nown < SC_MAXB) {
                struct blk *b = &th->own[th->nown++];
                b->size = s_sc.size;
                b->k = (size_t)tid * 7919u + th->serial++;
                ++s_sc_ops;
                b->ptr = aws_mem_acquire(s_sba, b->size);
                s_set_cls(b, b->size);
                s_sc_account((long)b->cls);
                s_fill(b);
            }
        } else if (!strcmp(tk, "m")) {
            th->mon_lo = th->mon_hi = s_sc_live;
            th->mon_active = true;
            size_t v = aws_small_block_allocator_bytes_active(s_sba);
            th->mon_active = false;
            if (v < th->mon_lo || v > th->mon_hi) {
                if (!th->bad_metric++) {
                    snprintf(s_sc_metric_msg, sizeof(s_sc_metric_msg),
                             "bytes_active read by a third thread while others were inside the bins returned %zu; the live small "
                             "blocks' size classes summed to between %zu and %zu during the call",
                             v, th->mon_lo, th->mon_hi);
                }
            }
        } else if (!strcmp(tk, "rf") && th->nown) {
            s_sc_release(th, 0);
        } else if (!strcmp(tk, "rl") && th->nown) {
            s_sc_release(th, th->nown - 1);
        } else if (!strcmp(tk, "ra")) {
            while (th->nown) {
                s_sc_release(th, 0);
            }
        } else if (!strcmp(tk, "rz")) {
            while (th->nown) {
                s_sc_release(th, th->nown - 1);
            }
        }
    }
    return NULL;
}

static size_t s_sc_active_at_join;

static void s_sc_main(void *arg) {
    (void)arg;
    pthread_t th[SC_MAXT];
    for (int i = 0; i < s_sc.nthreads; ++i) {
        HC_CHECK(pthread_create(&th[i], NULL, s_sc_worker, &s_sc.th[i]) == 0);
    }
    for (int i = 0; i < s_sc.nthreads; ++i) {
        pthread_join(th[i], NULL);
    }
    /* the metric is read INSIDE the scheduled run, twice: a bin mutex it leaves locked dead-locks the second read,
     * which the scheduler reports at once instead of the process hanging */
    s_sc_active_at_join = aws_small_block_allocator_bytes_active(s_sba);
    (void)aws_small_block_allocator_bytes_active(s_sba);
}

static void s_sc_run(const struct ds_config *cfg, struct sc_verdict *v) {
    static struct blk all[SC_MAXT * SC_MAXB + SC_MAXB];
    memset(v, 0, sizeof(*v));
    s_progress(); /* one schedule = one unit of progress of `explore` / `run` */
    s_new(true, 0);
    /* main pre-acquires and hands the blocks out */
    struct blk mainb[SC_MAXB];
    size_t nmain = 0;
    for (int i = 0; i < s_sc.pre && i < SC_MAXB; ++i) {
        struct blk *b = &mainb[nmain++];
        b->size = s_sc.size;
        b->k = 100000u + (size_t)i;
        b->ptr = aws_mem_acquire(s_sba, b->size);
        s_set_cls(b, b->size);
        s_fill(b);
    }
    size_t next = 0;
    s_sc_live = 0;
    s_sc_metric_msg[0] = 0;
    for (size_t k = 0; k < nmain; ++k) {
        s_sc_live += mainb[k].cls;
    }
    for (int i = 0; i < s_sc.nthreads; ++i) {
        struct sc_thread *th = &s_sc.th[i];
        th->nown = 0;
        th->bad_pattern = 0;
        th->serial = 0;
        th->mon_active = false;
        th->bad_metric = 0;
        for (int g = 0; g < th->give && next < nmain; ++g) {
            th->own[th->nown++] = mainb[next++];
        }
    }
    ds_init(cfg);
    s_sc_ops = 0;
    v->rc = ds_run(s_sc_main, NULL);
    long n_locks = 0;
    if (getenv("SBA_DUMP_EVENTS")) {
        ds_dump_events(stdout);
    }
    for (size_t i = 0; i < ds_event_count(); ++i) {
        if (ds_event_at(i)->kind == DS_LOCK) {
            ++n_locks;
        }
    }
    v->diverged = ds_diverged();
    const int *lst = NULL;
    v->nsched = ds_schedule(&lst);
    if (v->nsched > 4096) {
        v->nsched = 4096;
    }
    memcpy(v->sched, lst, v->nsched * sizeof(int));
    v->nevents = ds_event_count() < 4096 ? ds_event_count() : 4096;
    for (size_t i = 0; i < v->nevents; ++i) {
        v->ev_kind[i] = (unsigned char)ds_event_at(i)->kind;
    }
    if (v->rc != 0) {
        char blocked[160] = "";
        ds_describe_blocked(blocked, sizeof(blocked));
        snprintf(v->what, sizeof(v->what), "%s (%s)", v->rc == 1 ? "deadlock" : "livelock", blocked);
        return; /* library state is garbage: the caller reports and ends the process */
    }
    size_t n = 0;
    long badp = 0;
    for (int i = 0; i < s_sc.nthreads; ++i) {
        badp += s_sc.th[i].bad_pattern;
        for (size_t k = 0; k < s_sc.th[i].nown; ++k) {
            all[n++] = s_sc.th[i].own[k];
        }
    }
    for (size_t k = next; k < nmain; ++k) {
        all[n++] = mainb[k];
    }
    int d, a, in, ow;
    s_checks(all, n, &d, &a, &in, &ow);
    size_t exp = 0;
    for (size_t k = 0; k < n; ++k) {
        exp += all[k].cls;
    }
    size_t act = s_sc_active_at_join;
    for (size_t k = 0; k < n; ++k) {
        aws_mem_release(s_sba, all[k].ptr);
    }
    size_t act_end = aws_small_block_allocator_bytes_active(s_sba);
    size_t reserved = aws_small_block_allocator_bytes_reserved(s_sba);
    long pb[NBINS];
    int nb;
    int q = s_quiescent(pb, &nb);
    long dbl = s_double_release;
    aws_small_block_allocator_destroy(s_sba);
    s_sba = NULL;
    long pages_left = (long)s_pg_n, parent_left = (long)s_par_n - (long)s_par_base;
    int misuse = ds_misuse_count();
    if (s_sc.size <= 512 && n_locks < s_sc_ops) {
        /* synchronisation skeleton: every bin operation of a multi-threaded allocator runs under the bin mutex */
        snprintf(v->what, sizeof(v->what), "multi-threaded allocator performed %ld bin operations but took a mutex only %ld times",
                 s_sc_ops, n_locks);
    } else if (s_sc_metric_msg[0]) {
        snprintf(v->what, sizeof(v->what), "%s", s_sc_metric_msg);
    } else if (badp || !in) {
        snprintf(v->what, sizeof(v->what), "fill pattern of a live block destroyed (%ld at release, intact=%d)", badp, in);
    } else if (!d || !ow || !a) {
        snprintf(v->what, sizeof(v->what), "live blocks at join: disjoint=%d owned=%d align=%d", d, ow, a);
    } else if (act != exp) {
        snprintf(v->what, sizeof(v->what), "at join bytes_active=%zu but the live small blocks' size classes sum to %zu", act, exp);
    } else if (act_end != 0) {
        snprintf(v->what, sizeof(v->what), "everything released but bytes_active=%zu", act_end);
    } else if (!q) {
        snprintf(v->what, sizeof(v->what), "everything released but a size class still holds more than one page (bytes_reserved=%zu)",
                 reserved);
    } else if (dbl) {
        snprintf(v->what, sizeof(v->what), "a page was handed to free() twice");
    } else if (pages_left || parent_left) {
        snprintf(v->what, sizeof(v->what), "destroy left pages=%ld parent blocks=%ld", pages_left, parent_left);
    } else if (misuse) {
        snprintf(v->what, sizeof(v->what), "mutex misuse reported by the scheduler (%d)", misuse);
    }
    v->ok = v->what[0] == 0;
}

static void s_sc_print_sched(const struct sc_verdict *v) {
    printf("W schedule ");
    for (size_t i = 0; i < v->nsched; ++i) {
        printf("%s%d", i ? "," : "", v->sched[i]);
    }
    printf("\n");
}

static size_t s_parse_csv(char *s, int *out, size_t cap) {
    size_t n = 0;
    for (char *p = strtok(s, ","); p && n < cap; p = strtok(NULL, ",")) {
        out[n++] = atoi(p);
    }
    return n;
}

static void s_sc_report(const struct sc_verdict *v, const char *how) {
    printf("P sched %s ok=%d steps=%zu\n", how, v->ok, v->nsched);
    if (!v->ok) {
        printf("P MONITOR sched %s\n", v->what);
        s_sc_print_sched(v);
    }
    if (v->rc != 0) {
        fflush(stdout);
        _exit(0);
    }
}

static void s_sc_explore(int bound, long maxruns, uint64_t seed) {
    static struct sc_verdict base, v, v2;
    static int list[4200];
    struct ds_config cfg = {.mode = DS_EXPLICIT, .list = list, .list_len = 0, .quantum = 1000000};
    long runs = 0, fails = 0, skipped = 0;
    s_sc_run(&cfg, &base);
    ++runs;
    if (!base.ok) {
        s_sc_report(&base, "baseline");
        return;
    }
    uint64_t rng = seed * 0x9E3779B97F4A7C15ull + 77;
    int nthr = s_sc.nthreads + 1;
    /* all (position, thread) pairs; visited in a seeded random order when there are more than the budget allows */
    static unsigned pairs[4096 * (SC_MAXT + 1)];
    size_t npairs = 0;
    for (size_t i = 0; i < base.nsched; ++i) {
        for (int t = 0; t < nthr; ++t) {
            if (t != base.sched[i]) {
                pairs[npairs++] = (unsigned)(i * 8 + (size_t)t);
            }
        }
    }
    if ((long)npairs > maxruns) {
        for (size_t k = npairs - 1; k > 0; --k) {
            size_t j = (size_t)(s_next(&rng) % (k + 1));
            unsigned tmp = pairs[k];
            pairs[k] = pairs[j];
            pairs[j] = tmp;
        }
    }
    for (size_t pi = 0; pi < npairs && runs < maxruns && !fails; ++pi) {
        size_t i = pairs[pi] / 8;
        {
            int t = (int)(pairs[pi] % 8);
            memcpy(list, base.sched, i * sizeof(int));
            list[i] = t;
            cfg.list_len = i + 1;
            s_sc_run(&cfg, &v);
            ++runs;
            if (v.diverged) {
                ++skipped; /* t was not enabled there: the run fell back to the default policy */
                continue;
            }
            if (!v.ok) {
                ++fails;
                printf("P explore bound=1 runs=%ld failures=1\n", runs);
                s_sc_report(&v, "preempt1");
                return;
            }
            /* a sampled second preemption on top of this one */
            if (bound >= 2) {
                for (int rep = 0; rep < 2 && runs < maxruns; ++rep) {
                    if (v.nsched <= i + 2) {
                        break;
                    }
                    size_t j = i + 1 + (size_t)(s_next(&rng) % (v.nsched - i - 1));
                    int t2 = (int)(s_next(&rng) % (uint64_t)nthr);
                    if (t2 == v.sched[j]) {
                        continue;
                    }
                    memcpy(list, v.sched, j * sizeof(int));
                    list[j] = t2;
                    cfg.list_len = j + 1;
                    s_sc_run(&cfg, &v2);
                    ++runs;
                    if (!v2.diverged && !v2.ok) {
                        printf("P explore bound=2 runs=%ld failures=1\n", runs);
                        s_sc_report(&v2, "preempt2");
                        return;
                    }
                    memcpy(list, base.sched, i * sizeof(int));
                    list[i] = t;
                }
            }
        }
    }
    printf("P explore bound=%d runs=%ld failures=0\n", bound, runs);
    printf("H explore baseline_steps=%zu not_enabled=%ld\n", base.nsched, skipped);
}
#endif /* SBA_SCHED */

/* ------------------------------------------------------------------ the parents against their contract, directly
 * (ASSUMPTIONS, "PARENT CONTRACT"): acquire / calloc return blocks disjoint from every live block, 16-byte aligned,
 * calloc zeroed over num*size; realloc(p, old, new) returns a block of `new` bytes keeping min(old,new) bytes and
 * disturbs no other block; everything released => the backend holds nothing.  Sizes around 4096 (the aligned
 * allocator's class boundary) and 512. */
static void s_parent_check(int kind, long steps, uint64_t seed) {
    static const size_t sz[] = {1, 8, 16, 31, 32, 33, 511, 512, 513, 600, 1000, 4000, 4095, 4096, 4097, 5000, 8191, 8192, 8193};
    struct aws_allocator *al;
    s_par_raw = kind == 1;
    s_backend = hc_allocator();
    al = kind == 2 ? aws_default_allocator() : kind == 3 ? aws_aligned_allocator() : kind == 4 ? &s_parent_norealloc
         : kind == 5 ? &s_parent_nocalloc : kind == 6 ? &s_parent_bare : &s_parent;
    struct blk b[48];
    size_t n = 0, serial = 0;
    char what[256] = "";
    uint64_t rng = seed * 0x9E3779B97F4A7C15ull + 99;
    long base = s_backend_live;
    size_t par_base = s_par_n;
    for (long step = 0; step < steps && !what[0]; ++step) {
        if ((step & 255) == 0) {
            s_progress();
        }
        uint64_t r = s_next(&rng) % 100;
        size_t want = sz[s_next(&rng) % (sizeof(sz) / sizeof(sz[0]))];
        if (n < 48 && (r < 35 || n == 0)) {
            struct blk *x = &b[n];
            x->k = serial++;
            x->cls = 0;
            ++s_in_backend;
            if (r < 12) {
                size_t num = 1 + s_next(&rng) % 8, each = 1 + want / num;
                x->size = num * each;
                x->ptr = aws_mem_calloc(al, num, each);
                --s_in_backend;
                for (size_t i = 0; i < x->size; ++i) {
                    if (x->ptr[i]) {
                        snprintf(what, sizeof(what), "calloc(%zu,%zu): byte %zu is not zero", num, each, i);
                        break;
                    }
                }
            } else {
                x->size = want;
                x->ptr = aws_mem_acquire(al, want);
                --s_in_backend;
            }
            if (((uintptr_t)x->ptr) % 16) {
                snprintf(what, sizeof(what), "block of %zu bytes is not 16-byte aligned", x->size);
            }
            for (size_t i = 0; i < n && !what[0]; ++i) {
                if (x->ptr < b[i].ptr + b[i].size && b[i].ptr < x->ptr + x->size) {
                    snprintf(what, sizeof(what), "new block of %zu bytes overlaps a live block of %zu bytes", x->size, b[i].size);
                }
            }
            if (!what[0]) {
                s_fill(x);
                ++n;
            }
        } else if (r < 70) {
            struct blk *x = &b[s_next(&rng) % n];
            size_t old = x->size, keep = old < want ? old : want;
            void *p = x->ptr;
            ++s_in_backend;
            aws_mem_realloc(al, &p, old, want);
            --s_in_backend;
            x->ptr = p;
            x->size = want;
            for (size_t i = 0; i < keep; ++i) {
                if (x->ptr[i] != s_pat(x->k, i)) {
                    snprintf(what, sizeof(what), "realloc %zu -> %zu lost byte %zu of the first %zu", old, want, i, keep);
                    break;
                }
            }
            if (!what[0]) {
                s_fill(x);
            }
        } else {
            size_t i = (size_t)(s_next(&rng) % n);
            ++s_in_backend;
            aws_mem_release(al, b[i].ptr);
            --s_in_backend;
            b[i] = b[--n];
        }
        for (size_t i = 0; i < n && !what[0]; ++i) {
            if (!s_intact(&b[i])) {
                snprintf(what, sizeof(what), "step %ld: contents of a live block of %zu bytes were disturbed", step, b[i].size);
            }
        }
    }
    if (!what[0]) {
        ++s_in_backend;
        for (size_t i = 0; i < n; ++i) {
            aws_mem_release(al, b[i].ptr);
        }
        --s_in_backend;
        if (s_backend_live != base || s_par_n != par_base) {
            snprintf(what, sizeof(what), "everything released but the parent still holds %ld C-library blocks (%ld recorded)",
                     s_backend_live - base, (long)s_par_n - (long)par_base);
        }
    }
    printf("P parent kind=%s ok=%d\n", s_parent_names[kind], what[0] ? 0 : 1);
    if (what[0]) {
        printf("P MONITOR parent %s: %s\n", s_parent_names[kind], what);
        fflush(stdout);
        _exit(0);
    }
}

/* ------------------------------------------------------------------ wall-clock watchdog
 * An allocator that dead-locks itself ("acquire never returns": e.g. a bin mutex left locked) would otherwise cost the
 * caller's whole timeout per case.  Every op is given WATCHDOG_S seconds (the long ops stress / explore / history /
 * parent WATCHDOG_LONG_S); the handler reports the case and leaves.  Each such exit is recorded in the file named by
 * SBA_HANG_FILE (one byte per hang); once HANG_LIMIT hangs are on record the remaining cases are not run. */
#define WATCHDOG_S 8
#define WATCHDOG_LONG_S 20
#define HANG_LIMIT 3
static char s_case_name[24] = "?";
static unsigned s_armed_s;

static void s_on_alarm(int sig) {
    (void)sig;
    static const char m1[] = "\nP MONITOR wall-clock watchdog: no progress for ";
    static const char m2[] = " s in case ";
    static const char m3[] = " (an operation of the allocator does not return)\n";
    char num[4] = {(char)('0' + s_armed_s / 10), (char)('0' + s_armed_s % 10), 0, 0};
    ssize_t r = write(1, m1, sizeof(m1) - 1);
    r = write(1, num[0] == '0' ? num + 1 : num, num[0] == '0' ? 1 : 2);
    r = write(1, m2, sizeof(m2) - 1);
    r = write(1, s_case_name, strlen(s_case_name));
    r = write(1, m3, sizeof(m3) - 1);
    const char *f = getenv("SBA_HANG_FILE");
    if (f) {
        int fd = open(f, O_WRONLY | O_CREAT | O_APPEND, 0644);
        if (fd >= 0) {
            r = write(fd, "h", 1);
            close(fd);
        }
    }
    (void)r;
    _exit(3);
}

static int s_hangs_on_record(void) {
    const char *f = getenv("SBA_HANG_FILE");
    if (!f) {
        return 0;
    }
    int fd = open(f, O_RDONLY);
    if (fd < 0) {
        return 0;
    }
    char buf[64];
    ssize_t n = read(fd, buf, sizeof(buf));
    close(fd);
    return n > 0 ? (int)n : 0;
}

static void s_progress(void) {
    if (s_armed_s) {
        alarm(s_armed_s);
    }
}

static void s_arm(unsigned seconds) {
    fflush(stdout); /* what was printed so far must not be lost when the handler leaves with _exit */
    s_armed_s = seconds;
    alarm(seconds);
}

/* ------------------------------------------------------------------ interpreter */
int main(void) {
    char *t[HC_MAX_TOKS];
    int n;
    aws_common_library_init(hc_allocator());
    bool skip_case = false;
    signal(SIGALRM, s_on_alarm);
    for (;;) {
        alarm(0); /* waiting for input is not the allocator's time */
        if ((n = hc_next_line(t)) < 0) {
            break;
        }
        bool long_op = !strcmp(t[0], "stress") || !strcmp(t[0], "explore") || !strcmp(t[0], "history") || !strcmp(t[0], "parent");
        if (skip_case && strcmp(t[0], "case")) {
            continue;
        }
        unsigned long_s = WATCHDOG_LONG_S;
        if (getenv("SBA_WATCHDOG_LONG") && atoi(getenv("SBA_WATCHDOG_LONG")) > 0 && atoi(getenv("SBA_WATCHDOG_LONG")) < 100) {
            long_s = (unsigned)atoi(getenv("SBA_WATCHDOG_LONG")); /* thorough tier: longer stress / explore / history ops */
        }
        s_arm(long_op ? long_s : WATCHDOG_S);
        if (!strcmp(t[0], "case")) {
            s_reset();
            hc_case_begin(t[1]);
            snprintf(s_case_name, sizeof(s_case_name), "%s", t[1]);
            skip_case = s_hangs_on_record() >= HANG_LIMIT;
            if (skip_case) {
                printf("P MONITOR not run: %d earlier cases of this run hung\n", HANG_LIMIT);
            }
        } else if (!strcmp(t[0], "new") && (n == 2 || (n == 3 && s_parent_kind(t[2]) >= 0)) && !s_sba &&
                   (!strcmp(t[1], "mt=0") || !strcmp(t[1], "mt=1"))) {
            s_new(!strcmp(t[1], "mt=1"), n == 3 ? s_parent_kind(t[2]) : 0);
            printf("P new ok\n");
            s_status();
#ifdef SBA_SCHED
        } else if (!strcmp(t[0], "scenario") && n == 4 && !s_sba) {
            memset(&s_sc, 0, sizeof(s_sc));
            s_sc.size = hc_parse_size(t[1]);
            s_sc.pre = atoi(t[2]);
            s_sc.nthreads = atoi(t[3]);
            if (s_sc.size == 0 || s_sc.pre < 0 || s_sc.pre > SC_MAXB || s_sc.nthreads < 1 || s_sc.nthreads > SC_MAXT) {
                s_sc.nthreads = 0;
                printf("bad-op\n");
            }
        } else if (!strcmp(t[0], "thread") && n >= 2 && !s_sba && s_sc.declared < s_sc.nthreads) {
            struct sc_thread *th = &s_sc.th[s_sc.declared++];
            th->give = atoi(t[1]);
            for (int i = 2; i < n && th->nprog < SC_MAXPROG; ++i) {
                strncpy(th->prog[th->nprog++], t[i], 3);
            }
        } else if (!strcmp(t[0], "run") && n == 3 && !s_sba && s_sc.nthreads && s_sc.declared == s_sc.nthreads) {
            static struct sc_verdict v;
            static int list[4200];
            struct ds_config cfg = {.quantum = 1000000};
            if (!strcmp(t[1], "seed")) {
                cfg.mode = DS_SEED;
                cfg.seed = hc_parse_u64(t[2]);
                cfg.stay_pct = 60;
            } else {
                cfg.mode = !strcmp(t[1], "choices") ? DS_CHOICES : DS_EXPLICIT;
                cfg.list_len = s_parse_csv(t[2], list, 4200);
                cfg.list = list;
            }
            s_sc_run(&cfg, &v);
            s_sc_report(&v, t[1]);
        } else if (!strcmp(t[0], "explore") && n == 4 && !s_sba && s_sc.nthreads && s_sc.declared == s_sc.nthreads) {
            s_sc_explore(atoi(t[1]), atol(t[2]), hc_parse_u64(t[3]));
#endif
        } else if (!strcmp(t[0], "parent") && n == 4 && !s_sba && s_parent_kind(t[1]) >= 0) {
            s_parent_check(s_parent_kind(t[1]), atol(t[2]), hc_parse_u64(t[3]));
        } else if (!s_sba) {
            printf("bad-op\n");
        } else if (!strcmp(t[0], "acq") && n == 3) {
            bool ok;
            size_t k = s_block_no(t[1], &ok), size = hc_parse_size(t[2]);
            if (!ok || size == 0 || s_find(t[1]) || s_nblk >= MAXBLK) {
                printf("bad-op\n");
                continue;
            }
            struct blk *b = &s_blk[s_nblk++];
            strcpy(b->name, t[1]);
            b->k = k;
            b->size = size;
            b->ptr = aws_mem_acquire(s_sba, size);
            s_identify(b, size, false);
            s_fill(b);
            s_status();
        } else if (!strcmp(t[0], "calloc") && n == 4) {
            bool ok;
            size_t k = s_block_no(t[1], &ok), num = hc_parse_size(t[2]), size = hc_parse_size(t[3]);
            if (!ok || num == 0 || size == 0 || s_find(t[1]) || s_nblk >= MAXBLK) {
                printf("bad-op\n");
                continue;
            }
            if (num > SIZE_MAX / size) {
                /* num * size does not fit a size_t: the library must refuse (fatal assert -> abort), it must not
                 * hand out a block.  Tried in a forked child; the allocator of this process is untouched. */
                fflush(stdout);
                pid_t pid = fork();
                HC_CHECK(pid >= 0);
                if (pid == 0) {
                    int devnull = open("/dev/null", O_WRONLY);
                    if (devnull >= 0) {
                        dup2(devnull, 2);
                    }
                    void *r = aws_mem_calloc(s_sba, num, size);
                    _exit(r ? 7 : 8);
                }
                int st = 0;
                waitpid(pid, &st, 0);
                if (WIFSIGNALED(st) || (WIFEXITED(st) && WEXITSTATUS(st) != 7 && WEXITSTATUS(st) != 8)) {
                    printf("P calloc refused\n");
                } else {
                    printf("P calloc accepted: a block was returned for %zu x %zu bytes\n", num, size);
                }
                continue;
            }
            if (num * size > HUGE_TOUCH_LIMIT) {
                printf("bad-op\n"); /* s_sba_mem_calloc memsets the whole block: not runnable on the fake parent */
                continue;
            }
            struct blk *b = &s_blk[s_nblk++];
            strcpy(b->name, t[1]);
            b->k = k;
            b->size = num * size;
            b->ptr = aws_mem_calloc(s_sba, num, size);
            s_identify(b, b->size, false);
            size_t zeros = 0;
            for (size_t i = 0; i < b->size; ++i) {
                zeros += b->ptr[i] == 0;
            }
            printf("P zero=%zu\n", zeros);
            s_fill(b);
            s_status();
        } else if (!strcmp(t[0], "realloc") && n == 4) {
            struct blk *b = s_find(t[1]);
            size_t old = hc_parse_size(t[2]), nsz = hc_parse_size(t[3]);
            if (!b || old != b->size || (old > HUGE_BACKED_LIMIT && nsz != 0)) {
                printf("bad-op\n"); /* an unbacked block can only be released */
                continue;
            }
            void *p = b->ptr;
            uint8_t *oldp = b->ptr;
            HC_CHECK(aws_mem_realloc(s_sba, &p, old, nsz) == AWS_OP_SUCCESS);
            if (nsz == 0) {
                HC_CHECK(p == NULL);
                printf("W %s gone\n", b->name);
                *b = s_blk[--s_nblk];
            } else {
                b->ptr = p;
                b->size = nsz;
                s_identify(b, nsz, b->ptr == oldp);
                size_t keep = s_touch_of(old) < s_touch_of(nsz) ? s_touch_of(old) : s_touch_of(nsz), kept = 0;
                for (size_t i = 0; i < keep; ++i) {
                    kept += b->ptr[i] == s_pat(b->k, i);
                }
                printf("P kept=%zu\n", kept);
                s_fill(b);
            }
            s_status();
        } else if ((!strcmp(t[0], "rel") && n == 2) || (!strcmp(t[0], "reltag") && n == 3)) {
            struct blk *b = s_find(t[1]);
            if (!b) {
                printf("bad-op\n");
                continue;
            }
            if (n == 3 && s_touch_of(b->size) >= 32) {
                /* the caller's own data carries ONE of the two tag words where a page header would have it (a
                 * page-aligned parent block starts at its own page base): the block is still the parent's */
                uint64_t tagv = 0x736f6d6570736575ULL; /* AWS_SBA_TAG_VALUE */
                memcpy(b->ptr + (atoi(t[2]) == 2 ? 24 : 0), &tagv, sizeof(tagv));
            }
            aws_mem_release(s_sba, b->ptr);
            /* keep table order stable (the order is not observable, but keep it simple) */
            memmove(b, b + 1, (size_t)((s_blk + s_nblk) - (b + 1)) * sizeof(*b));
            --s_nblk;
            s_status();
        } else if (!strcmp(t[0], "active") && n == 1) {
            printf("P active=%zu\n", aws_small_block_allocator_bytes_active(s_sba));
        } else if (!strcmp(t[0], "reserved") && n == 1) {
            printf("W reserved=%zu\n", aws_small_block_allocator_bytes_reserved(s_sba));
        } else if (!strcmp(t[0], "pagesize") && n == 1) {
            printf("P pagesize=%zu avail=%zu\n", aws_small_block_allocator_page_size(s_sba),
                   aws_small_block_allocator_page_size_available(s_sba));
        } else if (!strcmp(t[0], "stress") && n == 4 && s_nblk == 0) {
            int nt = atoi(t[1]);
            if (nt < 1 || nt > 8) {
                printf("bad-op\n");
                continue;
            }
            s_stress(nt, atol(t[2]), hc_parse_u64(t[3]));
        } else if (!strcmp(t[0], "history") && (n == 4 || n == 5) && s_nblk == 0) {
            long phase = n == 5 ? atol(t[4]) : 3000;
            s_history(atol(t[1]), hc_parse_u64(t[2]), hc_parse_size(t[3]), phase > 0 ? phase : 3000);
        } else if (!strcmp(t[0], "destroy") && n == 1) {
            if (s_nblk) {
                printf("bad-op\n");
                continue;
            }
            aws_small_block_allocator_destroy(s_sba);
            s_sba = NULL;
            printf("P destroyed pages_left=%zu parent_left=%ld backend_left=%ld\n", s_pg_n, (long)s_par_n - (long)s_par_base,
                   s_backend_live - s_backend_base);
        } else {
            printf("bad-op\n");
        }
        fflush(stdout);
    }
    s_arm(WATCHDOG_S);
    s_reset();
    alarm(0);
    return 0;
}
