/* C03 harness: drives the small-block allocator (source/allocator_sba.c) through an op file.
 * posix_memalign/free are wrapped at link time (-Wl,--wrap) so that the pages the allocator obtains
 * from the OS are numbered in the order they are obtained and counted; chunk identity is printed as
 * (page ordinal, offset).  Every live block carries a per-block fill pattern over its whole
 * requested size which is re-verified after every op, together with pairwise disjointness of the
 * real address ranges and alignment.  `stress` runs real threads (supporting test). */
#include "h_common.h"
#include <aws/common/allocator.h>
#include <pthread.h>
#include <stdlib.h>
#include <string.h>

/* ------------------------------------------------------------------ page tracking (link-time wrap) */
int __real_posix_memalign(void **out, size_t align, size_t size);
void __real_free(void *p);

#define MAXPAGES 65536
static pthread_mutex_t s_pg_lock = PTHREAD_MUTEX_INITIALIZER;
static struct pg {
    uintptr_t addr;
    long ord;
    size_t cls; /* size class of the chunks handed out from it (0 = not yet seen) */
} s_pg[MAXPAGES];
static size_t s_pg_n;      /* entries in use */
static long s_pg_next;     /* next ordinal */
static long s_pg_total;    /* pages ever obtained since `new` */
static size_t s_page_size = 4096;

int __wrap_posix_memalign(void **out, size_t align, size_t size) {
    int rc = __real_posix_memalign(out, align, size);
    if (rc == 0 && align == size && align >= 1024) {
        pthread_mutex_lock(&s_pg_lock);
        HC_CHECK(s_pg_n < MAXPAGES);
        s_pg[s_pg_n].addr = (uintptr_t)*out;
        s_pg[s_pg_n].ord = s_pg_next++;
        s_pg[s_pg_n].cls = 0;
        ++s_pg_n;
        ++s_pg_total;
        pthread_mutex_unlock(&s_pg_lock);
    }
    return rc;
}

void __wrap_free(void *p) {
    if (p && (((uintptr_t)p) & 1023) == 0 && s_pg_n) {
        pthread_mutex_lock(&s_pg_lock);
        for (size_t i = 0; i < s_pg_n; ++i) {
            if (s_pg[i].addr == (uintptr_t)p) {
                s_pg[i] = s_pg[--s_pg_n];
                break;
            }
        }
        pthread_mutex_unlock(&s_pg_lock);
    }
    __real_free(p);
}

/* page containing ptr: ordinal or -1; optionally records / returns the page's size class */
static long s_page_of(const void *ptr, size_t note_cls, size_t *cls_out, size_t *off_out) {
    uintptr_t base = ((uintptr_t)ptr) & ~(uintptr_t)(s_page_size - 1);
    long ord = -1;
    pthread_mutex_lock(&s_pg_lock);
    for (size_t i = 0; i < s_pg_n; ++i) {
        if (s_pg[i].addr == base) {
            ord = s_pg[i].ord;
            if (note_cls && !s_pg[i].cls) {
                s_pg[i].cls = note_cls;
            }
            if (cls_out) {
                *cls_out = s_pg[i].cls;
            }
            break;
        }
    }
    pthread_mutex_unlock(&s_pg_lock);
    if (off_out) {
        *off_out = (size_t)((uintptr_t)ptr - base);
    }
    return ord;
}

static size_t s_class_of(size_t size) {
    size_t c = 32;
    while (c < size) {
        c <<= 1;
    }
    return c;
}

static int s_bin_index(size_t cls) {
    int i = 0;
    while ((32u << i) < cls) {
        ++i;
    }
    return i;
}

#define NBINS 16
/* pages held per bin (by the class recorded for each live page); returns 1 when every bin holds <= 1 */
static int s_quiescent(long *per_bin, int *nb) {
    int ok = 1, n = 5;
    memset(per_bin, 0, sizeof(long) * NBINS);
    pthread_mutex_lock(&s_pg_lock);
    for (size_t i = 0; i < s_pg_n; ++i) {
        int b = s_pg[i].cls ? s_bin_index(s_pg[i].cls) : NBINS - 1;
        if (b >= NBINS) {
            b = NBINS - 1;
        }
        per_bin[b]++;
        if (b >= n) {
            n = b + 1;
        }
    }
    pthread_mutex_unlock(&s_pg_lock);
    for (int b = 0; b < n; ++b) {
        if (per_bin[b] > 1) {
            ok = 0;
        }
    }
    *nb = n;
    return ok;
}

/* ------------------------------------------------------------------ recording parent allocator
 * wraps hc_allocator() and remembers which blocks the parent has handed out and not got back, so that
 * every pointer the small-block allocator returns can be classified exactly: inside a page it
 * currently holds, a block of the parent, or neither (memory the allocator does not own — e.g. a
 * chunk of a page it already returned to the OS). */
#define MAXPARENT 16384
static pthread_mutex_t s_par_lock = PTHREAD_MUTEX_INITIALIZER;
static void *s_par[MAXPARENT];
static size_t s_par_n;

static void s_par_add(void *p) {
    if (!p) {
        return;
    }
    pthread_mutex_lock(&s_par_lock);
    HC_CHECK(s_par_n < MAXPARENT);
    s_par[s_par_n++] = p;
    pthread_mutex_unlock(&s_par_lock);
}

static void s_par_del(void *p) {
    pthread_mutex_lock(&s_par_lock);
    for (size_t i = 0; i < s_par_n; ++i) {
        if (s_par[i] == p) {
            s_par[i] = s_par[--s_par_n];
            break;
        }
    }
    pthread_mutex_unlock(&s_par_lock);
}

static bool s_par_has(const void *p) {
    bool r = false;
    pthread_mutex_lock(&s_par_lock);
    for (size_t i = 0; i < s_par_n; ++i) {
        if (s_par[i] == p) {
            r = true;
            break;
        }
    }
    pthread_mutex_unlock(&s_par_lock);
    return r;
}

static void *s_par_acquire(struct aws_allocator *a, size_t size) {
    (void)a;
    void *p = hc_allocator()->mem_acquire(hc_allocator(), size);
    s_par_add(p);
    return p;
}

static void s_par_release(struct aws_allocator *a, void *p) {
    (void)a;
    if (p) {
        s_par_del(p);
        hc_allocator()->mem_release(hc_allocator(), p);
    }
}

static void *s_par_realloc(struct aws_allocator *a, void *p, size_t oldsize, size_t newsize) {
    (void)a;
    void *n = hc_allocator()->mem_realloc(hc_allocator(), p, oldsize, newsize);
    if (n) {
        if (p) {
            s_par_del(p);
        }
        s_par_add(n);
    }
    return n;
}

static void *s_par_calloc(struct aws_allocator *a, size_t num, size_t size) {
    (void)a;
    void *p = hc_allocator()->mem_calloc(hc_allocator(), num, size);
    s_par_add(p);
    return p;
}

static struct aws_allocator s_parent = {
    .mem_acquire = s_par_acquire,
    .mem_release = s_par_release,
    .mem_realloc = s_par_realloc,
    .mem_calloc = s_par_calloc,
};

/* ------------------------------------------------------------------ blocks */
static uint8_t s_pat(size_t k, size_t i) {
    return (uint8_t)((k * 37 + i * 11 + 5) % 251 + 1);
}

struct blk {
    char name[24];
    uint8_t *ptr;
    size_t size;
    size_t k;
    size_t cls; /* class of the bin serving it, 0 = parent */
};
#define MAXBLK 4096
static struct blk s_blk[MAXBLK];
static size_t s_nblk;
static struct aws_allocator *s_sba;
static long s_parent_base;
static size_t s_hdr;

static struct blk *s_find(const char *name) {
    for (size_t i = 0; i < s_nblk; ++i) {
        if (!strcmp(s_blk[i].name, name)) {
            return &s_blk[i];
        }
    }
    return NULL;
}

static void s_fill(struct blk *b) {
    for (size_t i = 0; i < b->size; ++i) {
        b->ptr[i] = s_pat(b->k, i);
    }
}

static int s_intact(const struct blk *b) {
    for (size_t i = 0; i < b->size; ++i) {
        if (b->ptr[i] != s_pat(b->k, i)) {
            return 0;
        }
    }
    return 1;
}

/* identity line; records the class of the serving bin */
static void s_identify(struct blk *b, size_t alloc_size, bool same_ptr) {
    size_t off = 0, cls = 0;
    long ord = s_page_of(b->ptr, alloc_size <= 512 ? s_class_of(alloc_size) : 0, &cls, &off);
    if (ord >= 0) {
        printf("W %s page=%ld off=%zu\n", b->name, ord, off);
        if (!same_ptr) {
            b->cls = cls;
        }
    } else {
        /* not in a page the allocator holds: it must be a block of the parent */
        printf("W %s %s\n", b->name, s_par_has(b->ptr) ? "big" : "stray");
        b->cls = 0;
    }
}

static void s_checks(const struct blk *bl, size_t n, int *disjoint, int *align, int *intact, int *owned) {
    *disjoint = *align = *intact = *owned = 1;
    for (size_t i = 0; i < n; ++i) {
        const struct blk *a = &bl[i];
        /* the block lies in a page the allocator currently holds, or is a live block of the parent */
        if (s_page_of(a->ptr, 0, NULL, NULL) < 0 && !s_par_has(a->ptr)) {
            *owned = 0;
        }
        if (((uintptr_t)a->ptr) % 16) {
            *align = 0;
        }
        if (!s_intact(a)) {
            *intact = 0;
        }
        if (a->cls) {
            /* inside its page, beyond the header */
            size_t off = 0;
            long ord = s_page_of(a->ptr, 0, NULL, &off);
            if (ord < 0 || off < s_hdr || off + a->size > s_page_size) {
                *disjoint = 0;
            }
        }
        for (size_t j = i + 1; j < n; ++j) {
            const struct blk *b = &bl[j];
            if (a->ptr < b->ptr + b->size && b->ptr < a->ptr + a->size) {
                *disjoint = 0;
            }
        }
    }
}

static void s_status(void) {
    int d, a, in, ow;
    s_checks(s_blk, s_nblk, &d, &a, &in, &ow);
    printf("P ok disjoint=%d align=%d intact=%d owned=%d active=%zu\n", d, a, in, ow, aws_small_block_allocator_bytes_active(s_sba));
    printf("W reserved=%zu\n", aws_small_block_allocator_bytes_reserved(s_sba));
    if (s_nblk == 0) {
        long pb[NBINS];
        int nb;
        int ok = s_quiescent(pb, &nb);
        printf("P quiescent ok=%d\n", ok);
        printf("W qbins=");
        for (int b = 0; b < nb; ++b) {
            printf("%s%ld", b ? "," : "", pb[b]);
        }
        printf("\n");
    }
}

static void s_reset(void) {
    if (s_sba) {
        for (size_t i = 0; i < s_nblk; ++i) {
            aws_mem_release(s_sba, s_blk[i].ptr);
        }
        aws_small_block_allocator_destroy(s_sba);
        s_sba = NULL;
    }
    s_nblk = 0;
}

static size_t s_block_no(const char *name, bool *ok) {
    *ok = name[0] == 'p' && name[1] >= '0' && name[1] <= '9' && strlen(name) < 20;
    return *ok ? (size_t)strtoull(name + 1, NULL, 10) : 0;
}

/* ------------------------------------------------------------------ threaded stress (supporting test) */
struct tctx {
    int tid;
    uint64_t rng;
    long ops;
    struct blk blk[64];
    size_t n;
    long fail_pattern, fail_kept, fail_zero, n_alloc, n_free, n_realloc;
    size_t serial;
};

static uint64_t s_next(uint64_t *s) {
    uint64_t x = *s;
    x ^= x << 13;
    x ^= x >> 7;
    x ^= x << 17;
    return *s = x;
}

static const size_t s_sizes[] = {1, 8, 16, 31, 32, 33, 63, 64, 65, 127, 128, 129, 255, 256, 257, 511, 512, 513, 4000};

static size_t s_pick_size(uint64_t *rng) {
    uint64_t r = s_next(rng);
    if (r % 10 < 7) {
        return s_sizes[(r >> 8) % (sizeof(s_sizes) / sizeof(s_sizes[0]))];
    }
    return 1 + (size_t)((r >> 8) % 700);
}

static void s_set_cls(struct blk *b, size_t alloc_size) {
    size_t cls = 0;
    long ord = s_page_of(b->ptr, alloc_size <= 512 ? s_class_of(alloc_size) : 0, &cls, NULL);
    b->cls = ord >= 0 ? cls : 0;
}

static void *s_worker(void *arg) {
    struct tctx *c = arg;
    for (long op = 0; op < c->ops; ++op) {
        uint64_t r = s_next(&c->rng) % 100;
        if (c->n < 64 && (r < 40 || c->n == 0)) {
            struct blk *b = &c->blk[c->n];
            b->size = s_pick_size(&c->rng);
            b->k = (size_t)c->tid * 100003u + c->serial++;
            if (r < 8) {
                size_t num = 1 + s_next(&c->rng) % 4;
                b->size = num * (1 + b->size / num);
                b->ptr = aws_mem_calloc(s_sba, num, b->size / num);
                for (size_t i = 0; i < b->size; ++i) {
                    if (b->ptr[i]) {
                        c->fail_zero++;
                        break;
                    }
                }
            } else {
                b->ptr = aws_mem_acquire(s_sba, b->size);
            }
            s_set_cls(b, b->size);
            s_fill(b);
            c->n++;
            c->n_alloc++;
        } else if (r < 60) {
            struct blk *b = &c->blk[s_next(&c->rng) % c->n];
            size_t nsz = s_pick_size(&c->rng);
            size_t keep = nsz < b->size ? nsz : b->size;
            void *p = b->ptr;
            uint8_t *old = b->ptr;
            aws_mem_realloc(s_sba, &p, b->size, nsz);
            b->ptr = p;
            for (size_t i = 0; i < keep; ++i) {
                if (b->ptr[i] != s_pat(b->k, i)) {
                    c->fail_kept++;
                    break;
                }
            }
            if (b->ptr != old) {
                s_set_cls(b, nsz);
            }
            b->size = nsz;
            s_fill(b);
            c->n_realloc++;
        } else {
            size_t idx = s_next(&c->rng) % c->n;
            struct blk *b = &c->blk[idx];
            if (!s_intact(b)) {
                c->fail_pattern++;
            }
            aws_mem_release(s_sba, b->ptr);
            c->blk[idx] = c->blk[--c->n];
            c->n_free++;
        }
        if (c->n) {
            if (!s_intact(&c->blk[s_next(&c->rng) % c->n])) {
                c->fail_pattern++;
            }
        }
    }
    return NULL;
}

static void s_stress(int nthreads, long ops, uint64_t seed) {
    static struct tctx ctx[8];
    static struct blk all[8 * 64];
    pthread_t th[8];
    memset(ctx, 0, sizeof(ctx));
    for (int t = 0; t < nthreads; ++t) {
        ctx[t].tid = t + 1;
        ctx[t].rng = seed * 0x9E3779B97F4A7C15ull + (uint64_t)(t + 1) * 0xD1B54A32D192ED03ull + 1;
        ctx[t].ops = ops;
        HC_CHECK(pthread_create(&th[t], NULL, s_worker, &ctx[t]) == 0);
    }
    long fp = 0, fk = 0, fz = 0, na = 0, nf = 0, nr = 0;
    size_t n = 0, expect_active = 0;
    for (int t = 0; t < nthreads; ++t) {
        pthread_join(th[t], NULL);
        fp += ctx[t].fail_pattern;
        fk += ctx[t].fail_kept;
        fz += ctx[t].fail_zero;
        na += ctx[t].n_alloc;
        nf += ctx[t].n_free;
        nr += ctx[t].n_realloc;
        for (size_t i = 0; i < ctx[t].n; ++i) {
            all[n++] = ctx[t].blk[i];
            expect_active += ctx[t].blk[i].cls;
        }
    }
    int d, a, in, ow;
    s_checks(all, n, &d, &a, &in, &ow);
    size_t active = aws_small_block_allocator_bytes_active(s_sba);
    long pages_peak = s_pg_total;
    for (size_t i = 0; i < n; ++i) {
        aws_mem_release(s_sba, all[i].ptr);
    }
    size_t active_end = aws_small_block_allocator_bytes_active(s_sba);
    long pb[NBINS];
    int nb;
    int q = s_quiescent(pb, &nb);
    int ok = d && a && in && ow && fp == 0 && fk == 0 && fz == 0 && active == expect_active && active_end == 0 && q;
    printf("P stress threads=%d ok=%d disjoint=%d align=%d intact=%d owned=%d pattern_failures=%ld kept_failures=%ld zero_failures=%ld "
           "active=%zu expected_active=%zu active_after_release=%zu quiescent=%d\n",
           nthreads, ok, d, a, in, ow, fp, fk, fz, active, expect_active, active_end, q);
    printf("H stress allocs=%ld frees=%ld reallocs=%ld live_at_join=%zu pages_obtained=%ld pages_held_after=%zu\n", na, nf, nr, n,
           pages_peak, s_pg_n);
}

/* ------------------------------------------------------------------ interpreter */
int main(void) {
    char *t[HC_MAX_TOKS];
    int n;
    aws_common_library_init(hc_allocator());
    while ((n = hc_next_line(t)) >= 0) {
        if (!strcmp(t[0], "case")) {
            s_reset();
            hc_case_begin(t[1]);
        } else if (!strcmp(t[0], "new") && n == 2 && !s_sba && (!strcmp(t[1], "mt=0") || !strcmp(t[1], "mt=1"))) {
            s_parent_base = hc_live_blocks();
            pthread_mutex_lock(&s_pg_lock);
            s_pg_next = 0;
            s_pg_total = 0;
            pthread_mutex_unlock(&s_pg_lock);
            s_sba = aws_small_block_allocator_new(&s_parent, !strcmp(t[1], "mt=1"));
            HC_CHECK(s_sba);
            s_page_size = aws_small_block_allocator_page_size(s_sba);
            s_hdr = s_page_size - aws_small_block_allocator_page_size_available(s_sba);
            printf("P new ok\n");
            s_status();
        } else if (!s_sba) {
            printf("bad-op\n");
        } else if (!strcmp(t[0], "acq") && n == 3) {
            bool ok;
            size_t k = s_block_no(t[1], &ok), size = hc_parse_size(t[2]);
            if (!ok || size == 0 || s_find(t[1]) || s_nblk >= MAXBLK) {
                printf("bad-op\n");
                continue;
            }
            struct blk *b = &s_blk[s_nblk++];
            strcpy(b->name, t[1]);
            b->k = k;
            b->size = size;
            b->ptr = aws_mem_acquire(s_sba, size);
            s_identify(b, size, false);
            s_fill(b);
            s_status();
        } else if (!strcmp(t[0], "calloc") && n == 4) {
            bool ok;
            size_t k = s_block_no(t[1], &ok), num = hc_parse_size(t[2]), size = hc_parse_size(t[3]);
            if (!ok || num == 0 || size == 0 || num > SIZE_MAX / size || s_find(t[1]) || s_nblk >= MAXBLK) {
                printf("bad-op\n");
                continue;
            }
            struct blk *b = &s_blk[s_nblk++];
            strcpy(b->name, t[1]);
            b->k = k;
            b->size = num * size;
            b->ptr = aws_mem_calloc(s_sba, num, size);
            s_identify(b, b->size, false);
            size_t zeros = 0;
            for (size_t i = 0; i < b->size; ++i) {
                zeros += b->ptr[i] == 0;
            }
            printf("P zero=%zu\n", zeros);
            s_fill(b);
            s_status();
        } else if (!strcmp(t[0], "realloc") && n == 4) {
            struct blk *b = s_find(t[1]);
            size_t old = hc_parse_size(t[2]), nsz = hc_parse_size(t[3]);
            if (!b || old != b->size) {
                printf("bad-op\n");
                continue;
            }
            void *p = b->ptr;
            uint8_t *oldp = b->ptr;
            HC_CHECK(aws_mem_realloc(s_sba, &p, old, nsz) == AWS_OP_SUCCESS);
            if (nsz == 0) {
                HC_CHECK(p == NULL);
                printf("W %s gone\n", b->name);
                *b = s_blk[--s_nblk];
            } else {
                b->ptr = p;
                b->size = nsz;
                s_identify(b, nsz, b->ptr == oldp);
                size_t keep = old < nsz ? old : nsz, kept = 0;
                for (size_t i = 0; i < keep; ++i) {
                    kept += b->ptr[i] == s_pat(b->k, i);
                }
                printf("P kept=%zu\n", kept);
                s_fill(b);
            }
            s_status();
        } else if (!strcmp(t[0], "rel") && n == 2) {
            struct blk *b = s_find(t[1]);
            if (!b) {
                printf("bad-op\n");
                continue;
            }
            aws_mem_release(s_sba, b->ptr);
            /* keep table order stable (the order is not observable, but keep it simple) */
            memmove(b, b + 1, (size_t)((s_blk + s_nblk) - (b + 1)) * sizeof(*b));
            --s_nblk;
            s_status();
        } else if (!strcmp(t[0], "active") && n == 1) {
            printf("P active=%zu\n", aws_small_block_allocator_bytes_active(s_sba));
        } else if (!strcmp(t[0], "reserved") && n == 1) {
            printf("W reserved=%zu\n", aws_small_block_allocator_bytes_reserved(s_sba));
        } else if (!strcmp(t[0], "pagesize") && n == 1) {
            printf("P pagesize=%zu\n", aws_small_block_allocator_page_size(s_sba));
        } else if (!strcmp(t[0], "stress") && n == 4 && s_nblk == 0) {
            int nt = atoi(t[1]);
            if (nt < 1 || nt > 8) {
                printf("bad-op\n");
                continue;
            }
            s_stress(nt, atol(t[2]), hc_parse_u64(t[3]));
        } else if (!strcmp(t[0], "destroy") && n == 1) {
            if (s_nblk) {
                printf("bad-op\n");
                continue;
            }
            aws_small_block_allocator_destroy(s_sba);
            s_sba = NULL;
            printf("P destroyed pages_left=%zu parent_left=%ld\n", s_pg_n, hc_live_blocks() - s_parent_base);
        } else {
            printf("bad-op\n");
        }
        fflush(stdout);
    }
    s_reset();
    return 0;
}
