/* C05 harness: every op is run through two builds of /repo/source/encoding.c linked into this binary:
 *   "vector"   - the library's normal object (USE_SIMD_ENCODING; AVX2 code chosen at run time via cpuid),
 *   "portable" - encoding.c compiled again without USE_SIMD_ENCODING, public symbols renamed portable_*.
 * Output buffers are exact-size heap blocks (ASan red zones) filled with a canary; every call is made twice
 * with two different canaries so that the set of bytes actually stored is measured exactly. */
#include "h_common.h"
#include <aws/common/byte_buf.h>
#include <aws/common/encoding.h>
#include <stdlib.h>
#include <string.h>

typedef int(codec_fn)(const struct aws_byte_cursor *, struct aws_byte_buf *);
typedef int(len_fn)(size_t, size_t *);
typedef int(declen_fn)(const struct aws_byte_cursor *, size_t *);

#define DECL(p)                                                                                                        \
    int p##aws_hex_compute_encoded_len(size_t, size_t *);                                                              \
    int p##aws_hex_encode(const struct aws_byte_cursor *, struct aws_byte_buf *);                                      \
    int p##aws_hex_encode_append_dynamic(const struct aws_byte_cursor *, struct aws_byte_buf *);                       \
    int p##aws_hex_compute_decoded_len(size_t, size_t *);                                                              \
    int p##aws_hex_decode(const struct aws_byte_cursor *, struct aws_byte_buf *);                                      \
    int p##aws_base64_compute_encoded_len(size_t, size_t *);                                                           \
    int p##aws_base64_compute_decoded_len(const struct aws_byte_cursor *, size_t *);                                   \
    int p##aws_base64_encode(const struct aws_byte_cursor *, struct aws_byte_buf *);                                   \
    int p##aws_base64_decode(const struct aws_byte_cursor *, struct aws_byte_buf *);                                   \
    int p##aws_decode_utf8(struct aws_byte_cursor, const struct aws_utf8_decoder_options *);                           \
    struct aws_utf8_decoder *p##aws_utf8_decoder_new(struct aws_allocator *, const struct aws_utf8_decoder_options *); \
    void p##aws_utf8_decoder_destroy(struct aws_utf8_decoder *);                                                       \
    void p##aws_utf8_decoder_reset(struct aws_utf8_decoder *);                                                         \
    int p##aws_utf8_decoder_update(struct aws_utf8_decoder *, struct aws_byte_cursor);                                 \
    int p##aws_utf8_decoder_finalize(struct aws_utf8_decoder *);
DECL(portable_)
DECL(noext_)
bool aws_common_private_has_avx2(void);

struct build {
    const char *name;
    len_fn *hex_enc_len, *hex_dec_len, *b64_enc_len;
    declen_fn *b64_dec_len;
    codec_fn *hex_enc, *hex_dyn, *hex_dec, *b64_enc, *b64_dec;
    int (*decode_utf8)(struct aws_byte_cursor, const struct aws_utf8_decoder_options *);
    struct aws_utf8_decoder *(*u8_new)(struct aws_allocator *, const struct aws_utf8_decoder_options *);
    void (*u8_destroy)(struct aws_utf8_decoder *);
    void (*u8_reset)(struct aws_utf8_decoder *);
    int (*u8_update)(struct aws_utf8_decoder *, struct aws_byte_cursor);
    int (*u8_finalize)(struct aws_utf8_decoder *);
};
#define BUILD(n, p)                                                                                                    \
    {n,                                                                                                                \
     p##aws_hex_compute_encoded_len,                                                                                   \
     p##aws_hex_compute_decoded_len,                                                                                   \
     p##aws_base64_compute_encoded_len,                                                                                \
     p##aws_base64_compute_decoded_len,                                                                                \
     p##aws_hex_encode,                                                                                                \
     p##aws_hex_encode_append_dynamic,                                                                                 \
     p##aws_hex_decode,                                                                                                \
     p##aws_base64_encode,                                                                                             \
     p##aws_base64_decode,                                                                                             \
     p##aws_decode_utf8,                                                                                               \
     p##aws_utf8_decoder_new,                                                                                          \
     p##aws_utf8_decoder_destroy,                                                                                      \
     p##aws_utf8_decoder_reset,                                                                                        \
     p##aws_utf8_decoder_update,                                                                                       \
     p##aws_utf8_decoder_finalize}
/* builds 0 and 1 run every op; build 2 (the AVX2 file compiled without _mm256_extract_epi64, harness/codec_avx2_noext.c)
 * runs the base64 encode / decode ops */
static const struct build s_builds[3] = {BUILD("portable", portable_), BUILD("vector", ), BUILD("vector-noext", noext_)};

/* ---- allocator whose fresh memory carries the current canary (for the dynamic buffer) ---- */
static uint8_t s_canary;
static void *s_acq(struct aws_allocator *a, size_t n) {
    (void)a;
    void *p = malloc(n);
    memset(p, s_canary, n);
    return p;
}
static void s_rel(struct aws_allocator *a, void *p) {
    (void)a;
    free(p);
}
static void *s_re(struct aws_allocator *a, void *old, size_t os, size_t ns) {
    void *p = s_acq(a, ns);
    if (old) {
        memcpy(p, old, os < ns ? os : ns);
        free(old);
    }
    return p;
}
static void *s_cal(struct aws_allocator *a, size_t n, size_t s) {
    (void)a;
    return calloc(n, s);
}
static struct aws_allocator s_canary_alloc = {s_acq, s_rel, s_re, s_cal, NULL};

/* ---- one measured call ---- */
struct res {
    int rc;
    char err[64];
    size_t len, cap;      /* output->len / capacity after the call */
    size_t lo, hi, cnt;   /* stored bytes: first, last+1, how many */
    uint8_t *bytes;       /* buffer contents after the call (stored bytes merged from both runs), cap bytes */
    bool unstable;
};

static const uint8_t CANARY[2] = {0xA5, 0x5A};

static void s_measure(codec_fn *fn, const uint8_t *in, size_t inlen, size_t outlen, size_t cap, bool dyn, struct res *r) {
    uint8_t *img[2] = {NULL, NULL};
    size_t caps[2] = {0, 0}, lens[2] = {0, 0};
    int rcs[2] = {0, 0};
    char errs[2][64];
    for (int k = 0; k < 2; ++k) {
        struct aws_byte_cursor cur = {inlen, (uint8_t *)in};
        struct aws_byte_buf buf;
        s_canary = CANARY[k];
        if (dyn) {
            HC_CHECK(aws_byte_buf_init(&buf, &s_canary_alloc, cap) == AWS_OP_SUCCESS);
            HC_CHECK(outlen <= cap);
            buf.len = outlen;
        } else {
            buf.allocator = NULL;
            buf.buffer = malloc(cap);
            buf.capacity = cap;
            buf.len = outlen;
            if (cap) {
                memset(buf.buffer, CANARY[k], cap);
            }
        }
        aws_reset_error();
        rcs[k] = fn(&cur, &buf);
        snprintf(errs[k], sizeof(errs[k]), "%s", hc_err(rcs[k]));
        lens[k] = buf.len;
        caps[k] = buf.capacity;
        img[k] = malloc(buf.capacity ? buf.capacity : 1);
        if (buf.capacity) {
            memcpy(img[k], buf.buffer, buf.capacity);
        }
        if (dyn) {
            aws_byte_buf_clean_up(&buf);
        } else {
            free(buf.buffer);
        }
    }
    memset(r, 0, sizeof(*r));
    r->rc = rcs[0];
    snprintf(r->err, sizeof(r->err), "%s", errs[0]);
    r->len = lens[0];
    r->cap = caps[0];
    r->unstable = rcs[0] != rcs[1] || strcmp(errs[0], errs[1]) || lens[0] != lens[1] || caps[0] != caps[1];
    r->bytes = img[0];
    r->lo = r->hi = r->cnt = 0;
    if (!r->unstable) {
        for (size_t i = 0; i < r->cap; ++i) {
            bool c0 = img[0][i] != CANARY[0], c1 = img[1][i] != CANARY[1];
            if (c0 || c1) {
                if (c0 && c1 && img[0][i] != img[1][i]) {
                    r->unstable = true;
                }
                if (!c0) {
                    img[0][i] = img[1][i]; /* the stored value happened to equal canary 0 */
                }
                if (!r->cnt) {
                    r->lo = i;
                }
                r->hi = i + 1;
                ++r->cnt;
            }
        }
    }
    free(img[1]);
}

static void s_put_w(const struct res *r) {
    if (r->cnt == 0) {
        printf("w=none");
    } else if (r->cnt == r->hi - r->lo) {
        printf("w=%zu+%zu", r->lo, r->cnt);
    } else {
        printf("w=%zu+%zu!holes=%zu", r->lo, r->hi - r->lo, r->hi - r->lo - r->cnt);
    }
}

/* append: the call appends at outlen (reported region [outlen,len)); otherwise it reports [0,len) */
static void s_run_out(const char *op, int which, const uint8_t *in, size_t inlen, size_t outlen, size_t cap, bool append,
                      bool dyn) {
    struct res r[3];
    int nb = which <= 1 ? 3 : 2;
    for (int b = 0; b < nb; ++b) {
        const struct build *B = &s_builds[b];
        codec_fn *fn = which == 0   ? B->b64_enc
                       : which == 1 ? B->b64_dec
                       : which == 2 ? B->hex_enc
                       : which == 3 ? B->hex_dec
                                    : B->hex_dyn;
        s_measure(fn, in, inlen, outlen, cap, dyn, &r[b]);
        if (r[b].unstable) {
            printf("P %s %s MONITOR result depends on the previous contents of the output buffer\n", op, B->name);
        }
        if (r[b].rc == AWS_OP_SUCCESS) {
            size_t start = append ? outlen : 0;
            printf("P %s %s rc=OK len=%zu ", op, B->name, r[b].len);
            s_put_w(&r[b]);
            printf(" out=");
            if (r[b].len > r[b].cap || r[b].len < start) {
                printf("!reported-region-outside-buffer");
            } else {
                hc_put_hex(r[b].bytes + start, r[b].len - start);
            }
            printf("\n");
        } else {
            printf("P %s %s rc=%s len=%zu\n", op, B->name, r[b].err, r[b].len);
            {
                printf("W %s %s ", op, B->name);
                s_put_w(&r[b]);
                printf(" out=");
                hc_put_hex(r[b].bytes + r[b].lo, r[b].hi - r[b].lo);
                printf("\n");
            }
        }
    }
    bool same = true;
    for (int b = 1; b < nb; ++b) {
        bool s1 = r[0].rc == r[b].rc && !strcmp(r[0].err, r[b].err) && r[0].len == r[b].len;
        if (s1 && r[0].rc == AWS_OP_SUCCESS) {
            s1 = r[0].lo == r[b].lo && r[0].hi == r[b].hi && r[0].cnt == r[b].cnt && r[0].cap == r[b].cap &&
                 (r[0].cap == 0 || !memcmp(r[0].bytes, r[b].bytes, r[0].cap));
        }
        same = same && s1;
    }
    printf("P %s same=%d\n", op, same);
    if (dyn) {
        for (int b = 0; b < 2; ++b) {
            printf("W %s %s cap=%zu\n", op, s_builds[b].name, r[b].cap);
        }
    }
    for (int b = 0; b < nb; ++b) {
        free(r[b].bytes);
    }
}

static void s_run_len(const char *op, int which, size_t n, const uint8_t *in, size_t inlen) {
    int rcs[2];
    size_t vs[2];
    char errs[2][64];
    for (int b = 0; b < 2; ++b) {
        const struct build *B = &s_builds[b];
        size_t v = 0xDEADBEEF;
        aws_reset_error();
        if (which == 3) {
            struct aws_byte_cursor cur = {inlen, (uint8_t *)in};
            rcs[b] = B->b64_dec_len(&cur, &v);
        } else {
            len_fn *fn = which == 0 ? B->b64_enc_len : which == 1 ? B->hex_enc_len : B->hex_dec_len;
            rcs[b] = fn(n, &v);
        }
        snprintf(errs[b], sizeof(errs[b]), "%s", hc_err(rcs[b]));
        vs[b] = v;
        if (rcs[b] == AWS_OP_SUCCESS) {
            printf("P %s %s rc=OK v=%zu\n", op, B->name, v);
        } else {
            printf("P %s %s rc=%s v=-\n", op, B->name, errs[b]);
        }
    }
    printf("P %s same=%d\n", op, rcs[0] == rcs[1] && !strcmp(errs[0], errs[1]) && (rcs[0] != AWS_OP_SUCCESS || vs[0] == vs[1]));
}

/* checks that precede any byte access: fake cursor length / buffer sizes over a 1-byte block */
static void s_run_huge(const char *op, int which, size_t n, size_t outlen, size_t cap) {
    int rcs[2];
    size_t lens[2];
    char errs[2][64];
    for (int b = 0; b < 2; ++b) {
        const struct build *B = &s_builds[b];
        uint8_t *inb = malloc(1), *outb = malloc(1);
        struct aws_byte_cursor cur = {n, inb};
        struct aws_byte_buf buf = {outlen, outb, cap, which == 3 ? hc_allocator() : NULL};
        codec_fn *fn = which == 0 ? B->b64_enc : which == 1 ? B->hex_enc : which == 2 ? B->hex_dec : B->hex_dyn;
        aws_reset_error();
        rcs[b] = fn(&cur, &buf);
        snprintf(errs[b], sizeof(errs[b]), "%s", rcs[b] == AWS_OP_SUCCESS ? "OK-unexpected" : hc_err(rcs[b]));
        lens[b] = buf.len;
        printf("P %s %s rc=%s len=%zu\n", op, B->name, errs[b], lens[b]);
        free(inb);
        if (buf.buffer == outb) {
            free(outb);
        }
    }
    printf("P %s same=%d\n", op, rcs[0] == rcs[1] && !strcmp(errs[0], errs[1]) && lens[0] == lens[1]);
}

/* ---- UTF-8 ----
 * Every UTF-8 op runs each build in two modes: a decoder with a recording on_codepoint callback, and a
 * decoder created without callback (options == NULL, or options->on_codepoint == NULL). */
#define MAXCP 65536
struct cplog {
    uint32_t cp[MAXCP];
    size_t n;
};
static struct cplog s_log[2];
static struct cplog *s_cur_log; /* where the callback logs when it was installed with user_data == NULL */
static long s_fail_at = -1;     /* the callback's call number (from 0) that returns an error; -1 = never */
static int s_on_cp(uint32_t cp, void *ud) {
    struct cplog *l = ud ? ud : s_cur_log;
    HC_CHECK(l && l->n < MAXCP);
    l->cp[l->n++] = cp;
    if (s_fail_at >= 0 && (long)l->n - 1 == s_fail_at) {
        return aws_raise_error(AWS_ERROR_INVALID_ARGUMENT);
    }
    return AWS_OP_SUCCESS;
}
static void s_put_cps(const struct cplog *l) {
    if (l->n == 0) {
        printf("-");
    }
    for (size_t i = 0; i < l->n; ++i) {
        printf(i ? ",%x" : "%x", l->cp[i]);
    }
}
static void s_put_u8(const char *op, const char *name, const char *err, const struct cplog *l) {
    printf("P %s %s rc=%s cps=", op, name, err);
    s_put_cps(l);
    printf("\n");
}
static void s_put_u8_nocb(const char *op, const char *name, const char *err) {
    printf("P %s %s nocb=1 rc=%s\n", op, name, err);
}
static bool s_log_same(void) {
    return s_log[0].n == s_log[1].n && !memcmp(s_log[0].cp, s_log[1].cp, s_log[0].n * sizeof(uint32_t));
}

/* exact-size heap copy (ASan red zone right behind the chunk) */
static uint8_t *s_dup(const uint8_t *p, size_t n) {
    uint8_t *q = malloc(n ? n : 1);
    if (n) {
        memcpy(q, p, n);
    }
    return q;
}

/* new decoder, feed the chunks (stop at the first error), finalize, destroy.  nocb_kind: 0 = callback installed,
 * 1 = options == NULL, 2 = options given but on_codepoint == NULL */
static void s_run_chunks(
    const struct build *B,
    int nocb_kind,
    struct cplog *log,
    const uint8_t *x,
    const size_t *cut, /* chunk k is x[cut[k] .. cut[k+1]) */
    size_t nchunks,
    char *err,
    size_t errsz) {
    bool cb = nocb_kind == 0 || nocb_kind == 3; /* 3 = callback installed with user_data == NULL (it logs through s_cur_log) */
    struct aws_utf8_decoder_options opt = {cb ? s_on_cp : NULL, nocb_kind == 3 ? NULL : log};
    log->n = 0;
    s_cur_log = log;
    struct aws_utf8_decoder *d = B->u8_new(hc_allocator(), nocb_kind == 1 ? NULL : &opt);
    int rc = AWS_OP_SUCCESS;
    aws_reset_error();
    for (size_t k = 0; k < nchunks && rc == AWS_OP_SUCCESS; ++k) {
        size_t len = cut[k + 1] - cut[k];
        uint8_t *c = s_dup(x + cut[k], len);
        rc = B->u8_update(d, aws_byte_cursor_from_array(c, len));
        free(c);
    }
    if (rc == AWS_OP_SUCCESS) {
        rc = B->u8_finalize(d);
    }
    snprintf(err, errsz, "%s", hc_err(rc));
    B->u8_destroy(d);
}

static void s_one_shot(const struct build *B, int nocb_kind, struct cplog *log, const uint8_t *x, size_t len, char *err, size_t errsz) {
    bool cb = nocb_kind == 0 || nocb_kind == 3;
    struct aws_utf8_decoder_options opt = {cb ? s_on_cp : NULL, nocb_kind == 3 ? NULL : log};
    uint8_t *c = s_dup(x, len);
    log->n = 0;
    s_cur_log = log;
    aws_reset_error();
    int rc = B->decode_utf8(aws_byte_cursor_from_array(c, len), nocb_kind == 1 ? NULL : &opt);
    snprintf(err, errsz, "%s", hc_err(rc));
    free(c);
}

/* all chunkings of x (every composition, plus one run with an empty chunk around every byte), in four modes:
 * 0 callback (user_data set / NULL alternating), 1 no callback, 2 / 3 callback failing on its 1st / 2nd call */
static void s_u8all(const uint8_t *x, size_t len) {
    static struct cplog ref[2][4], got;
    char err1[2][4][64];
    int dep[2][4];
    size_t nmask = len ? ((size_t)1 << (len - 1)) : 1;
    memset(dep, 0, sizeof(dep));
    for (int b = 0; b < 2; ++b) {
        const struct build *B = &s_builds[b];
        char mon[1024] = "";
        for (int mode = 0; mode < 4; ++mode) {
            s_fail_at = mode >= 2 ? mode - 2 : -1;
            s_one_shot(B, mode == 1 ? 2 : (mode == 0 ? 3 : 0), &ref[b][mode], x, len, err1[b][mode], sizeof(err1[b][mode]));
        }
        for (size_t mask = 0; mask <= nmask; ++mask) {
            size_t cut[40], n = 0;
            cut[n++] = 0;
            if (mask == nmask) { /* extra run: empty chunks interleaved with single bytes */
                for (size_t i = 0; i < len; ++i) {
                    cut[n++] = i;
                    cut[n++] = i + 1;
                }
                cut[n++] = len;
            } else {
                for (size_t i = 0; i + 1 < len; ++i) {
                    if (mask >> i & 1) {
                        cut[n++] = i + 1;
                    }
                }
                cut[n++] = len;
            }
            for (int mode = 0; mode < 4; ++mode) {
                char err[64];
                int kind = mode == 1 ? 1 + (int)(mask & 1) : ((mask >> 1 & 1) ? 3 : 0);
                s_fail_at = mode >= 2 ? mode - 2 : -1;
                s_run_chunks(B, kind, &got, x, cut, n - 1, err, sizeof(err));
                bool differs = strcmp(err, err1[b][mode]) || got.n != ref[b][mode].n ||
                               memcmp(got.cp, ref[b][mode].cp, got.n * sizeof(uint32_t)) ||
                               (mode == 1 && (strcmp(err, err1[b][0]) || got.n != 0));
                if (differs) {
                    dep[b][mode] = 1;
                    if (!mon[0]) {
                        size_t o = (size_t)snprintf(mon, sizeof(mon), "P u8all %s MONITOR split=", B->name);
                        for (size_t k = 0; k + 1 < n && o + 8 < sizeof(mon); ++k) {
                            if (k) {
                                mon[o++] = '|';
                            }
                            if (cut[k] == cut[k + 1]) {
                                mon[o++] = '-';
                            }
                            for (size_t i = cut[k]; i < cut[k + 1] && o + 8 < sizeof(mon); ++i) {
                                o += (size_t)snprintf(mon + o, sizeof(mon) - o, "%02x", x[i]);
                            }
                        }
                        snprintf(mon + o, sizeof(mon) - o, " mode=%s rc=%s reported=%zu but in one piece rc=%s reported=%zu",
                                 mode == 0 ? "callback" : mode == 1 ? "nocb" : mode == 2 ? "failcb0" : "failcb1", err, got.n,
                                 err1[b][mode], ref[b][mode].n);
                    }
                }
            }
        }
        s_fail_at = -1;
        printf("P u8all %s rc=%s cps=", B->name, err1[b][0]);
        s_put_cps(&ref[b][0]);
        printf(" chunkings=%zu chunkdep=%d\n", nmask, dep[b][0]);
        printf("P u8all %s nocb=1 rc=%s chunkdep=%d\n", B->name, err1[b][1], dep[b][1]);
        for (int mode = 2; mode < 4; ++mode) {
            printf("P u8all %s failcb=%d rc=%s cps=", B->name, mode - 2, err1[b][mode]);
            s_put_cps(&ref[b][mode]);
            printf(" chunkdep=%d\n", dep[b][mode]);
        }
        if (mon[0]) {
            printf("%s\n", mon);
        }
    }
    bool same = true;
    for (int mode = 0; mode < 4; ++mode) {
        same = same && !strcmp(err1[0][mode], err1[1][mode]) && ref[0][mode].n == ref[1][mode].n &&
               !memcmp(ref[0][mode].cp, ref[1][mode].cp, ref[0][mode].n * sizeof(uint32_t)) && dep[0][mode] == dep[1][mode];
    }
    printf("P u8all same=%d\n", same);
}

/* persistent decoders: [build][0 = with callback, 1 = without] */
static struct aws_utf8_decoder *s_dec[2][2];

static void s_reset(void) {
    for (int b = 0; b < 2; ++b) {
        for (int m = 0; m < 2; ++m) {
            if (s_dec[b][m]) {
                s_builds[b].u8_destroy(s_dec[b][m]);
                s_dec[b][m] = NULL;
            }
        }
    }
}

int main(void) {
    char *t[HC_MAX_TOKS];
    int n;
    aws_common_library_init(hc_allocator());
    /* dispatch probe: the library's answer (asked twice: it caches), and gcc's independent cpuid + XGETBV test */
    {
        int a = (int)aws_common_private_has_avx2(), b = (int)aws_common_private_has_avx2();
        __builtin_cpu_init();
        printf("I avx2=%d avx2_again=%d host_avx2=%d\n", a, b, __builtin_cpu_supports("avx2") ? 1 : 0);
    }
    fflush(stdout);
    while ((n = hc_next_line(t)) >= 0) {
        const char *op = t[0];
        int which = -1;
        if (!strcmp(op, "case")) {
            s_reset();
            hc_case_begin(t[1]);
        } else if (n == 4 && ((which = 0, !strcmp(op, "b64enc")) || (which = 1, !strcmp(op, "b64dec")) ||
                              (which = 2, !strcmp(op, "hexenc")) || (which = 3, !strcmp(op, "hexdec")) ||
                              (which = 4, !strcmp(op, "hexencdyn")))) {
            size_t inlen;
            uint8_t *in = hc_hex_decode(t[1], &inlen);
            size_t outlen = hc_parse_size(t[2]), cap = hc_parse_size(t[3]);
            if (cap > (1u << 24) || (which == 4 && outlen > cap)) {
                printf("bad-op\n");
            } else {
                s_run_out(op, which, in, inlen, outlen, cap, which == 0 || which == 4, which == 4);
            }
            free(in);
        } else if (n == 2 && ((which = 0, !strcmp(op, "b64enclen")) || (which = 1, !strcmp(op, "hexenclen")) ||
                              (which = 2, !strcmp(op, "hexdeclen")))) {
            s_run_len(op, which, hc_parse_size(t[1]), NULL, 0);
        } else if (n == 2 && !strcmp(op, "b64declen")) {
            size_t inlen;
            uint8_t *in = hc_hex_decode(t[1], &inlen);
            s_run_len(op, 3, 0, in, inlen);
            free(in);
        } else if (n == 4 && ((which = 0, !strcmp(op, "b64enchuge")) || (which = 1, !strcmp(op, "hexenchuge")) ||
                              (which = 2, !strcmp(op, "hexdechuge")) || (which = 3, !strcmp(op, "hexdynhuge")))) {
            s_run_huge(op, which, hc_parse_size(t[1]), hc_parse_size(t[2]), hc_parse_size(t[3]));
        } else if (!strcmp(op, "u8")) {
            /* concatenate the chunks, remember the cuts */
            char errs[2][64], errn[2][64];
            static uint8_t text[HC_MAX_LINE / 2];
            static size_t cut[HC_MAX_TOKS + 1];
            size_t total = 0;
            cut[0] = 0;
            for (int k = 1; k < n; ++k) {
                size_t len;
                uint8_t *c = hc_hex_decode(t[k], &len);
                memcpy(text + total, c, len);
                total += len;
                cut[k] = total;
                free(c);
            }
            static struct cplog dummy;
            for (int b = 0; b < 2; ++b) {
                s_run_chunks(&s_builds[b], (total & 1) ? 3 : 0, &s_log[b], text, cut, (size_t)(n - 1), errs[b], sizeof(errs[b]));
                s_put_u8(op, s_builds[b].name, errs[b], &s_log[b]);
                s_run_chunks(&s_builds[b], 1 + (n & 1), &dummy, text, cut, (size_t)(n - 1), errn[b], sizeof(errn[b]));
                s_put_u8_nocb(op, s_builds[b].name, errn[b]);
            }
            printf("P %s same=%d\n", op, !strcmp(errs[0], errs[1]) && !strcmp(errn[0], errn[1]) && s_log_same());
        } else if (n >= 2 && !strcmp(op, "u8f")) {
            /* callback installed and failing on its k-th call (from 0) */
            char errs[2][64];
            static uint8_t text[HC_MAX_LINE / 2];
            static size_t cut[HC_MAX_TOKS + 1];
            size_t total = 0;
            long k = atol(t[1]);
            cut[0] = 0;
            for (int j = 2; j < n; ++j) {
                size_t len;
                uint8_t *c = hc_hex_decode(t[j], &len);
                memcpy(text + total, c, len);
                total += len;
                cut[j - 1] = total;
                free(c);
            }
            for (int b = 0; b < 2; ++b) {
                s_fail_at = k;
                s_run_chunks(&s_builds[b], (n & 1) ? 3 : 0, &s_log[b], text, cut, (size_t)(n - 2), errs[b], sizeof(errs[b]));
                s_fail_at = -1;
                printf("P u8f %s failcb=%ld rc=%s cps=", s_builds[b].name, k, errs[b]);
                s_put_cps(&s_log[b]);
                printf("\n");
            }
            printf("P %s same=%d\n", op, !strcmp(errs[0], errs[1]) && s_log_same());
        } else if (n == 2 && !strcmp(op, "u8one")) {
            char errs[2][64], errn[2][64];
            static struct cplog dummy;
            size_t len;
            uint8_t *c = hc_hex_decode(t[1], &len);
            for (int b = 0; b < 2; ++b) {
                s_one_shot(&s_builds[b], (len & 2) ? 3 : 0, &s_log[b], c, len, errs[b], sizeof(errs[b]));
                s_put_u8(op, s_builds[b].name, errs[b], &s_log[b]);
                s_one_shot(&s_builds[b], 1 + (int)(len & 1), &dummy, c, len, errn[b], sizeof(errn[b]));
                s_put_u8_nocb(op, s_builds[b].name, errn[b]);
            }
            free(c);
            printf("P %s same=%d\n", op, !strcmp(errs[0], errs[1]) && !strcmp(errn[0], errn[1]) && s_log_same());
        } else if (n == 2 && !strcmp(op, "u8all")) {
            size_t len;
            uint8_t *c = hc_hex_decode(t[1], &len);
            if (len > 16) {
                printf("bad-op\n");
            } else {
                s_u8all(c, len);
            }
            free(c);
        } else if (n == 1 && !strcmp(op, "u8new")) {
            s_reset();
            for (int b = 0; b < 2; ++b) {
                struct aws_utf8_decoder_options opt = {s_on_cp, &s_log[b]};
                struct aws_utf8_decoder_options optn = {NULL, NULL};
                s_dec[b][0] = s_builds[b].u8_new(hc_allocator(), &opt);
                s_dec[b][1] = s_builds[b].u8_new(hc_allocator(), b == 0 ? &optn : NULL);
            }
        } else if (n == 2 && !strcmp(op, "u8upd") && s_dec[0][0]) {
            char errs[2][64], errn[2][64];
            size_t len;
            uint8_t *c = hc_hex_decode(t[1], &len);
            for (int b = 0; b < 2; ++b) {
                s_log[b].n = 0;
                aws_reset_error();
                int rc = s_builds[b].u8_update(s_dec[b][0], aws_byte_cursor_from_array(c, len));
                snprintf(errs[b], sizeof(errs[b]), "%s", hc_err(rc));
                s_put_u8(op, s_builds[b].name, errs[b], &s_log[b]);
                aws_reset_error();
                rc = s_builds[b].u8_update(s_dec[b][1], aws_byte_cursor_from_array(c, len));
                snprintf(errn[b], sizeof(errn[b]), "%s", hc_err(rc));
                s_put_u8_nocb(op, s_builds[b].name, errn[b]);
            }
            free(c);
            printf("P %s same=%d\n", op, !strcmp(errs[0], errs[1]) && !strcmp(errn[0], errn[1]) && s_log_same());
        } else if (n == 1 && !strcmp(op, "u8fin") && s_dec[0][0]) {
            char errs[2][64], errn[2][64];
            for (int b = 0; b < 2; ++b) {
                s_log[b].n = 0;
                aws_reset_error();
                int rc = s_builds[b].u8_finalize(s_dec[b][0]);
                snprintf(errs[b], sizeof(errs[b]), "%s", hc_err(rc));
                s_put_u8(op, s_builds[b].name, errs[b], &s_log[b]);
                aws_reset_error();
                rc = s_builds[b].u8_finalize(s_dec[b][1]);
                snprintf(errn[b], sizeof(errn[b]), "%s", hc_err(rc));
                s_put_u8_nocb(op, s_builds[b].name, errn[b]);
            }
            printf("P %s same=%d\n", op, !strcmp(errs[0], errs[1]) && !strcmp(errn[0], errn[1]));
        } else if (n == 1 && !strcmp(op, "u8reset") && s_dec[0][0]) {
            for (int b = 0; b < 2; ++b) {
                s_builds[b].u8_reset(s_dec[b][0]);
                s_builds[b].u8_reset(s_dec[b][1]);
            }
        } else {
            printf("bad-op\n");
        }
    }
    s_reset();
    return 0;
}
