/* C08 harness: the real aws_thread_scheduler under harness/detsched.c (DESIGN.md 4.4, 5.8).
 *
 * One case = a set of client programs + a schedule source.  Thread ordinals under detsched:
 *   t0 = this harness' main function (creates the scheduler, takes one reference per client,
 *        starts the clients, joins them); t1 = the scheduler's own thread (s_thread_fn);
 *   t(2+i) = client i.
 *
 * Input lines (after `case <n>`):
 *   cfg <nclients> <seed|choices|explicit> <seed> <stay_pct> <spurious_permille> [<clock_tick_ns>]
 *                        (clock_tick_ns: every clock_gettime advances virtual time by that much first)
 *   prog <i> <op>...     ops: sn <t> | sf <t> <delta_ns> | sa <t> <abs_ns> | c <t> | acq | rel | sl <ns>
 *                        (sf time = virtual start time + delta; sa = absolute time, MAX / MAX-k allowed;
 *                        sl = nanosleep in virtual time)
 *   cb <t> <R|C> <op>    what task t's function does when invoked with RUN (R) / CANCELED (C):
 *                        one of sn / sf / sa / c as above, executed on the invoking thread (re-entrant API use)
 *   topt <cpu_id> <name|-> <inject>   thread options given to aws_thread_scheduler_new: cpu pinning and a thread name;
 *                        inject = 1: the first pthread_create of the run fails with EINVAL (as for a cpu the OS refuses),
 *                        so aws_thread_launch discards its first wrapper and retries unpinned
 *   choices <k>...       DS_CHOICES list      picks <p>...   DS_EXPLICIT list (several lines append)
 *   evs ...              (for the model driver; ignored here)
 *   run
 * Output: W ev lines (the events on the scheduler's mutex / condition variable / two atomics and
 * the join of t1, in schedule order), P lines (invocation log, final release, leak, scheduler
 * verdict).  In seed/choices mode additionally `X picks` / `X evs` lines: the schedule actually
 * taken, from which props/c08.py builds the explicit replay case. */
#include "detsched.h"
#include "h_common.h"
#include <aws/common/byte_buf.h>
#include <aws/common/task_scheduler.h>
#include <aws/common/thread.h>
#include <aws/common/thread_scheduler.h>
#include <errno.h>
#include <pthread.h>
#include <stdlib.h>
#include <string.h>
#include <time.h>
#include <fcntl.h>
#include <signal.h>
#include <unistd.h>

#define MAXC 4
#define MAXOPS 64
#define MAXT 32
#define MAXLOG 256
#define MAXLIST 65536
#define START_NS 1000000000ULL

enum opk { OP_NONE, OP_SN, OP_SF, OP_SA, OP_C, OP_ACQ, OP_REL, OP_SL };
struct op {
    enum opk k;
    int t;
    uint64_t v;
};

static int s_nclients;
static struct op s_cb[MAXT][2]; /* [task][0 = RUN, 1 = CANCELED] */
static struct op s_prog[MAXC][MAXOPS];
static int s_nops[MAXC];
static char s_mode[16];
static uint64_t s_seed;
static unsigned s_stay, s_spur;
static uint64_t s_tick;
static int s_opt_set, s_opt_cpu, s_opt_inject;
static char s_opt_name[32];
static int s_list[MAXLIST];
static size_t s_nlist;

static struct aws_thread_scheduler *s_sched;
static struct aws_task s_tasks[MAXT];
static uint64_t s_req[MAXT]; /* requested absolute time (0 = now) */
static struct {
    int task, status, thr;
    uint64_t now;
    int after_release;
} s_log[MAXLOG];
static int s_nlog;
static int s_total_releases, s_returned, s_released, s_released_by;

/* the allocator the scheduler is given: acquired memory is filled with 0xA5 and there is no mem_calloc, so that
 * aws_mem_calloc is the library's acquire + memset emulation and anything the code leaves uninitialised is dirty */
static void *s_dirty_acquire(struct aws_allocator *a, size_t size) {
    (void)a;
    void *p = aws_mem_acquire(hc_allocator(), size);
    if (p) {
        memset(p, 0xA5, size);
    }
    return p;
}
static void s_dirty_release(struct aws_allocator *a, void *p) {
    (void)a;
    aws_mem_release(hc_allocator(), p);
}
static struct aws_allocator s_dirty = {.mem_acquire = s_dirty_acquire, .mem_release = s_dirty_release};

static void s_api(const struct op *o) {
    switch (o->k) {
        case OP_SN:
            s_req[o->t] = 0;
            aws_thread_scheduler_schedule_now(s_sched, &s_tasks[o->t]);
            break;
        case OP_SF:
            s_req[o->t] = START_NS + o->v;
            aws_thread_scheduler_schedule_future(s_sched, &s_tasks[o->t], START_NS + o->v);
            break;
        case OP_SA:
            s_req[o->t] = o->v;
            aws_thread_scheduler_schedule_future(s_sched, &s_tasks[o->t], o->v);
            break;
        case OP_C:
            aws_thread_scheduler_cancel_task(s_sched, &s_tasks[o->t]);
            break;
        default:
            break;
    }
}

static void s_task_fn(struct aws_task *task, void *arg, enum aws_task_status status) {
    (void)arg;
    int t = (int)(task - s_tasks);
    if (s_nlog < MAXLOG) {
        s_log[s_nlog].task = t;
        s_log[s_nlog].status = (int)status;
        s_log[s_nlog].thr = ds_self_ordinal();
        s_log[s_nlog].now = ds_now();
        s_log[s_nlog].after_release = s_released;
        s_nlog++;
    }
    /* the task function re-enters the scheduler API on the invoking thread */
    s_api(&s_cb[t][status == AWS_TASK_STATUS_RUN_READY ? 0 : 1]);
}

static void *s_client(void *arg) {
    int me = (int)(intptr_t)arg;
    for (int i = 0; i < s_nops[me]; ++i) {
        struct op *o = &s_prog[me][i];
        switch (o->k) {
            case OP_SN:
            case OP_SF:
            case OP_SA:
            case OP_C:
                s_api(o);
                break;
            case OP_ACQ:
                aws_thread_scheduler_acquire(s_sched);
                break;
            case OP_REL:
                aws_thread_scheduler_release(s_sched);
                /* the release that ran the destroy callback is the last one to return (see props/c08.py) */
                if (++s_returned == s_total_releases) {
                    s_released = 1;
                    s_released_by = me;
                }
                break;
            case OP_NONE:
                break;
            case OP_SL: {
                struct timespec ts = {.tv_sec = (time_t)(o->v / 1000000000ULL), .tv_nsec = (long)(o->v % 1000000000ULL)};
                nanosleep(&ts, NULL);
                break;
            }
        }
    }
    return NULL;
}

static void s_main(void *arg) {
    (void)arg;
    struct aws_thread_options topt = *aws_default_thread_options();
    if (s_opt_set) {
        topt.cpu_id = s_opt_cpu;
        if (strcmp(s_opt_name, "-")) {
            topt.name = aws_byte_cursor_from_c_str(s_opt_name);
        }
    }
    s_sched = aws_thread_scheduler_new(&s_dirty, &topt);
    HC_CHECK(s_sched != NULL);
    for (int i = 1; i < s_nclients; ++i) {
        aws_thread_scheduler_acquire(s_sched);
    }
    pthread_t th[MAXC];
    for (int i = 0; i < s_nclients; ++i) {
        HC_CHECK(pthread_create(&th[i], NULL, s_client, (void *)(intptr_t)i) == 0);
    }
    for (int i = 0; i < s_nclients; ++i) {
        pthread_join(th[i], NULL);
    }
}

static void s_reset_case(void) {
    s_nclients = 0;
    memset(s_nops, 0, sizeof(s_nops));
    memset(s_cb, 0, sizeof(s_cb));
    s_nlist = 0;
    strcpy(s_mode, "seed");
    s_seed = 1;
    s_stay = 50;
    s_spur = 0;
    s_tick = 0;
    s_opt_set = 0;
    s_opt_inject = 0;
}

static const char *s_who(int ord, char *buf) {
    if (ord == 1) {
        return "S";
    }
    if (ord >= 2) {
        sprintf(buf, "C%d", ord - 2);
        return buf;
    }
    return "M";
}

/* events that are modelled: thread t1 or a client, on the scheduler's mutex / condvar / atomics, join of t1 */
static int s_event_text(const struct ds_event *e, char *out) {
    if (e->thread < 1) {
        return 0;
    }
    char wb[16];
    const char *who = s_who(e->thread, wb);
    switch (e->kind) {
        case DS_LOCK:
            sprintf(out, "%s lock", who);
            return 1;
        case DS_UNLOCK:
            sprintf(out, "%s unlock", who);
            return 1;
        case DS_WAIT:
            sprintf(out, "%s wait", who);
            return 1;
        case DS_WAKE:
            sprintf(out, "%s wake %d", who, e->aux == 0 ? 0 : 1);
            return 1;
        case DS_SIGNAL:
            sprintf(out, "%s signal %d", who, e->aux >= 0 ? 1 : 0);
            return 1;
        case DS_BROADCAST:
            sprintf(out, "%s broadcast %d", who, e->aux);
            return 1;
        case DS_ATOMIC:
            sprintf(out, "%s %s", who, e->aux == 0 ? "load" : e->aux == 1 ? "store" : e->aux == 2 ? "rmw" : "atomic?");
            return 1;
        case DS_JOIN:
            if (e->thread >= 2 && e->obj == 1) {
                sprintf(out, "%s join", who);
                return 1;
            }
            return 0;
        case DS_SPURIOUS_EV:
            sprintf(out, "%s spurious", who);
            return 1;
        default:
            return 0;
    }
}

/* the programs must follow the reference discipline (each client owns a reference while it uses the scheduler and
 * ends owning none) and schedule every task at most once; anything else is a malformed case, not a test */
/* Wall-clock watchdog per case: a hang that never reaches a schedule point (an endless loop inside the library) is
 * invisible to detsched.  A case normally takes milliseconds; after WATCHDOG_S seconds the handler reports and leaves.
 * Every such exit is recorded in the file named by TSCHED_HANG_FILE (one byte per hang); once HANG_LIMIT hangs are on
 * record the remaining cases are not run any more (each would cost another WATCHDOG_S seconds), they only say so. */
#define WATCHDOG_S 8
#define HANG_LIMIT 3
static void s_on_alarm(int sig) {
    (void)sig;
    static const char msg[] = "P MONITOR wall-clock watchdog: no progress for 8 s (hang outside any schedule point)\n";
    ssize_t r = write(1, msg, sizeof(msg) - 1);
    (void)r;
    const char *f = getenv("TSCHED_HANG_FILE");
    if (f) {
        int fd = open(f, O_WRONLY | O_CREAT | O_APPEND, 0644);
        if (fd >= 0) {
            r = write(fd, "h", 1);
            close(fd);
        }
    }
    _exit(3);
}

static int s_hangs_on_record(void) {
    const char *f = getenv("TSCHED_HANG_FILE");
    if (!f) {
        return 0;
    }
    int fd = open(f, O_RDONLY);
    if (fd < 0) {
        return 0;
    }
    char buf[64];
    ssize_t n = read(fd, buf, sizeof(buf));
    close(fd);
    return n > 0 ? (int)n : 0;
}

static int s_programs_ok(void) {
    int seen[MAXT] = {0};
    for (int c = 0; c < s_nclients; ++c) {
        int held = 1;
        for (int i = 0; i < s_nops[c]; ++i) {
            struct op *o = &s_prog[c][i];
            if (held < 1) {
                return 0;
            }
            if (o->k == OP_ACQ) {
                held++;
            } else if (o->k == OP_REL) {
                held--;
            } else if (o->k == OP_SN || o->k == OP_SF || o->k == OP_SA) {
                if (seen[o->t]++) {
                    return 0;
                }
            }
        }
        if (held != 0) {
            return 0;
        }
    }
    for (int t = 0; t < MAXT; ++t) {
        for (int k = 0; k < 2; ++k) {
            struct op *o = &s_cb[t][k];
            if ((o->k == OP_SN || o->k == OP_SF || o->k == OP_SA) && seen[o->t]++) {
                return 0;
            }
        }
    }
    return 1;
}

static void s_run_case(void) {
    /* aws_task_init has to establish every field itself: hand it dirty memory */
    memset(s_tasks, 0xA5, sizeof(s_tasks));
    memset(s_req, 0, sizeof(s_req));
    for (int i = 0; i < MAXT; ++i) {
        aws_task_init(&s_tasks[i], s_task_fn, NULL, "c08");
    }
    s_nlog = 0;
    s_returned = 0;
    s_released = 0;
    s_released_by = -1;
    s_total_releases = 0;
    for (int c = 0; c < s_nclients; ++c) {
        for (int i = 0; i < s_nops[c]; ++i) {
            if (s_prog[c][i].k == OP_REL) {
                s_total_releases++;
            }
        }
    }
    long base_blocks = hc_live_blocks();
    if (s_hangs_on_record() >= HANG_LIMIT) {
        printf("P MONITOR not run: %d earlier cases of this run hung\n", HANG_LIMIT);
        fflush(stdout);
        return;
    }
    fflush(stdout);
    signal(SIGALRM, s_on_alarm);
    alarm(WATCHDOG_S);

    struct ds_config cfg;
    memset(&cfg, 0, sizeof(cfg));
    int record = 1;
    if (!strcmp(s_mode, "explicit")) {
        cfg.mode = DS_EXPLICIT;
        cfg.list = s_list;
        cfg.list_len = s_nlist;
        record = 0;
    } else if (!strcmp(s_mode, "choices")) {
        cfg.mode = DS_CHOICES;
        cfg.list = s_list;
        cfg.list_len = s_nlist;
    } else {
        cfg.mode = DS_SEED;
        cfg.seed = s_seed;
    }
    cfg.stay_pct = s_stay;
    cfg.spurious_permille = s_spur;
    cfg.quantum = 64;
    cfg.start_ns = START_NS;
    cfg.clock_tick_ns = s_tick;
    cfg.max_steps = 20000;
    ds_init(&cfg);
    ds_inject_create_failure(s_opt_set && s_opt_inject ? 0 : -1, EINVAL);
    int rc = ds_run(s_main, NULL);
    alarm(0);

    char buf[128], wb[16];
    size_t nev = ds_event_count();
    for (size_t i = 0; i < nev; ++i) {
        if (s_event_text(ds_event_at(i), buf)) {
            printf("W ev %s\n", buf);
        }
    }
    for (int i = 0; i < s_nlog; ++i) {
        int early = s_log[i].status == AWS_TASK_STATUS_RUN_READY && s_log[i].now < s_req[s_log[i].task];
        printf(
            "P inv %d %s %s early=%d\n",
            s_log[i].task,
            s_log[i].status == AWS_TASK_STATUS_RUN_READY ? "RUN" : s_log[i].status == AWS_TASK_STATUS_CANCELED ? "CANCELED" : "?",
            s_who(s_log[i].thr, wb),
            early);
        printf("W inv_at %d %llu\n", s_log[i].task, (unsigned long long)s_log[i].now);
    }
    int after = 0;
    for (int i = 0; i < s_nlog; ++i) {
        after += s_log[i].after_release;
    }
    if (s_released) {
        printf("P released 1 by=C%d after=%d\n", s_released_by, after);
    } else {
        printf("P released 0 by=- after=%d\n", after);
    }
    if (rc == 0) {
        printf("P leak %d\n", hc_live_blocks() != base_blocks);
    }
    printf("P sched deadlock=%d livelock=%d misuse=%d\n", ds_deadlocked(), ds_livelocked(), ds_misuse_count());
    printf("W diverged %d\n", ds_diverged());
    if (record) {
        const int *picks;
        size_t np = ds_schedule(&picks);
        printf("X picks");
        for (size_t i = 0; i < np; ++i) {
            printf(" %d", picks[i]);
        }
        printf("\nX evs");
        for (size_t i = 0; i < nev; ++i) {
            const struct ds_event *e = ds_event_at(i);
            if (s_event_text(e, buf)) {
                /* who.kind.aux.time */
                const char *k = ds_kind_name(e->kind);
                printf(" %s.%s.%d.%llu", s_who(e->thread, wb), k, e->aux, (unsigned long long)e->time);
            }
        }
        printf("\n");
    }
    if (rc != 0) {
        char blk[512];
        ds_describe_blocked(blk, sizeof(blk));
        printf("P MONITOR scheduler-run-failed rc=%d blocked: %s\n", rc, blk);
        fflush(stdout);
        _exit(3); /* library state is garbage after a deadlock */
    }
    fflush(stdout);
}

/* parses one op starting at t[i]; returns the number of tokens consumed, 0 on error */
static int s_parse_op(char **t, int i, int n, struct op *o) {
    int used = 0;
    memset(o, 0, sizeof(*o));
    if (!strcmp(t[i], "sn") && i + 1 < n) {
        o->k = OP_SN;
        o->t = atoi(t[i + 1]);
        used = 2;
    } else if (!strcmp(t[i], "sf") && i + 2 < n) {
        o->k = OP_SF;
        o->t = atoi(t[i + 1]);
        o->v = hc_parse_u64(t[i + 2]);
        used = 3;
    } else if (!strcmp(t[i], "sa") && i + 2 < n) {
        o->k = OP_SA;
        o->t = atoi(t[i + 1]);
        o->v = hc_parse_u64(t[i + 2]);
        used = 3;
    } else if (!strcmp(t[i], "c") && i + 1 < n) {
        o->k = OP_C;
        o->t = atoi(t[i + 1]);
        used = 2;
    } else if (!strcmp(t[i], "acq")) {
        o->k = OP_ACQ;
        used = 1;
    } else if (!strcmp(t[i], "rel")) {
        o->k = OP_REL;
        used = 1;
    } else if (!strcmp(t[i], "sl") && i + 1 < n) {
        o->k = OP_SL;
        o->v = hc_parse_u64(t[i + 1]);
        used = 2;
    } else {
        return 0;
    }
    if ((o->k == OP_SN || o->k == OP_SF || o->k == OP_SA || o->k == OP_C) && (o->t < 0 || o->t >= MAXT)) {
        return 0;
    }
    return used;
}

static int s_parse_prog(char **t, int n) {
    int c = atoi(t[1]);
    if (c < 0 || c >= MAXC) {
        return 0;
    }
    int k = 0;
    for (int i = 2; i < n;) {
        if (k >= MAXOPS) {
            return 0;
        }
        int used = s_parse_op(t, i, n, &s_prog[c][k]);
        if (!used) {
            return 0;
        }
        i += used;
        k++;
    }
    s_nops[c] = k;
    return 1;
}

static int s_parse_cb(char **t, int n) {
    if (n < 4) {
        return 0;
    }
    int task = atoi(t[1]);
    int k = !strcmp(t[2], "R") ? 0 : !strcmp(t[2], "C") ? 1 : -1;
    if (task < 0 || task >= MAXT || k < 0) {
        return 0;
    }
    struct op o;
    int used = s_parse_op(t, 3, n, &o);
    if (!used || 3 + used != n || !(o.k == OP_SN || o.k == OP_SF || o.k == OP_SA || o.k == OP_C)) {
        return 0;
    }
    s_cb[task][k] = o;
    return 1;
}

int main(void) {
    char *t[HC_MAX_TOKS];
    int n;
    aws_common_library_init(hc_allocator());
    s_reset_case();
    while ((n = hc_next_line(t)) >= 0) {
        if (!strcmp(t[0], "case")) {
            s_reset_case();
            hc_case_begin(t[1]);
        } else if (!strcmp(t[0], "cfg") && (n == 6 || n == 7)) {
            s_tick = n == 7 ? hc_parse_u64(t[6]) : 0;
            s_nclients = atoi(t[1]);
            strncpy(s_mode, t[2], sizeof(s_mode) - 1);
            s_seed = hc_parse_u64(t[3]);
            s_stay = (unsigned)atoi(t[4]);
            s_spur = (unsigned)atoi(t[5]);
            if (s_nclients < 1 || s_nclients > 3) {
                printf("bad-op\n");
                s_nclients = 0;
            }
        } else if (!strcmp(t[0], "prog") && n >= 2) {
            if (!s_parse_prog(t, n)) {
                printf("bad-op\n");
            }
        } else if (!strcmp(t[0], "topt") && n == 4) {
            s_opt_set = 1;
            s_opt_cpu = atoi(t[1]);
            strncpy(s_opt_name, t[2], sizeof(s_opt_name) - 1);
            s_opt_name[sizeof(s_opt_name) - 1] = 0;
            s_opt_inject = atoi(t[3]);
        } else if (!strcmp(t[0], "cb")) {
            if (!s_parse_cb(t, n)) {
                printf("bad-op\n");
            }
        } else if ((!strcmp(t[0], "picks") || !strcmp(t[0], "choices"))) {
            for (int i = 1; i < n && s_nlist < MAXLIST; ++i) {
                s_list[s_nlist++] = atoi(t[i]);
            }
        } else if (!strcmp(t[0], "evs")) {
            /* model side only */
        } else if (!strcmp(t[0], "run") && n == 1) {
            if (s_nclients == 0 || !s_programs_ok()) {
                printf("bad-op\n");
            } else {
                s_run_case();
            }
        } else {
            printf("bad-op\n");
        }
    }
    return 0;
}
