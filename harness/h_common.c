#include "h_common.h"
#include <aws/common/error.h>
#include <stdlib.h>
#include <string.h>

static char *s_line;
static size_t s_cap;

int hc_next_line(char **toks) {
    for (;;) {
        ssize_t n = getline(&s_line, &s_cap, stdin);
        if (n < 0) {
            return -1;
        }
        while (n > 0 && (s_line[n - 1] == '\n' || s_line[n - 1] == '\r')) {
            s_line[--n] = 0;
        }
        if (n == 0 || s_line[0] == '#') {
            continue;
        }
        int nt = 0;
        char *p = s_line;
        while (nt < HC_MAX_TOKS) {
            toks[nt++] = p;
            char *q = strchr(p, ' ');
            if (!q) {
                break;
            }
            *q = 0;
            p = q + 1;
        }
        return nt;
    }
}

void hc_case_begin(const char *n) {
    printf("case %s\n", n);
    fflush(stdout);
}

size_t hc_parse_size(const char *s) {
    size_t base;
    const char *r;
    if (!strncmp(s, "MAX", 3)) {
        base = SIZE_MAX;
        r = s + 3;
    } else if (!strncmp(s, "HALF", 4)) {
        base = SIZE_MAX / 2;
        r = s + 4;
    } else {
        return (size_t)strtoull(s, NULL, 10);
    }
    if (*r == '+') {
        return base + (size_t)strtoull(r + 1, NULL, 10);
    }
    if (*r == '-') {
        return base - (size_t)strtoull(r + 1, NULL, 10);
    }
    return base;
}

uint64_t hc_parse_u64(const char *s) {
    if (s[0] == '0' && s[1] == 'x') {
        return strtoull(s + 2, NULL, 16);
    }
    return (uint64_t)hc_parse_size(s);
}

int64_t hc_parse_i64(const char *s) {
    return (int64_t)strtoll(s, NULL, 10);
}

static int s_hexval(char c) {
    if (c >= '0' && c <= '9') {
        return c - '0';
    }
    if (c >= 'a' && c <= 'f') {
        return c - 'a' + 10;
    }
    if (c >= 'A' && c <= 'F') {
        return c - 'A' + 10;
    }
    return -1;
}

uint8_t *hc_hex_decode(const char *s, size_t *len) {
    if (!strcmp(s, "-")) {
        *len = 0;
        return malloc(1);
    }
    size_t n = strlen(s);
    HC_CHECK(n % 2 == 0);
    uint8_t *out = malloc(n / 2 ? n / 2 : 1);
    for (size_t i = 0; i < n / 2; ++i) {
        int a = s_hexval(s[2 * i]), b = s_hexval(s[2 * i + 1]);
        HC_CHECK(a >= 0 && b >= 0);
        out[i] = (uint8_t)(a * 16 + b);
    }
    *len = n / 2;
    return out;
}

void hc_put_hex(const uint8_t *p, size_t n) {
    static const char *d = "0123456789abcdef";
    if (n == 0) {
        putchar('-');
        return;
    }
    for (size_t i = 0; i < n; ++i) {
        putchar(d[p[i] >> 4]);
        putchar(d[p[i] & 15]);
    }
}

const char *hc_last_error_name(void) {
    return aws_error_name(aws_last_error());
}

const char *hc_err(int rc) {
    if (rc == AWS_OP_SUCCESS) {
        return "OK";
    }
    return hc_last_error_name();
}

/* ---- counting allocator ---- */
static long s_live_blocks, s_live_bytes, s_fail_after = -1;
struct hdr {
    size_t size;
    size_t pad;
};

static int s_should_fail(void) {
    if (s_fail_after < 0) {
        return 0;
    }
    if (s_fail_after == 0) {
        s_fail_after = -1;
        return 1;
    }
    --s_fail_after;
    return 0;
}

static void *s_acquire(struct aws_allocator *a, size_t size) {
    (void)a;
    if (s_should_fail()) {
        return NULL;
    }
    struct hdr *h = malloc(sizeof(struct hdr) + size);
    if (!h) {
        return NULL;
    }
    h->size = size;
    __atomic_fetch_add(&s_live_blocks, 1, __ATOMIC_SEQ_CST);
    __atomic_fetch_add(&s_live_bytes, (long)size, __ATOMIC_SEQ_CST);
    return h + 1;
}

static void s_release(struct aws_allocator *a, void *p) {
    (void)a;
    if (!p) {
        return;
    }
    struct hdr *h = (struct hdr *)p - 1;
    __atomic_fetch_sub(&s_live_blocks, 1, __ATOMIC_SEQ_CST);
    __atomic_fetch_sub(&s_live_bytes, (long)h->size, __ATOMIC_SEQ_CST);
    free(h);
}

static void *s_realloc(struct aws_allocator *a, void *p, size_t oldsize, size_t newsize) {
    (void)oldsize;
    if (!p) {
        return s_acquire(a, newsize);
    }
    if (s_should_fail()) {
        return NULL;
    }
    /* always move: a fresh exact-size block makes stale pointers visible to ASan */
    struct hdr *h = (struct hdr *)p - 1;
    void *n = s_acquire(a, newsize);
    if (!n) {
        return NULL;
    }
    memcpy(n, p, h->size < newsize ? h->size : newsize);
    s_release(a, p);
    return n;
}

static void *s_calloc(struct aws_allocator *a, size_t num, size_t size) {
    void *p = s_acquire(a, num * size);
    if (p) {
        memset(p, 0, num * size);
    }
    return p;
}

static struct aws_allocator s_alloc = {
    .mem_acquire = s_acquire,
    .mem_release = s_release,
    .mem_realloc = s_realloc,
    .mem_calloc = s_calloc,
};

struct aws_allocator *hc_allocator(void) {
    return &s_alloc;
}
long hc_live_blocks(void) {
    return s_live_blocks;
}
long hc_live_bytes(void) {
    return s_live_bytes;
}
void hc_alloc_fail_after(long n) {
    s_fail_after = n;
}
