/* C15 only: like verif_atomics.h (every atomic access of ring_buffer.c is a schedule point), and the memory order each
 * access was issued with is reported too, so that the acquire / release / relaxed orders the proof's memory-model
 * assumption rests on (tail: load-acquire / store-release, head: relaxed; aws_atomic_priv_xlate_order) are pinned by
 * the conformance stream. */
#ifndef VERIF_RING_ATOMICS_H
#define VERIF_RING_ATOMICS_H
void verif_sched_point_o(int kind, const volatile void *addr, int order);
#define __atomic_load_n(p, o) (verif_sched_point_o(0, (p), (o)), __atomic_load_n((p), (o)))
#define __atomic_store_n(p, v, o) (verif_sched_point_o(1, (p), (o)), __atomic_store_n((p), (v), (o)))
#endif
