/* C14 harness (background channel under harness/detsched.c): 1..4 real sender threads, the library's
 * background thread and clean-up, serialised by the deterministic scheduler.  The senders log through a pipeline
 * logger (aws_logger_init_from_external: default formatter, the channel under test, recording writer), so every line is
 * formatted by the library on the calling thread; each thread records its own id text once through the public
 * functions (`O tid s<i> <text>`) and the writer reports the "[thread id]" field of every line it receives.
 *
 * stdin, one run per line:
 *   run <id> <senders> <lines_per_sender> <delay> <quiesce> <wfail> seed <seed> <stay_pct> <spurious_permille>
 *   run <id> <senders> <lines_per_sender> <delay> <quiesce> <wfail> list <k> <pick>*k  (replay of a recorded schedule)
 *     wfail   = k > 0: every k-th write to the SINK fails and the sink then works again (disk full, then space again).
 *               The sink is a FILE* made with fopencookie (unbuffered): under the channels it sits behind the library's
 *               own file writer (aws_log_writer_init_file), which the recording writer calls after recording the line,
 *               returning its result; the no-alloc logger fwrite()s to it directly.  `O sink ...` / `F <hex>` report what
 *               reached it.
 *     delay   = schedule points the main thread lets pass before it stops the senders and calls clean-up
 *     quiesce = 1: before clean-up the main thread waits until every sender has sent everything, then gives
 *               the background thread up to 400 schedule points to drain (lost wake-up check)
 *     quiesce = 3: NO-ALLOC LOGGER instead of a channel: the threads log through aws_logger_init_noalloc into a
 *               tmpfile (AWS_LOGF; formatting happens before the logger's mutex is taken); the file is printed as
 *               `F <hex>` after the run and every call as `O logged t<i> <k> tid=<hex>`
 *     quiesce = 4: like 3 but the logger is aws_logger_init_standard (owned pipeline: file writer on the sink, default
 *               formatter, background channel, level from the options); aws_logger_clean_up must flush every line
 *     quiesce = 2: FOREGROUND channel instead (senders write under the channel's mutex; the writer yields inside
 *               the write so that an unprotected writer call would be seen overlapping)
 * stdout per run:
 *   run <id>
 *   E <i> t<k> <kind> <obj> <aux>      every scheduler event (thread 0 = main/clean-up, 1 = background thread, 2.. = senders)
 *   O <what>                           observables, placed after the event in whose step they happened:
 *       tid s<i> <text> | sent s<i> <k> | write s<i> <k> intact=<0|1> tid=<field> | destroy s<i> <k> | quiescent pending=<n> written=<n> |
 *       cleanup-returned written=<n> destroyed=<n> pending=<n> | MONITOR <text>
 *   S <picks>                          the schedule taken (replayable)
 *   R rc=<0 ok|1 deadlock|2 livelock> live_lines=<n> live_blocks=<n> misuse=<n> diverged=<0|1> [blocked=<…>]
 *
 * Senders stop (flag checked at a schedule point before each send) before clean-up is called and the main thread
 * waits until none of them is inside send: a send overlapping clean-up's free of the channel would be a
 * use-after-free of the caller's making, not a behaviour of the channel.  What races is clean-up against the
 * background thread's draining and the senders against each other and the background thread.
 */
#ifndef _GNU_SOURCE
#    define _GNU_SOURCE /* fopencookie */
#endif
#include "detsched.h"
#include "h_common.h"
#include <aws/common/log_channel.h>
#include <aws/common/log_formatter.h>
#include <aws/common/thread.h>
#include <aws/common/log_writer.h>
#include <aws/common/logging.h>
#include <aws/common/string.h>
#include <errno.h>
#include <stdio_ext.h>
#include <pthread.h>
#include <stdarg.h>
#include <stdlib.h>
#include <string.h>

enum { TAG_IDLE = 1, TAG_SEND = 2, TAG_WRITE = 3, TAG_DESTROY = 4, TAG_CLEAN = 5, TAG_WAITSTOP = 6, TAG_QUIESCE = 7, TAG_SINK = 8 };
#define MAX_SENDERS 8
#define MAX_LINES 64

/* ---- observables ---- */
struct obs {
    size_t stamp; /* number of scheduler events when it happened */
    char text[256];
};
static struct obs *s_obs;
static size_t s_nobs, s_capobs;
static void s_observe(const char *fmt, ...) {
    if (s_nobs == s_capobs) {
        s_capobs = s_capobs ? s_capobs * 2 : 256;
        s_obs = realloc(s_obs, s_capobs * sizeof(*s_obs));
    }
    va_list ap;
    va_start(ap, fmt);
    vsnprintf(s_obs[s_nobs].text, sizeof(s_obs[s_nobs].text), fmt, ap);
    va_end(ap);
    s_obs[s_nobs].stamp = ds_event_count();
    ++s_nobs;
}

/* ---- lines: tracked allocations so that every release is seen ---- */
enum { L_NONE = 0, L_LIVE, L_RELEASED };
static struct {
    void *ptr;
    int state;
    int writes;
} s_line[MAX_SENDERS][MAX_LINES];
static long s_live_lines;

static bool s_find_line(const void *p, int *si, int *ki) {
    for (int i = 0; i < MAX_SENDERS; ++i) {
        for (int k = 0; k < MAX_LINES; ++k) {
            if (s_line[i][k].ptr == p && s_line[i][k].state != L_NONE) {
                *si = i;
                *ki = k;
                return true;
            }
        }
    }
    return false;
}

/* the one block the default formatter allocates during a log call of sender (i,k) is that call's line */
static __thread int t_cur_i = -1, t_cur_k = -1;
static void *s_track_acquire(struct aws_allocator *a, size_t size) {
    (void)a;
    void *p = malloc(size);
    if (p && t_cur_i >= 0) {
        if (s_line[t_cur_i][t_cur_k].state != L_NONE) {
            s_observe("MONITOR second allocation during the log call of s%d %d", t_cur_i, t_cur_k);
        } else {
            s_line[t_cur_i][t_cur_k].ptr = p;
            s_line[t_cur_i][t_cur_k].state = L_LIVE;
            s_line[t_cur_i][t_cur_k].writes = 0;
            ++s_live_lines;
        }
    }
    return p;
}
static void s_track_release(struct aws_allocator *a, void *p) {
    (void)a;
    int i, k;
    if (p && s_find_line(p, &i, &k)) {
        ds_yield(TAG_DESTROY);
        if (s_line[i][k].state != L_LIVE) {
            s_observe("MONITOR line s%d %d released twice", i, k);
            return;
        }
        s_line[i][k].state = L_RELEASED;
        --s_live_lines;
        s_observe("destroy s%d %d", i, k);
        /* the block itself is kept until the end of the run (s_free_lines) so that a second release of the same
         * line is seen and reported here instead of being a read of freed memory inside aws_string_destroy */
        return;
    }
    free(p);
}
static void s_free_lines(void) {
    for (int i = 0; i < MAX_SENDERS; ++i) {
        for (int k = 0; k < MAX_LINES; ++k) {
            if (s_line[i][k].state != L_NONE) {
                free(s_line[i][k].ptr);
                s_line[i][k].state = L_NONE;
            }
        }
    }
}
static struct aws_allocator s_track = {.mem_acquire = s_track_acquire, .mem_release = s_track_release};

static void s_line_text(char *buf, size_t n, int i, int k) {
    snprintf(buf, n, "line from sender %d number %d payload ", i, k);
    size_t l = strlen(buf);
    for (int j = 0; j < 5 + (i * 7 + k * 3) % 40 && l + 2 < n; ++j) {
        buf[l++] = (char)('a' + (i + k + j) % 26);
    }
    buf[l] = 0;
}

/* id text of the calling thread, by the public functions */
static void s_own_tid(char *repr) {
    HC_CHECK(aws_thread_id_t_to_string(aws_thread_current_thread_id(), repr, AWS_THREAD_ID_T_REPR_BUFSZ) == AWS_OP_SUCCESS);
}

/* "[INFO] [<timestamp>] [<tid>] [aws-c-common] - <msg>\n": returns whether everything but the two bracketed fields is
 * exactly that, and copies the <tid> field out */
static bool s_parse_line(const uint8_t *p, size_t len, const char *msg, char *tid, size_t tidcap) {
    tid[0] = 0;
    const char *head = "[INFO] [";
    size_t hl = strlen(head);
    if (len < hl || memcmp(p, head, hl) != 0 || memchr(p, 0, len) != NULL) {
        return false;
    }
    const uint8_t *end = p + len;
    const uint8_t *q = p + hl;
    const uint8_t *ts_end = memchr(q, ']', (size_t)(end - q));
    if (!ts_end || end - ts_end < 3 || memcmp(ts_end, "] [", 3) != 0) {
        return false;
    }
    q = ts_end + 3;
    const uint8_t *tid_end = memchr(q, ']', (size_t)(end - q));
    if (!tid_end || (size_t)(tid_end - q) >= tidcap) {
        return false;
    }
    memcpy(tid, q, (size_t)(tid_end - q));
    tid[tid_end - q] = 0;
    char rest[256];
    snprintf(rest, sizeof(rest), "] [aws-c-common] - %s\n", msg);
    size_t rl = strlen(rest);
    return (size_t)(end - tid_end) == rl && memcmp(tid_end, rest, rl) == 0;
}

/* ---- the sink: a FILE* whose writes fail on schedule and then work again ---- */
static FILE *s_sink;
static uint8_t *s_sink_buf, *s_expect_buf;
static size_t s_sink_len, s_sink_cap, s_expect_len, s_expect_cap, s_sink_calls, s_sink_failures;
static int s_sink_fail_period;
static void s_append(uint8_t **buf, size_t *len, size_t *cap, const void *p, size_t n) {
    if (*len + n > *cap) {
        *cap = (*len + n) * 2 + 256;
        *buf = realloc(*buf, *cap);
    }
    memcpy(*buf + *len, p, n);
    *len += n;
}
static int s_in_sink;
static ssize_t s_sink_write(void *cookie, const char *buf, size_t n) {
    (void)cookie;
    /* a schedule point INSIDE the write to the sink: two threads in here at once = writes to the sink not serialised */
    if (++s_in_sink != 1) {
        s_observe("MONITOR %d writes to the sink overlap", s_in_sink);
    }
    ds_yield(TAG_SINK);
    --s_in_sink;
    ++s_sink_calls;
    if (s_sink_fail_period > 0 && s_sink_calls % (size_t)s_sink_fail_period == 0) {
        ++s_sink_failures;
        errno = ENOSPC;
        return 0;
    }
    s_append(&s_sink_buf, &s_sink_len, &s_sink_cap, buf, n);
    return (ssize_t)n;
}
static void s_sink_open(int fail_period) {
    cookie_io_functions_t io = {.read = NULL, .write = s_sink_write, .seek = NULL, .close = NULL};
    s_sink_len = s_expect_len = s_sink_calls = s_sink_failures = 0;
    s_in_sink = 0;
    s_sink_fail_period = fail_period;
    s_sink = fopencookie(NULL, "w", io);
    HC_CHECK(s_sink != NULL);
    setvbuf(s_sink, NULL, _IONBF, 0);
    /* no stdio-internal lock on the sink: two threads inside fwrite at once must be SEEN overlapping in s_sink_write
     * (schedule point inside), not block each other on a lock the scheduler knows nothing about */
    __fsetlocking(s_sink, FSETLOCKING_BYCALLER);
}
static struct aws_log_writer s_file_writer; /* the library's file writer on top of the sink */

/* ---- recording writer ---- */
static size_t s_written, s_destroyed_at_return;
static bool s_cleanup_returned;
static int s_in_writer;
static bool s_foreground;
static int s_wfail_period;
static size_t s_wcalls;
static int s_rec_write(struct aws_log_writer *writer, const struct aws_string *output) {
    (void)writer;
    if (++s_in_writer != 1) {
        s_observe("MONITOR %d writer calls overlap", s_in_writer);
    }
    ds_yield(TAG_WRITE);
    if (s_foreground) {
        ds_yield(TAG_IDLE); /* a second point inside the writer call */
    }
    --s_in_writer;
    int i, k;
    if (!s_find_line(output, &i, &k)) {
        s_observe("MONITOR write of an unknown line");
        return AWS_OP_SUCCESS;
    }
    char expect[160], tid[40];
    s_line_text(expect, sizeof(expect), i, k);
    bool intact = s_parse_line(output->bytes, output->len, expect, tid, sizeof(tid)) && s_line[i][k].state == L_LIVE &&
                  output->bytes[output->len] == 0;
    ++s_line[i][k].writes;
    ++s_written;
    s_observe("write s%d %d intact=%d tid=%s", i, k, intact, tid[0] ? tid : "?");
    if (s_cleanup_returned) {
        s_observe("MONITOR write after clean-up returned");
    }
    ++s_wcalls;
    /* hand the line on to the library's file writer; its fwrite fails when the sink says so */
    int rc = (s_file_writer.vtable->write)(&s_file_writer, output);
    if (rc == AWS_OP_SUCCESS) {
        s_append(&s_expect_buf, &s_expect_len, &s_expect_cap, output->bytes, output->len);
    }
    return rc;
}
static void s_rec_clean_up(struct aws_log_writer *writer) {
    (void)writer;
}
static struct aws_log_writer_vtable s_rec_vtable = {.write = s_rec_write, .clean_up = s_rec_clean_up};

/* ---- the run ---- */
static struct {
    int senders, lines, delay, quiesce, wfail;
} s_cfg;
static struct aws_log_channel s_channel;
static struct aws_log_writer s_writer;
static struct aws_log_formatter s_formatter;
static struct aws_logger s_logger;
static volatile int s_stop, s_active, s_senders_done;
static size_t s_sent;

static void *s_sender(void *arg) {
    int i = (int)(intptr_t)arg;
    char repr[AWS_THREAD_ID_T_REPR_BUFSZ];
    s_own_tid(repr);
    s_observe("tid s%d %s", i, repr);
    for (int k = 0; k < s_cfg.lines; ++k) {
        ds_yield(TAG_IDLE);
        if (s_stop) {
            break;
        }
        ++s_active;
        ds_yield(TAG_SEND);
        char text[160];
        s_line_text(text, sizeof(text), i, k);
        t_cur_i = i;
        t_cur_k = k;
        int rc = s_logger.vtable->log(&s_logger, AWS_LL_INFO, AWS_LS_COMMON_GENERAL, "%s", text);
        t_cur_i = t_cur_k = -1;
        if (rc != AWS_OP_SUCCESS) {
            /* the channel refused the line: s_aws_logger_pipeline_log has released it ("failure to send implies
             * failure to transfer ownership") */
            s_observe("sendfail s%d %d", i, k);
        }
        ++s_sent;
        s_observe("sent s%d %d", i, k);
        --s_active;
    }
    ++s_senders_done;
    return NULL;
}

static void s_main(void *arg) {
    (void)arg;
    s_writer.vtable = &s_rec_vtable;
    s_writer.allocator = hc_allocator();
    s_writer.impl = NULL;
    s_sink_open(s_wfail_period);
    struct aws_log_writer_file_options wo = {.filename = NULL, .file = s_sink};
    HC_CHECK(aws_log_writer_init_file(&s_file_writer, hc_allocator(), &wo) == AWS_OP_SUCCESS);
    if (s_foreground) {
        HC_CHECK(aws_log_channel_init_foreground(&s_channel, hc_allocator(), &s_writer) == AWS_OP_SUCCESS);
    } else {
        HC_CHECK(aws_log_channel_init_background(&s_channel, hc_allocator(), &s_writer) == AWS_OP_SUCCESS);
    }
    struct aws_log_formatter_standard_options fo = {.date_format = AWS_DATE_FORMAT_ISO_8601};
    HC_CHECK(aws_log_formatter_init_default(&s_formatter, &s_track, &fo) == AWS_OP_SUCCESS);
    HC_CHECK(
        aws_logger_init_from_external(&s_logger, hc_allocator(), &s_formatter, &s_channel, &s_writer, AWS_LL_TRACE) ==
        AWS_OP_SUCCESS);
    pthread_t th[MAX_SENDERS];
    for (int i = 0; i < s_cfg.senders; ++i) {
        HC_CHECK(pthread_create(&th[i], NULL, s_sender, (void *)(intptr_t)i) == 0);
    }
    if (s_cfg.quiesce == 1) {
        while (s_senders_done < s_cfg.senders) {
            ds_yield(TAG_QUIESCE);
        }
        for (int n = 0; n < 400 && s_written < s_sent; ++n) {
            ds_yield(TAG_QUIESCE);
        }
        s_observe("quiescent pending=%zu written=%zu", s_sent - s_written, s_written);
    } else {
        for (int n = 0; n < s_cfg.delay; ++n) {
            ds_yield(TAG_IDLE);
        }
    }
    s_stop = 1;
    while (s_active > 0) {
        ds_yield(TAG_WAITSTOP);
    }
    ds_yield(TAG_CLEAN);
    aws_log_channel_clean_up(&s_channel);
    s_cleanup_returned = true;
    aws_logger_clean_up(&s_logger);
    aws_log_formatter_clean_up(&s_formatter);
    aws_log_writer_clean_up(&s_file_writer);
    s_observe(
        "sink failures=%zu bytes=%zu expected=%zu match=%d", s_sink_failures, s_sink_len, s_expect_len,
        s_sink_len == s_expect_len && (s_sink_len == 0 || memcmp(s_sink_buf, s_expect_buf, s_sink_len) == 0));
    size_t destroyed = 0;
    for (int i = 0; i < MAX_SENDERS; ++i) {
        for (int k = 0; k < MAX_LINES; ++k) {
            destroyed += s_line[i][k].state == L_RELEASED;
        }
    }
    s_destroyed_at_return = destroyed;
    s_observe("cleanup-returned written=%zu destroyed=%zu pending=%zu", s_written, destroyed, s_sent - s_written);
    for (int i = 0; i < s_cfg.senders; ++i) {
        pthread_join(th[i], NULL);
    }
}

/* ---- the no-alloc logger driven by several threads ---- */
static struct aws_logger s_na_logger;
static FILE *s_na_file;

static void s_na_text(char *buf, size_t n, int i, int k) {
    snprintf(buf, n, "T%d N%d payload ", i, k);
    size_t l = strlen(buf);
    for (int j = 0; j < 3 + (i * 11 + k * 5) % 60 && l + 1 < n; ++j) {
        buf[l++] = (char)('a' + (i * 3 + k + j) % 26);
    }
    buf[l] = 0;
}

static void *s_na_thread(void *arg) {
    int i = (int)(intptr_t)arg;
    char repr[AWS_THREAD_ID_T_REPR_BUFSZ];
    s_own_tid(repr);
    s_observe("tid t%d %s", i, repr);
    for (int k = 0; k < s_cfg.lines; ++k) {
        ds_yield(TAG_IDLE);
        char text[160];
        s_na_text(text, sizeof(text), i, k);
        /* logger level is INFO: every third call is a DEBUG call and must leave no trace.  The gate is
         * aws_logger_get_conditional (so that the result of the log call can be observed) */
        enum aws_log_level lvl = k % 3 == 2 ? AWS_LL_DEBUG : (k % 3 == 1 ? AWS_LL_ERROR : AWS_LL_INFO);
        struct aws_logger *lg = aws_logger_get_conditional(AWS_LS_COMMON_GENERAL, lvl);
        if (lg == NULL) {
            s_observe("filtered t%d %d", i, k);
        } else {
            int rc = lg->vtable->log(lg, lvl, AWS_LS_COMMON_GENERAL, "%s", text);
            s_observe("logged t%d %d %s rc=%s", i, k, lvl == AWS_LL_ERROR ? "ERROR" : "INFO", rc == AWS_OP_SUCCESS ? "OK" : "ERR");
        }
    }
    return NULL;
}

static void s_main_noalloc(void *arg) {
    (void)arg;
    s_sink_open(s_wfail_period);
    s_na_file = s_sink;
    struct aws_logger_standard_options o = {.level = AWS_LL_INFO, .file = s_na_file};
    if (s_cfg.quiesce == 4) {
        HC_CHECK(aws_logger_init_standard(&s_na_logger, hc_allocator(), &o) == AWS_OP_SUCCESS);
    } else {
        HC_CHECK(aws_logger_init_noalloc(&s_na_logger, hc_allocator(), &o) == AWS_OP_SUCCESS);
    }
    aws_logger_set(&s_na_logger);
    pthread_t th[MAX_SENDERS];
    for (int i = 0; i < s_cfg.senders; ++i) {
        HC_CHECK(pthread_create(&th[i], NULL, s_na_thread, (void *)(intptr_t)i) == 0);
    }
    for (int i = 0; i < s_cfg.senders; ++i) {
        pthread_join(th[i], NULL);
    }
    aws_logger_set(NULL);
    aws_logger_clean_up(&s_na_logger);
    s_cleanup_returned = true;
    s_observe("cleanup-returned written=0 destroyed=0 pending=0");
}

int main(void) {
    char *t[HC_MAX_TOKS];
    int n;
    aws_common_library_init(hc_allocator());
    while ((n = hc_next_line(t)) >= 0) {
        if (strcmp(t[0], "run") != 0 || n < 9) {
            printf("bad-op\n");
            continue;
        }
        s_cfg.senders = atoi(t[2]);
        s_cfg.lines = atoi(t[3]);
        s_cfg.delay = atoi(t[4]);
        s_cfg.quiesce = atoi(t[5]);
        s_cfg.wfail = atoi(t[6]);
        HC_CHECK(s_cfg.senders >= 1 && s_cfg.senders <= MAX_SENDERS && s_cfg.lines >= 0 && s_cfg.lines <= MAX_LINES);
        struct ds_config cfg;
        memset(&cfg, 0, sizeof(cfg));
        int *list = NULL;
        if (!strcmp(t[7], "seed") && n == 11) {
            cfg.mode = DS_SEED;
            cfg.seed = hc_parse_u64(t[8]);
            cfg.stay_pct = (unsigned)atoi(t[9]);
            cfg.spurious_permille = (unsigned)atoi(t[10]);
        } else if (!strcmp(t[7], "list") && n >= 9 && n == 9 + atoi(t[8])) {
            int k = atoi(t[8]);
            list = malloc(sizeof(int) * (size_t)(k ? k : 1));
            for (int j = 0; j < k; ++j) {
                list[j] = atoi(t[9 + j]);
            }
            cfg.mode = DS_EXPLICIT;
            cfg.list = list;
            cfg.list_len = (size_t)k;
        } else {
            printf("bad-op\n");
            continue;
        }
        cfg.max_steps = 20000; /* a normal run has a few hundred steps */
        printf("run %s\n", t[1]);
        fflush(stdout);
        memset(s_line, 0, sizeof(s_line));
        s_live_lines = 0;
        s_nobs = 0;
        s_written = s_sent = 0;
        s_cleanup_returned = false;
        s_stop = s_active = s_senders_done = 0;
        s_in_writer = 0;
        s_foreground = s_cfg.quiesce == 2;
        s_wfail_period = s_cfg.wfail;
        s_wcalls = 0;
        long blocks0 = hc_live_blocks();
        ds_init(&cfg);
        int rc = ds_run(s_cfg.quiesce >= 3 ? s_main_noalloc : s_main, NULL);
        size_t oi = 0;
        size_t first_ev = 0;
        if (rc == 2 && ds_event_count() > 400) {
            /* livelock: only the end of the story is printed */
            first_ev = ds_event_count() - 400;
            while (oi < s_nobs && s_obs[oi].stamp <= first_ev) {
                ++oi;
            }
        }
        for (size_t i = first_ev; i < ds_event_count(); ++i) {
            while (oi < s_nobs && s_obs[oi].stamp <= i) {
                printf("O %s\n", s_obs[oi++].text);
            }
            const struct ds_event *e = ds_event_at(i);
            printf("E %zu t%d %s %c%d %d\n", i, e->thread, ds_kind_name(e->kind), e->obj_type, e->obj, e->aux);
        }
        while (oi < s_nobs) {
            printf("O %s\n", s_obs[oi++].text);
        }
        if (s_cfg.quiesce >= 3) {
            printf("O sink failures=%zu bytes=%zu\n", s_sink_failures, s_sink_len);
            printf("F ");
            hc_put_hex(s_sink_buf, s_sink_len);
            printf("\n");
            s_na_file = NULL;
        }
        if (s_sink != NULL) {
            fclose(s_sink);
            s_sink = NULL;
        }
        const int *sched;
        size_t ns = ds_schedule(&sched);
        printf("S");
        for (size_t i = 0; i < ns; ++i) {
            printf(" %d", sched[i]);
        }
        printf("\n");
        printf(
            "R rc=%d live_lines=%ld live_blocks=%ld misuse=%d diverged=%d", rc, s_live_lines, hc_live_blocks() - blocks0,
            ds_misuse_count(), ds_diverged());
        if (rc == 1) {
            char b[512];
            ds_describe_blocked(b, sizeof(b));
            printf(" blocked=%s", b);
        }
        printf("\n");
        fflush(stdout);
        s_free_lines();
        free(list);
        if (rc != 0) {
            return 3; /* library state is not reusable after a deadlock/livelock */
        }
    }
    return 0;
}
