/* C12 threads stage: independent documents parsed concurrently on 4 threads.
 *
 * aws_xml_parse keeps all of its state (parser struct, callback stack, pattern buffers, split scratch) on the
 * caller's stack or in the caller's allocator, so parsing different documents on different threads is legal.  Each
 * thread parses its own well-formed document (element names that are prefixes of one another and differ in
 * length) <iterations> times; the root is descended, children are alternately skipped and read as body, and every
 * callback is compared with what the document contains.  xml_parser.c and byte_buf.c are compiled with
 * -fsanitize=thread for this program (props/c12.py), so a data race on parser-internal storage is reported by TSan
 * even if no mis-report happens to occur.
 *
 * usage: xml_threads <iterations>      output: `P threads ok <parses>` or `P MONITOR …` lines; exit 0 / 1 (66: TSan) */
#include "h_common.h"
#include <aws/common/byte_buf.h>
#include <aws/common/error.h>
#include <aws/common/xml_parser.h>
#include <pthread.h>
#include <stdlib.h>
#include <string.h>

#define N_THREADS 4
#define N_CHILDREN 6

struct doc {
    char name[64];
    char text[8192];
    size_t len;
    size_t body_off[N_CHILDREN];
    size_t body_len[N_CHILDREN];
};

struct run {
    const struct doc *d;
    int child;
    int bad;
};

static long s_iterations;
static int s_failures[N_THREADS];

static int s_child(struct aws_xml_node *node, void *ud) {
    struct run *r = ud;
    const struct doc *d = r->d;
    int i = r->child++;
    struct aws_byte_cursor name = aws_xml_node_get_name(node);
    if (i >= N_CHILDREN || name.len != strlen(d->name) || memcmp(name.ptr, d->name, name.len)) {
        r->bad = 1;
        return AWS_OP_ERR;
    }
    if (i % 2 == 0) {
        return AWS_OP_SUCCESS; /* skipped by the parser */
    }
    struct aws_byte_cursor body;
    AWS_ZERO_STRUCT(body);
    if (aws_xml_node_as_body(node, &body)) {
        r->bad = 1;
        return AWS_OP_ERR;
    }
    if (body.ptr != (const uint8_t *)d->text + d->body_off[i] || body.len != d->body_len[i]) {
        r->bad = 1;
    }
    return AWS_OP_SUCCESS;
}

static int s_root(struct aws_xml_node *node, void *ud) {
    return aws_xml_node_traverse(node, s_child, ud);
}

static void s_make_doc(struct doc *d, int t) {
    /* Item, ItemBB, ItemCCCC, ItemDDDDDD: prefixes of one another, different lengths */
    strcpy(d->name, "Item");
    for (int k = 0; k < 2 * t; ++k) {
        size_t l = strlen(d->name);
        d->name[l] = (char)('A' + t);
        d->name[l + 1] = 0;
    }
    char *p = d->text;
    p += sprintf(p, "<root%d>", t);
    for (int i = 0; i < N_CHILDREN; ++i) {
        p += sprintf(p, "<%s k=\"%d\">", d->name, i);
        d->body_off[i] = (size_t)(p - d->text);
        /* bodies contain nested elements of the same and of longer names */
        char *b = p;
        p += sprintf(p, "text %d of thread %d <%s>inner</%s><%sX>y</%sX>", i, t, d->name, d->name, d->name, d->name);
        d->body_len[i] = (size_t)(p - b);
        p += sprintf(p, "</%s>", d->name);
    }
    p += sprintf(p, "</root%d>", t);
    d->len = (size_t)(p - d->text);
}

static void *s_thread(void *arg) {
    int t = (int)(intptr_t)arg;
    struct doc *d = malloc(sizeof(*d));
    s_make_doc(d, t);
    for (long it = 0; it < s_iterations; ++it) {
        struct run r = {.d = d, .child = 0, .bad = 0};
        struct aws_xml_parser_options opt;
        AWS_ZERO_STRUCT(opt);
        opt.doc = aws_byte_cursor_from_array(d->text, d->len);
        opt.on_root_encountered = s_root;
        opt.user_data = &r;
        int rc = aws_xml_parse(hc_allocator(), &opt);
        if (rc || r.bad || r.child != N_CHILDREN) {
            if (s_failures[t]++ == 0) {
                printf(
                    "P MONITOR thread %d (element '%s') iteration %ld: rc=%d children=%d mis-report=%d\n",
                    t,
                    d->name,
                    it,
                    rc,
                    r.child,
                    r.bad);
                fflush(stdout);
            }
        }
    }
    free(d);
    return NULL;
}

int main(int argc, char **argv) {
    s_iterations = argc > 1 ? atol(argv[1]) : 2000;
    aws_common_library_init(hc_allocator());
    pthread_t th[N_THREADS];
    for (int t = 0; t < N_THREADS; ++t) {
        HC_CHECK(pthread_create(&th[t], NULL, s_thread, (void *)(intptr_t)t) == 0);
    }
    int bad = 0;
    for (int t = 0; t < N_THREADS; ++t) {
        pthread_join(th[t], NULL);
        bad += s_failures[t];
    }
    if (!bad) {
        printf("P threads ok %ld\n", s_iterations * N_THREADS);
    } else {
        printf("P MONITOR %d mis-reported parses of independent well-formed documents\n", bad);
    }
    return bad ? 1 : 0;
}
