/* C01 harness: drives aws_byte_buf / aws_byte_cursor through an op file (see lean/Driver/ByteBuf.lean
 * for the op language; both sides print the same lines).
 *
 * Memory set-up: heap buffers come from a wrapper around hc_allocator() (exact-size malloc blocks,
 * so ASan red zones are tight) that numbers every block in allocation order (= the model's region
 * id), fills fresh blocks with 0xCD ("never written"), and at release time prints the block id,
 * its size and - on _secure code paths - whether every byte of it was zero.  External arrays
 * (cursor sources, borrowed / static buffers) are carved from a static pool with 16-byte canary
 * guards on both sides, checked after every op ("P MONITOR guard ..."). */
#include "h_common.h"
#include <aws/common/array_list.h>
#include <aws/common/byte_buf.h>
#include <aws/common/file.h>
#include <aws/common/string.h>
#include <aws/common/zero.h>
#include <errno.h>
#include <stdlib.h>
#include <string.h>
#include <unistd.h>

#define NB 8
#define NC 8
#define MAXBLK 8192
#define POOL (1u << 20)
#define GUARD 16
#define CANARY 0xC5
#define FILL 0xCD
#define NONE ((size_t)-1)

struct blk {
    uint8_t *ptr;
    size_t size;
    bool live;
    bool heap;
    bool guarded; /* pool block with canaries on both sides */
    bool mallocd; /* exact-size malloc block made by s_exact_block (freed at case reset) */
};
static struct blk s_blk[MAXBLK];
static size_t s_nblk;
static uint8_t s_pool[POOL];
static size_t s_pool_off;
static bool s_secure_ctx; /* the API call in progress is a _secure variant */
static bool s_quiet;      /* releases during case reset are not printed */

static struct aws_byte_buf s_b[NB];
static bool s_bforged[NB];
static struct aws_byte_cursor s_c[NC];
static size_t s_cbase[NC]; /* block id the cursor points into (0 = "" literal) */

/* ---- block table ---- */
static size_t s_new_block(uint8_t *p, size_t size, bool heap) {
    HC_CHECK(s_nblk < MAXBLK);
    s_blk[s_nblk].ptr = p;
    s_blk[s_nblk].size = size;
    s_blk[s_nblk].live = true;
    s_blk[s_nblk].heap = heap;
    s_blk[s_nblk].guarded = !heap;
    s_blk[s_nblk].mallocd = false;
    return s_nblk++;
}

static size_t s_find_block(const uint8_t *p) {
    for (size_t i = 1; i < s_nblk; ++i) {
        if (s_blk[i].live && s_blk[i].ptr == p) {
            return i;
        }
    }
    return NONE;
}

static void *s_w_acquire(struct aws_allocator *a, size_t size) {
    (void)a;
    uint8_t *p = hc_allocator()->mem_acquire(hc_allocator(), size);
    if (!p) {
        return NULL;
    }
    memset(p, FILL, size);
    s_new_block(p, size, true);
    return p;
}

static void s_w_release(struct aws_allocator *a, void *p) {
    (void)a;
    if (!p) {
        return;
    }
    size_t id = s_find_block(p);
    HC_CHECK(id != NONE && s_blk[id].heap);
    if (!s_quiet) {
        int zero = 1;
        for (size_t i = 0; i < s_blk[id].size; ++i) {
            if (s_blk[id].ptr[i]) {
                zero = 0;
            }
        }
        if ((aws_is_mem_zeroed(s_blk[id].ptr, s_blk[id].size) ? 1 : 0) != zero) {
            printf("P MONITOR aws_is_mem_zeroed disagrees with a byte scan on block %zu (%zu bytes)\n", id, s_blk[id].size);
        }
        printf("P release rid=%zu size=%zu zero=%d\n", id, s_blk[id].size, zero);
    }
    s_blk[id].live = false;
    hc_allocator()->mem_release(hc_allocator(), p);
}

static void *s_w_realloc(struct aws_allocator *a, void *p, size_t oldsize, size_t newsize) {
    if (!p) {
        return s_w_acquire(a, newsize);
    }
    size_t id = s_find_block(p);
    HC_CHECK(id != NONE);
    size_t old = s_blk[id].size;
    if (oldsize != old) {
        /* an allocator without mem_realloc copies `oldsize` bytes: the library must state the block's true size */
        printf("P MONITOR realloc oldsize=%zu but the block has %zu bytes\n", oldsize, old);
    }
    void *n = s_w_acquire(a, newsize);
    if (!n) {
        return NULL;
    }
    memcpy(n, p, old < newsize ? old : newsize);
    s_w_release(a, p);
    return n;
}

static void *s_w_calloc(struct aws_allocator *a, size_t num, size_t size) {
    void *p = s_w_acquire(a, num * size);
    if (p) {
        memset(p, 0, num * size);
    }
    return p;
}

static struct aws_allocator s_walloc = {
    .mem_acquire = s_w_acquire,
    .mem_release = s_w_release,
    .mem_realloc = s_w_realloc,
    .mem_calloc = s_w_calloc,
};

/* external array with canaries */
static size_t s_pool_block(size_t size) {
    HC_CHECK(s_pool_off + size + 2 * GUARD <= POOL);
    uint8_t *base = s_pool + s_pool_off;
    memset(base, CANARY, GUARD);
    memset(base + GUARD, FILL, size);
    memset(base + GUARD + size, CANARY, GUARD);
    s_pool_off += size + 2 * GUARD;
    return s_new_block(base + GUARD, size, false);
}

/* read-only source of a cursor: an exact-size malloc block, so that ASan's red zone starts at the first byte behind
 * the view (a read past the cursor's length is a report, not a silent read of a neighbouring canary) */
static size_t s_exact_block(size_t size) {
    uint8_t *p = malloc(size ? size : 1);
    HC_CHECK(p != NULL);
    memset(p, FILL, size ? size : 1);
    size_t id = s_new_block(p, size, false);
    s_blk[id].guarded = false;
    s_blk[id].mallocd = true;
    return id;
}

static void s_check_guards(void) {
    for (size_t i = 1; i < s_nblk; ++i) {
        if (s_blk[i].guarded) {
            const uint8_t *lo = s_blk[i].ptr - GUARD, *hi = s_blk[i].ptr + s_blk[i].size;
            for (size_t k = 0; k < GUARD; ++k) {
                if (lo[k] != CANARY || hi[k] != CANARY) {
                    printf("P MONITOR guard rid=%zu\n", i);
                    memset((void *)lo, CANARY, GUARD);
                    memset((void *)hi, CANARY, GUARD);
                    break;
                }
            }
        }
    }
}

/* aws_string objects made for cur_from_string (freed at case reset) */
#define MAXSTR 256
static struct aws_string *s_str[MAXSTR];
static size_t s_nstr;

/* ---- simulated file for aws_byte_buf_init_from_file: fread / feof of file.c are wrapped at link time ---- */
static bool s_sim_active;
static const uint8_t *s_sim_data;
static size_t s_sim_len, s_sim_pos;
static size_t s_sim_sched[64];
static size_t s_sim_nsched, s_sim_isched;
static bool s_sim_eof;

size_t __real_fread(void *ptr, size_t size, size_t nmemb, FILE *fp);
int __real_feof(FILE *fp);

size_t __wrap_fread(void *ptr, size_t size, size_t nmemb, FILE *fp) {
    if (!s_sim_active) {
        return __real_fread(ptr, size, nmemb, fp);
    }
    HC_CHECK(size == 1);
    size_t left = s_sim_len - s_sim_pos;
    size_t want = nmemb < left ? nmemb : left;
    size_t k = want;
    bool eof = nmemb > left;
    if (s_sim_isched < s_sim_nsched) {
        size_t cap = s_sim_sched[s_sim_isched++];
        if (cap < want) {
            k = cap;
            eof = false;
        }
    }
    memcpy(ptr, s_sim_data + s_sim_pos, k);
    s_sim_pos += k;
    s_sim_eof = eof;
    return k;
}

int __wrap_feof(FILE *fp) {
    if (!s_sim_active) {
        return __real_feof(fp);
    }
    return s_sim_eof ? 1 : 0;
}

static void s_reset(void) {
    for (size_t i = 0; i < s_nstr; ++i) {
        aws_string_destroy(s_str[i]);
    }
    s_nstr = 0;
    s_quiet = true;
    for (size_t i = 1; i < s_nblk; ++i) {
        if (s_blk[i].live && s_blk[i].heap) {
            s_w_release(&s_walloc, s_blk[i].ptr);
        }
    }
    s_quiet = false;
    for (size_t i = 1; i < s_nblk; ++i) {
        if (s_blk[i].mallocd) {
            free(s_blk[i].ptr);
        }
    }
    s_nblk = 1; /* block 0 = the "" literal of aws_byte_cursor_next_split */
    s_blk[0].ptr = NULL;
    s_blk[0].size = 0;
    s_blk[0].live = true;
    s_blk[0].heap = false;
    s_pool_off = 0;
    memset(s_b, 0, sizeof(s_b));
    memset(s_bforged, 0, sizeof(s_bforged));
    memset(s_c, 0, sizeof(s_c));
    for (int i = 0; i < NC; ++i) {
        s_cbase[i] = NONE;
    }
    s_secure_ctx = false;
}

/* ---- printing ---- */
static void s_put_rid(size_t id) {
    if (id == NONE) {
        printf("?");
    } else {
        printf("%zu", id);
    }
}

static void s_put_cur(const struct aws_byte_cursor *c, size_t base) {
    if (c->ptr == NULL) {
        printf("rid=null off=0 len=%zu", c->len);
    } else if (base == 0) {
        printf("rid=0 off=0 len=%zu", c->len);
    } else if (base == NONE || base >= s_nblk) {
        printf("rid=? off=? len=%zu", c->len);
    } else {
        printf("rid=%zu off=%zu len=%zu", base, (size_t)(c->ptr - s_blk[base].ptr), c->len);
    }
}

static void s_print_buf(int i) {
    struct aws_byte_buf *b = &s_b[i];
    printf("P b%d rid=", i);
    if (b->buffer == NULL) {
        printf("null");
    } else {
        s_put_rid(s_find_block(b->buffer));
    }
    printf(" len=%zu own=%d data=", b->len, b->allocator ? 1 : 0);
    if (s_bforged[i]) {
        printf("forged");
    } else if (b->buffer == NULL) {
        printf("-");
    } else {
        hc_put_hex(b->buffer, b->len);
    }
    printf("\nW b%d cap=%zu\n", i, b->capacity);
}

static void s_print_cur(int i) {
    printf("P c%d ", i);
    s_put_cur(&s_c[i], s_cbase[i]);
    printf("\n");
}

static void s_print_rc(int rc) {
    if (rc == AWS_OP_SUCCESS) {
        printf("P r OK\n");
    } else {
        printf("P r ERR %s\n", hc_last_error_name());
    }
}

/* ---- parsing ---- */
static int s_slot(const char *t, char pfx, int max) {
    if (t[0] != pfx || !t[1]) {
        return -1;
    }
    char *e;
    long v = strtol(t + 1, &e, 10);
    if (*e || v < 0 || v >= max) {
        return -1;
    }
    return (int)v;
}
#define BS(t) s_slot((t), 'b', NB)
#define CS(t) s_slot((t), 'c', NC)

static bool s_byte(const char *t, uint8_t *out) {
    if (strlen(t) != 2) {
        return false;
    }
    size_t n;
    uint8_t *p = hc_hex_decode(t, &n);
    *out = p[0];
    free(p);
    return n == 1;
}

static aws_byte_predicate_fn *s_pred(const char *t) {
    if (!strcmp(t, "isspace")) return aws_isspace;
    if (!strcmp(t, "isalnum")) return aws_isalnum;
    if (!strcmp(t, "isalpha")) return aws_isalpha;
    if (!strcmp(t, "isdigit")) return aws_isdigit;
    if (!strcmp(t, "isxdigit")) return aws_isxdigit;
    return NULL;
}

/* ---- the checks made on both sides before an API call ---- */
static bool s_stale(int c) {
    if (s_c[c].ptr == NULL || s_cbase[c] == 0) {
        return false;
    }
    return s_cbase[c] == NONE || !s_blk[s_cbase[c]].live;
}

static size_t s_coff(int c) {
    return (size_t)(s_c[c].ptr - s_blk[s_cbase[c]].ptr);
}

static bool s_overlap(int b, int c) {
    if (s_b[b].buffer == NULL || s_c[c].ptr == NULL || s_cbase[c] == 0) {
        return false;
    }
    if (s_find_block(s_b[b].buffer) != s_cbase[c] || s_c[c].len == 0) {
        return false;
    }
    size_t off = s_coff(c);
    if (!(off < s_b[b].capacity)) {
        return false;
    }
    return s_b[b].len < off || s_b[b].len - off < s_c[c].len;
}

#define LIMIT ((size_t)1 << 20)

/* size of the block s_aws_byte_buf_append_dynamic would acquire is above LIMIT (not attempted on either side) */
static bool s_huge_dyn(int b, size_t srclen) {
    struct aws_byte_buf *x = &s_b[b];
    if (!x->allocator || !(x->capacity - x->len < srclen)) {
        return false;
    }
    size_t missing = srclen - (x->capacity - x->len);
    size_t req;
    if (aws_add_size_checked(x->capacity, missing, &req)) {
        return false;
    }
    size_t growth = aws_add_size_saturating(x->capacity, x->capacity);
    return (req < growth ? growth : req) > LIMIT;
}

static bool s_huge_rel(int b, size_t n) {
    size_t sum;
    if (aws_add_size_checked(s_b[b].len, n, &sum)) {
        return false;
    }
    return sum > LIMIT;
}

static size_t s_base_of_buf(int b) {
    return s_b[b].buffer ? s_find_block(s_b[b].buffer) : NONE;
}

#define SKIP(what)                                                                                                      \
    do {                                                                                                                \
        printf("P skip " what "\n");                                                                                    \
        goto done;                                                                                                      \
    } while (0)
#define BAD()                                                                                                           \
    do {                                                                                                                \
        printf("bad-op\n");                                                                                             \
        goto done;                                                                                                      \
    } while (0)
#define IS(name) (!strcmp(t[0], (name)))

int main(void) {
    char *t[HC_MAX_TOKS];
    int n;
    aws_common_library_init(hc_allocator());
    setvbuf(stdout, NULL, _IOFBF, 1 << 16);
    s_reset();
    while ((n = hc_next_line(t)) >= 0) {
        if (IS("case")) {
            s_reset();
            hc_case_begin(t[1]);
            continue;
        }
        s_secure_ctx = false;
        if (IS("dump") && n == 1) {
            for (int i = 0; i < 4; ++i) s_print_buf(i);
            for (int i = 0; i < 4; ++i) s_print_cur(i);
        } else if (IS("cur_bytes") && n == 3) {
            int c = CS(t[1]);
            if (c < 0) BAD();
            size_t len;
            uint8_t *p = hc_hex_decode(t[2], &len);
            size_t id = s_exact_block(len);
            memcpy(s_blk[id].ptr, p, len);
            free(p);
            s_c[c] = aws_byte_cursor_from_array(s_blk[id].ptr, len);
            s_cbase[c] = id;
            printf("P r -\n");
            s_print_cur(c);
        } else if (IS("cur_null") && n == 2) {
            int c = CS(t[1]);
            if (c < 0) BAD();
            AWS_ZERO_STRUCT(s_c[c]);
            s_cbase[c] = NONE;
            printf("P r -\n");
            s_print_cur(c);
        } else if (IS("cur_into") && n == 5) {
            int c = CS(t[1]), b = BS(t[2]);
            if (c < 0 || b < 0) BAD();
            size_t off = hc_parse_size(t[3]), len = hc_parse_size(t[4]);
            if (s_bforged[b]) SKIP("forged");
            if (s_b[b].buffer != NULL && off <= s_b[b].len && len <= s_b[b].len - off && s_b[b].len <= s_b[b].capacity) {
                s_c[c] = aws_byte_cursor_from_array(s_b[b].buffer + off, len);
                s_cbase[c] = s_base_of_buf(b);
                printf("P r OK\n");
            } else {
                printf("P r ERR AWS_ERROR_INVALID_ARGUMENT\n");
            }
            s_print_cur(c);
        } else if (IS("cur_from_buf") && n == 3) {
            int c = CS(t[1]), b = BS(t[2]);
            if (c < 0 || b < 0) BAD();
            if (s_bforged[b]) SKIP("forged");
            s_c[c] = aws_byte_cursor_from_buf(&s_b[b]);
            s_cbase[c] = s_base_of_buf(b);
            printf("P r -\n");
            s_print_cur(c);
        } else if (IS("cur_sub") && n == 5) {
            int d = CS(t[1]), sc = CS(t[2]);
            if (d < 0 || sc < 0) BAD();
            size_t off = hc_parse_size(t[3]), len = hc_parse_size(t[4]);
            if (s_stale(sc)) SKIP("stale");
            if (s_c[sc].ptr != NULL && off <= s_c[sc].len && len <= s_c[sc].len - off) {
                struct aws_byte_cursor v = aws_byte_cursor_from_array(s_c[sc].ptr + off, len);
                s_cbase[d] = s_cbase[sc];
                s_c[d] = v;
                printf("P r OK\n");
            } else {
                printf("P r ERR AWS_ERROR_INVALID_ARGUMENT\n");
            }
            s_print_cur(d);
        } else if (IS("cur_forge") && n == 4) {
            int c = CS(t[1]);
            size_t real = hc_parse_size(t[2]), len = hc_parse_size(t[3]);
            if (c < 0 || real == 0 || real > 4096) BAD();
            size_t id = s_exact_block(real);
            for (size_t i = 0; i < real; ++i) s_blk[id].ptr[i] = (uint8_t)i;
            s_c[c].ptr = s_blk[id].ptr;
            s_c[c].len = len;
            s_cbase[c] = id;
            printf("P r -\n");
            s_print_cur(c);
        } else if (IS("buf_from_array") && n == 3) {
            int b = BS(t[1]);
            if (b < 0) BAD();
            if (s_b[b].buffer) SKIP("occupied");
            size_t len;
            uint8_t *p = hc_hex_decode(t[2], &len);
            if (len == 0) {
                s_b[b] = aws_byte_buf_from_array(NULL, 0);
            } else {
                size_t id = s_pool_block(len);
                memcpy(s_blk[id].ptr, p, len);
                s_b[b] = aws_byte_buf_from_array(s_blk[id].ptr, len);
            }
            free(p);
            printf("P r -\n");
            s_print_buf(b);
        } else if (IS("buf_from_empty_array") && n == 3) {
            int b = BS(t[1]);
            size_t cap = hc_parse_size(t[2]);
            if (b < 0) BAD();
            if (s_b[b].buffer) SKIP("occupied");
            if (cap > 65536) BAD();
            if (cap == 0) {
                s_b[b] = aws_byte_buf_from_empty_array(NULL, 0);
            } else {
                size_t id = s_pool_block(cap);
                s_b[b] = aws_byte_buf_from_empty_array(s_blk[id].ptr, cap);
            }
            printf("P r -\n");
            s_print_buf(b);
        } else if (IS("buf_forge") && n == 6) {
            int b = BS(t[1]);
            size_t real = hc_parse_size(t[2]), len = hc_parse_size(t[3]), cap = hc_parse_size(t[4]);
            if (b < 0) BAD();
            if (s_b[b].buffer) SKIP("occupied");
            if (real == 0 || real > 4096 || (strcmp(t[5], "0") && strcmp(t[5], "1"))) BAD();
            /* the model allocates one region for the block whatever the owner is */
            uint8_t *p = s_w_acquire(&s_walloc, real);
            s_b[b].buffer = p;
            s_b[b].len = len;
            s_b[b].capacity = cap;
            s_b[b].allocator = t[5][0] == '1' ? &s_walloc : NULL;
            s_bforged[b] = true;
            printf("P r -\n");
            s_print_buf(b);
        } else if (IS("init") && n == 3) {
            int b = BS(t[1]);
            size_t cap = hc_parse_size(t[2]);
            if (b < 0) BAD();
            if (s_b[b].buffer) SKIP("occupied");
            if (cap > 65536) BAD();
            s_print_rc(aws_byte_buf_init(&s_b[b], &s_walloc, cap));
            s_print_buf(b);
        } else if (IS("init_copy") && n == 3) {
            int x = BS(t[1]), y = BS(t[2]);
            if (x < 0 || y < 0) BAD();
            if (s_b[x].buffer) SKIP("occupied");
            if (s_b[y].capacity > LIMIT) SKIP("huge");
            s_print_rc(aws_byte_buf_init_copy(&s_b[x], &s_walloc, &s_b[y]));
            s_print_buf(x);
            s_print_buf(y);
        } else if (IS("init_copy_from_cursor") && n == 3) {
            int x = BS(t[1]), c = CS(t[2]);
            if (x < 0 || c < 0) BAD();
            if (s_b[x].buffer) SKIP("occupied");
            if (s_c[c].len > LIMIT) SKIP("huge");
            if (s_stale(c)) SKIP("stale");
            /* the model keeps dest unchanged when the cursor precondition fails; the C code has not
             * touched it at that point either */
            s_print_rc(aws_byte_buf_init_copy_from_cursor(&s_b[x], &s_walloc, s_c[c]));
            s_print_buf(x);
            s_print_cur(c);
        } else if (IS("reset") && n == 3) {
            int b = BS(t[1]);
            if (b < 0 || (strcmp(t[2], "0") && strcmp(t[2], "1"))) BAD();
            aws_byte_buf_reset(&s_b[b], t[2][0] == '1');
            printf("P r -\n");
            s_print_buf(b);
        } else if (IS("secure_zero") && n == 2) {
            int b = BS(t[1]);
            if (b < 0) BAD();
            aws_byte_buf_secure_zero(&s_b[b]);
            printf("P r -\n");
            s_print_buf(b);
        } else if (IS("clean_up") && n == 2) {
            int b = BS(t[1]);
            if (b < 0) BAD();
            aws_byte_buf_clean_up(&s_b[b]);
            s_bforged[b] = false;
            printf("P r -\n");
            s_print_buf(b);
        } else if (IS("clean_up_secure") && n == 2) {
            int b = BS(t[1]);
            if (b < 0) BAD();
            if (s_bforged[b]) SKIP("forged");
            s_secure_ctx = true;
            aws_byte_buf_clean_up_secure(&s_b[b]);
            s_secure_ctx = false;
            printf("P r -\n");
            s_print_buf(b);
        } else if ((IS("append") || IS("append_with_lookup") || IS("append_dynamic") || IS("append_dynamic_secure") ||
                    IS("append_and_update") || IS("write_from_whole_cursor") || IS("write_to_capacity")) &&
                   n == 3) {
            int b = BS(t[1]), c = CS(t[2]);
            if (b < 0 || c < 0) BAD();
            if ((IS("append_dynamic") || IS("append_dynamic_secure")) && s_huge_dyn(b, s_c[c].len)) SKIP("huge");
            if (s_stale(c)) SKIP("stale");
            if (s_overlap(b, c)) SKIP("overlap");
            if (IS("append")) {
                s_print_rc(aws_byte_buf_append(&s_b[b], &s_c[c]));
            } else if (IS("append_with_lookup")) {
                s_print_rc(aws_byte_buf_append_with_lookup(&s_b[b], &s_c[c], aws_lookup_table_to_lower_get()));
            } else if (IS("append_dynamic")) {
                s_print_rc(aws_byte_buf_append_dynamic(&s_b[b], &s_c[c]));
            } else if (IS("append_dynamic_secure")) {
                s_secure_ctx = true;
                int rc = aws_byte_buf_append_dynamic_secure(&s_b[b], &s_c[c]);
                s_secure_ctx = false;
                s_print_rc(rc);
            } else if (IS("append_and_update")) {
                int rc = aws_byte_buf_append_and_update(&s_b[b], &s_c[c]);
                if (rc == AWS_OP_SUCCESS) {
                    s_cbase[c] = s_base_of_buf(b);
                }
                s_print_rc(rc);
            } else if (IS("write_from_whole_cursor")) {
                printf("P r %s\n", aws_byte_buf_write_from_whole_cursor(&s_b[b], s_c[c]) ? "true" : "false");
            } else {
                struct aws_byte_cursor w = aws_byte_buf_write_to_capacity(&s_b[b], &s_c[c]);
                printf("P r cur ");
                s_put_cur(&w, s_cbase[c]);
                printf("\n");
            }
            s_print_buf(b);
            s_print_cur(c);
        } else if ((IS("append_byte_dynamic") || IS("append_byte_dynamic_secure") || IS("write_u8")) && n == 3) {
            int b = BS(t[1]);
            uint8_t v;
            if (b < 0 || !s_byte(t[2], &v)) BAD();
            if (!IS("write_u8") && s_huge_dyn(b, 1)) SKIP("huge");
            if (IS("append_byte_dynamic")) {
                s_print_rc(aws_byte_buf_append_byte_dynamic(&s_b[b], v));
            } else if (IS("append_byte_dynamic_secure")) {
                s_secure_ctx = true;
                int rc = aws_byte_buf_append_byte_dynamic_secure(&s_b[b], v);
                s_secure_ctx = false;
                s_print_rc(rc);
            } else {
                printf("P r %s\n", aws_byte_buf_write_u8(&s_b[b], v) ? "true" : "false");
            }
            s_print_buf(b);
        } else if (IS("append_null_terminator") && n == 2) {
            int b = BS(t[1]);
            if (b < 0) BAD();
            if (s_huge_dyn(b, 1)) SKIP("huge");
            s_print_rc(aws_byte_buf_append_null_terminator(&s_b[b]));
            s_print_buf(b);
        } else if (IS("cat") && n >= 3 && n <= 5) {
            int d = BS(t[1]), s[3] = {-1, -1, -1};
            if (d < 0) BAD();
            for (int i = 2; i < n; ++i) {
                s[i - 2] = BS(t[i]);
                if (s[i - 2] < 0) BAD();
            }
            for (int i = 2; i < n; ++i) {
                if (s_bforged[s[i - 2]]) SKIP("forged");
            }
            int rc;
            if (n == 3) {
                rc = aws_byte_buf_cat(&s_b[d], 1, &s_b[s[0]]);
            } else if (n == 4) {
                rc = aws_byte_buf_cat(&s_b[d], 2, &s_b[s[0]], &s_b[s[1]]);
            } else {
                rc = aws_byte_buf_cat(&s_b[d], 3, &s_b[s[0]], &s_b[s[1]], &s_b[s[2]]);
            }
            s_print_rc(rc);
            s_print_buf(d);
        } else if ((IS("reserve") || IS("reserve_relative") || IS("reserve_smart") || IS("reserve_smart_relative")) && n == 3) {
            int b = BS(t[1]);
            size_t v = (size_t)hc_parse_u64(t[2]);
            if (b < 0) BAD();
            if ((IS("reserve") || IS("reserve_smart")) && v > LIMIT) SKIP("huge");
            if ((IS("reserve_relative") || IS("reserve_smart_relative")) && s_huge_rel(b, v)) SKIP("huge");
            int rc;
            if (IS("reserve")) {
                rc = aws_byte_buf_reserve(&s_b[b], v);
            } else if (IS("reserve_relative")) {
                rc = aws_byte_buf_reserve_relative(&s_b[b], v);
            } else if (IS("reserve_smart")) {
                rc = aws_byte_buf_reserve_smart(&s_b[b], v);
            } else {
                rc = aws_byte_buf_reserve_smart_relative(&s_b[b], v);
            }
            s_print_rc(rc);
            s_print_buf(b);
        } else if (IS("buf_advance") && n == 3) {
            int b = BS(t[1]);
            size_t v = (size_t)hc_parse_u64(t[2]);
            if (b < 0) BAD();
            struct aws_byte_buf out;
            memset(&out, 0x5A, sizeof(out));
            size_t before = s_b[b].len;
            size_t base = s_base_of_buf(b);
            if (aws_byte_buf_advance(&s_b[b], &out, v)) {
                printf("P r view rid=");
                if (out.buffer == NULL) {
                    printf("null off=0");
                } else {
                    s_put_rid(base);
                    printf(" off=%zu", (size_t)(out.buffer - s_b[b].buffer));
                    if (out.buffer != s_b[b].buffer + before) printf("!");
                }
                printf(" cap=%zu\n", out.capacity);
                if (out.len != 0 || out.allocator != NULL) {
                    printf("P MONITOR advance-output len=%zu alloc=%d\n", out.len, out.allocator != NULL);
                }
            } else {
                printf("P r view zeroed\n");
                if (out.buffer || out.len || out.capacity || out.allocator) {
                    printf("P MONITOR advance-output-not-zeroed\n");
                }
            }
            s_print_buf(b);
        } else if ((IS("write_be16") || IS("write_be24") || IS("write_be32") || IS("write_be64")) && n == 3) {
            int b = BS(t[1]);
            uint64_t v = hc_parse_u64(t[2]);
            if (b < 0) BAD();
            bool ok;
            if (IS("write_be16")) {
                ok = aws_byte_buf_write_be16(&s_b[b], (uint16_t)v);
            } else if (IS("write_be24")) {
                ok = aws_byte_buf_write_be24(&s_b[b], (uint32_t)v);
            } else if (IS("write_be32")) {
                ok = aws_byte_buf_write_be32(&s_b[b], (uint32_t)v);
            } else {
                ok = aws_byte_buf_write_be64(&s_b[b], v);
            }
            printf("P r %s\n", ok ? "true" : "false");
            s_print_buf(b);
        } else if (IS("write") && n == 4) {
            int b = BS(t[1]);
            if (b < 0) BAD();
            size_t len, cnt = hc_parse_size(t[3]);
            uint8_t *p = hc_hex_decode(t[2], &len);
            uint8_t *src = malloc(len ? len : 1); /* exact-size source block */
            memcpy(src, p, len);
            free(p);
            printf("P r %s\n", aws_byte_buf_write(&s_b[b], src, cnt) ? "true" : "false");
            free(src);
            s_print_buf(b);
        } else if (IS("write_u8_n") && n == 4) {
            int b = BS(t[1]);
            uint8_t v;
            if (b < 0 || !s_byte(t[2], &v)) BAD();
            printf("P r %s\n", aws_byte_buf_write_u8_n(&s_b[b], v, hc_parse_size(t[3])) ? "true" : "false");
            s_print_buf(b);
        } else if (IS("write_from_whole_buffer") && n == 3) {
            int x = BS(t[1]), y = BS(t[2]);
            if (x < 0 || y < 0) BAD();
            if (s_bforged[y]) SKIP("forged");
            printf("P r %s\n", aws_byte_buf_write_from_whole_buffer(&s_b[x], s_b[y]) ? "true" : "false");
            s_print_buf(x);
        } else if ((IS("buf_eq") || IS("buf_eq_ignore_case")) && n == 3) {
            int x = BS(t[1]), y = BS(t[2]);
            if (x < 0 || y < 0) BAD();
            if (s_bforged[x] || s_bforged[y]) SKIP("forged");
            bool r = IS("buf_eq") ? aws_byte_buf_eq(&s_b[x], &s_b[y]) : aws_byte_buf_eq_ignore_case(&s_b[x], &s_b[y]);
            printf("P r pred %d\n", r ? 1 : 0);
        } else if ((IS("buf_eq_c_str") || IS("buf_eq_c_str_ignore_case") || IS("cur_eq_c_str") || IS("cur_eq_c_str_ignore_case")) &&
                   n == 3) {
            bool isbuf = t[0][0] == 'b';
            int x = isbuf ? BS(t[1]) : CS(t[1]);
            if (x < 0) BAD();
            if (isbuf && s_bforged[x]) SKIP("forged");
            if (!isbuf && s_stale(x)) SKIP("stale");
            size_t len;
            uint8_t *p = hc_hex_decode(t[2], &len);
            char *str = malloc(len + 1); /* exact size: reading past the terminator is an ASan report */
            memcpy(str, p, len);
            str[len] = 0;
            free(p);
            bool r;
            if (IS("buf_eq_c_str")) {
                r = aws_byte_buf_eq_c_str(&s_b[x], str);
            } else if (IS("buf_eq_c_str_ignore_case")) {
                r = aws_byte_buf_eq_c_str_ignore_case(&s_b[x], str);
            } else if (IS("cur_eq_c_str")) {
                r = aws_byte_cursor_eq_c_str(&s_c[x], str);
            } else {
                r = aws_byte_cursor_eq_c_str_ignore_case(&s_c[x], str);
            }
            free(str);
            printf("P r pred %d\n", r ? 1 : 0);
        } else if ((IS("advance") || IS("advance_nospec")) && n == 3) {
            int c = CS(t[1]);
            if (c < 0) BAD();
            if (s_stale(c)) SKIP("stale");
            size_t v = hc_parse_size(t[2]);
            struct aws_byte_cursor r = IS("advance") ? aws_byte_cursor_advance(&s_c[c], v) : aws_byte_cursor_advance_nospec(&s_c[c], v);
            printf("P r cur ");
            s_put_cur(&r, s_cbase[c]);
            printf("\n");
            s_print_cur(c);
        } else if (IS("read") && n == 3) {
            int c = CS(t[1]);
            if (c < 0) BAD();
            if (s_stale(c)) SKIP("stale");
            size_t v = hc_parse_size(t[2]);
            size_t dsz = v <= 65536 ? v : 16;
            uint8_t *dest = malloc(dsz ? dsz : 1);
            if (aws_byte_cursor_read(&s_c[c], dest, v)) {
                printf("P r true ");
                hc_put_hex(dest, v <= 65536 ? v : 0);
                printf("\n");
            } else {
                printf("P r false\n");
            }
            free(dest);
            s_print_cur(c);
        } else if (IS("read_and_fill_buffer") && n == 3) {
            int c = CS(t[1]), b = BS(t[2]);
            if (c < 0 || b < 0) BAD();
            if (s_stale(c)) SKIP("stale");
            if (s_b[b].buffer && s_c[c].ptr && s_cbase[c] != 0 && s_cbase[c] == s_base_of_buf(b) && s_c[c].len > 0) SKIP("overlap");
            printf("P r %s\n", aws_byte_cursor_read_and_fill_buffer(&s_c[c], &s_b[b]) ? "true" : "false");
            s_print_buf(b);
            s_print_cur(c);
        } else if ((IS("read_u8") || IS("read_be16") || IS("read_be24") || IS("read_be32") || IS("read_be64") || IS("read_hex_u8")) &&
                   n == 2) {
            int c = CS(t[1]);
            if (c < 0) BAD();
            if (s_stale(c)) SKIP("stale");
            bool ok;
            uint64_t val = 0;
            if (IS("read_u8")) {
                uint8_t x = 0;
                ok = aws_byte_cursor_read_u8(&s_c[c], &x);
                val = x;
            } else if (IS("read_be16")) {
                uint16_t x = 0;
                ok = aws_byte_cursor_read_be16(&s_c[c], &x);
                val = x;
            } else if (IS("read_be24")) {
                uint32_t x = 0xFFFFFFFFu;
                ok = aws_byte_cursor_read_be24(&s_c[c], &x);
                val = x;
            } else if (IS("read_be32")) {
                uint32_t x = 0;
                ok = aws_byte_cursor_read_be32(&s_c[c], &x);
                val = x;
            } else if (IS("read_be64")) {
                uint64_t x = 0;
                ok = aws_byte_cursor_read_be64(&s_c[c], &x);
                val = x;
            } else {
                uint8_t x = 0;
                ok = aws_byte_cursor_read_hex_u8(&s_c[c], &x);
                val = x;
            }
            if (ok) {
                printf("P r true %llu\n", (unsigned long long)val);
            } else {
                printf("P r false\n");
            }
            s_print_cur(c);
        } else if ((IS("parse_u64") || IS("parse_u64_hex")) && n == 2) {
            int c = CS(t[1]);
            if (c < 0) BAD();
            if (s_stale(c)) SKIP("stale");
            uint64_t v = 0xDEADBEEFDEADBEEFull;
            int rc = IS("parse_u64") ? aws_byte_cursor_utf8_parse_u64(s_c[c], &v) : aws_byte_cursor_utf8_parse_u64_hex(s_c[c], &v);
            if (rc == AWS_OP_SUCCESS) {
                printf("P r OK %llu\n", (unsigned long long)v);
            } else {
                printf("P r ERR %s %llu\n", hc_last_error_name(), (unsigned long long)v);
            }
        } else if (IS("next_split") && n == 4) {
            int i = CS(t[1]), s = CS(t[3]);
            uint8_t ch;
            if (i < 0 || s < 0 || i == s || !s_byte(t[2], &ch)) BAD();
            if (s_c[i].ptr && s_c[s].ptr && s_cbase[s] != s_cbase[i]) SKIP("precondition");
            if (s_stale(i) || s_stale(s)) SKIP("stale");
            bool more = aws_byte_cursor_next_split(&s_c[i], (char)ch, &s_c[s]);
            if (s_c[s].ptr == NULL) {
                s_cbase[s] = NONE;
            } else {
                s_cbase[s] = s_c[i].ptr ? s_cbase[i] : 0;
            }
            printf("P r pred %d\n", more ? 1 : 0);
            s_print_cur(s);
        } else if ((IS("split_on_char") && n == 4) || (IS("split_on_char_n") && n == 5)) {
            int i = CS(t[1]);
            uint8_t ch;
            if (i < 0 || !s_byte(t[2], &ch)) BAD();
            size_t cnt = n == 5 ? hc_parse_size(t[3]) : 0;
            size_t k = hc_parse_size(t[n - 1]);
            if (k == 0 || k > 64) BAD();
            if (s_stale(i)) SKIP("stale");
            /* exact-size backing store for the static list */
            struct aws_byte_cursor *arr = malloc(k * sizeof(struct aws_byte_cursor));
            struct aws_array_list list;
            aws_array_list_init_static(&list, arr, k, sizeof(struct aws_byte_cursor));
            int rc = n == 5 ? aws_byte_cursor_split_on_char_n(&s_c[i], (char)ch, cnt, &list)
                            : aws_byte_cursor_split_on_char(&s_c[i], (char)ch, &list);
            if (rc == AWS_OP_SUCCESS) {
                printf("P r OK");
            } else {
                printf("P r ERR %s", hc_last_error_name());
            }
            size_t cntout = aws_array_list_length(&list);
            printf(" n=%zu", cntout);
            for (size_t j = 0; j < cntout; ++j) {
                struct aws_byte_cursor e = arr[j];
                if (e.ptr == NULL) {
                    printf(" null/0/%zu", e.len);
                } else if (s_c[i].ptr == NULL || s_cbase[i] == 0) {
                    printf(" 0/0/%zu", e.len);
                } else {
                    printf(" %zu/%zu/%zu", s_cbase[i], (size_t)(e.ptr - s_blk[s_cbase[i]].ptr), e.len);
                }
            }
            printf("\n");
            free(arr);
        } else if (IS("find_exact") && n == 4) {
            int i = CS(t[1]), f = CS(t[2]), o = CS(t[3]);
            if (i < 0 || f < 0 || o < 0) BAD();
            if (s_stale(i) || s_stale(f)) SKIP("stale");
            int rc = aws_byte_cursor_find_exact(&s_c[i], &s_c[f], &s_c[o]);
            if (rc == AWS_OP_SUCCESS) {
                s_cbase[o] = s_cbase[i];
            }
            s_print_rc(rc);
            s_print_cur(o);
        } else if ((IS("left_trim") || IS("right_trim") || IS("trim") || IS("satisfies")) && n == 3) {
            int c = CS(t[1]);
            aws_byte_predicate_fn *p = s_pred(t[2]);
            if (c < 0 || !p) BAD();
            if (s_stale(c)) SKIP("stale");
            if (IS("satisfies")) {
                printf("P r pred %d\n", aws_byte_cursor_satisfies_pred(&s_c[c], p) ? 1 : 0);
            } else {
                struct aws_byte_cursor r = IS("left_trim")    ? aws_byte_cursor_left_trim_pred(&s_c[c], p)
                                           : IS("right_trim") ? aws_byte_cursor_right_trim_pred(&s_c[c], p)
                                                              : aws_byte_cursor_trim_pred(&s_c[c], p);
                printf("P r cur ");
                s_put_cur(&r, s_cbase[c]);
                printf("\n");
            }
        } else if ((IS("starts_with") || IS("starts_with_ignore_case") || IS("cur_eq") || IS("cur_eq_ignore_case") ||
                    IS("compare_lexical") || IS("compare_lookup")) &&
                   n == 3) {
            int x = CS(t[1]), y = CS(t[2]);
            if (x < 0 || y < 0) BAD();
            if (IS("compare_lexical") && (s_c[x].ptr == NULL || s_c[y].ptr == NULL)) SKIP("precondition");
            if (s_stale(x) || s_stale(y)) SKIP("stale");
            if (IS("compare_lexical") || IS("compare_lookup")) {
                int r = IS("compare_lexical") ? aws_byte_cursor_compare_lexical(&s_c[x], &s_c[y])
                                              : aws_byte_cursor_compare_lookup(&s_c[x], &s_c[y], aws_lookup_table_to_lower_get());
                printf("P r int %d\n", r < 0 ? -1 : r > 0 ? 1 : 0);
            } else {
                bool r = IS("starts_with")               ? aws_byte_cursor_starts_with(&s_c[x], &s_c[y])
                         : IS("starts_with_ignore_case") ? aws_byte_cursor_starts_with_ignore_case(&s_c[x], &s_c[y])
                         : IS("cur_eq")                  ? aws_byte_cursor_eq(&s_c[x], &s_c[y])
                                                         : aws_byte_cursor_eq_ignore_case(&s_c[x], &s_c[y]);
                printf("P r pred %d\n", r ? 1 : 0);
            }
        } else if ((IS("cur_eq_buf") || IS("cur_eq_buf_ignore_case")) && n == 3) {
            int x = CS(t[1]), y = BS(t[2]);
            if (x < 0 || y < 0) BAD();
            if (s_bforged[y]) SKIP("forged");
            if (s_stale(x)) SKIP("stale");
            bool r = IS("cur_eq_buf") ? aws_byte_cursor_eq_byte_buf(&s_c[x], &s_b[y])
                                      : aws_byte_cursor_eq_byte_buf_ignore_case(&s_c[x], &s_b[y]);
            printf("P r pred %d\n", r ? 1 : 0);
        } else if (IS("dump_tables") && n == 1) {
            printf("P tolower ");
            hc_put_hex(aws_lookup_table_to_lower_get(), 256);
            printf("\nP hex2num ");
            hc_put_hex(aws_lookup_table_hex_to_num_get(), 256);
            printf("\n");
        } else if (IS("buf_is_valid") && n == 2) {
            int b = BS(t[1]);
            if (b < 0) BAD();
            printf("P r pred %d\n", aws_byte_buf_is_valid(&s_b[b]) ? 1 : 0);
        } else if (IS("cur_is_valid") && n == 2) {
            int c = CS(t[1]);
            if (c < 0) BAD();
            printf("P r pred %d\n", aws_byte_cursor_is_valid(&s_c[c]) ? 1 : 0);
        } else if ((IS("buf_from_c_str") || IS("cur_from_c_str")) && n == 3) {
            bool isbuf = t[0][0] == 'b';
            int x = isbuf ? BS(t[1]) : CS(t[1]);
            if (x < 0) BAD();
            if (isbuf && s_b[x].buffer) SKIP("occupied");
            size_t len;
            uint8_t *p = hc_hex_decode(t[2], &len);
            size_t slen = 0;
            while (slen < len && p[slen]) ++slen;
            if (isbuf && slen == 0) {
                /* the model allocates no block for an empty buffer */
                free(p);
                printf("P r -\n");
                s_b[x] = aws_byte_buf_from_c_str("");
                s_print_buf(x);
                goto done;
            }
            /* the string lives in a guarded pool block: strlen bytes + the terminator */
            size_t id = isbuf ? s_pool_block(slen + 1) : s_exact_block(slen + 1);
            memcpy(s_blk[id].ptr, p, slen);
            s_blk[id].ptr[slen] = 0;
            free(p);
            printf("P r -\n");
            if (isbuf) {
                s_b[x] = aws_byte_buf_from_c_str((const char *)s_blk[id].ptr);
                s_print_buf(x);
            } else {
                s_c[x] = aws_byte_cursor_from_c_str((const char *)s_blk[id].ptr);
                s_cbase[x] = id;
                s_print_cur(x);
            }
        } else if (IS("cur_from_string") && n == 3) {
            int c = CS(t[1]);
            if (c < 0) BAD();
            HC_CHECK(s_nstr < MAXSTR);
            size_t len;
            uint8_t *p = hc_hex_decode(t[2], &len);
            struct aws_string *str = aws_string_new_from_array(hc_allocator(), p, len);
            free(p);
            s_str[s_nstr++] = str;
            size_t id = s_new_block((uint8_t *)aws_string_bytes(str), len, false);
            s_blk[id].guarded = false;
            s_c[c] = aws_byte_cursor_from_string(str);
            s_cbase[c] = id;
            printf("P r -\n");
            s_print_cur(c);
        } else if (IS("write_from_whole_string") && n == 3) {
            int b = BS(t[1]);
            if (b < 0) BAD();
            size_t len;
            uint8_t *p = hc_hex_decode(t[2], &len);
            struct aws_string *str = aws_string_new_from_array(hc_allocator(), p, len);
            free(p);
            printf("P r %s\n", aws_byte_buf_write_from_whole_string(&s_b[b], str) ? "true" : "false");
            aws_string_destroy(str);
            s_print_buf(b);
        } else if ((IS("string_eq_cursor") || IS("string_eq_cursor_ignore_case") || IS("string_eq_buf") || IS("string_eq_buf_ignore_case")) &&
                   n == 3) {
            bool isbuf = t[0][10] == 'b';
            int x = isbuf ? BS(t[2]) : CS(t[2]);
            if (x < 0) BAD();
            if (!isbuf && s_stale(x)) SKIP("stale");
            if (isbuf && s_bforged[x]) SKIP("forged");
            size_t len;
            uint8_t *p = hc_hex_decode(t[1], &len);
            struct aws_string *str = aws_string_new_from_array(hc_allocator(), p, len);
            free(p);
            bool r = IS("string_eq_cursor")               ? aws_string_eq_byte_cursor(str, &s_c[x])
                     : IS("string_eq_cursor_ignore_case") ? aws_string_eq_byte_cursor_ignore_case(str, &s_c[x])
                     : IS("string_eq_buf")                ? aws_string_eq_byte_buf(str, &s_b[x])
                                                          : aws_string_eq_byte_buf_ignore_case(str, &s_b[x]);
            aws_string_destroy(str);
            printf("P r pred %d\n", r ? 1 : 0);
        } else if (IS("normalize_dir_sep") && n == 2) {
            int b = BS(t[1]);
            if (b < 0) BAD();
            if (s_bforged[b]) SKIP("forged");
            aws_normalize_directory_separator(&s_b[b]);
            printf("P r -\n");
            s_print_buf(b);
        } else if ((IS("string_from_cursor") || IS("string_from_buf")) && n == 2) {
            bool isbuf = t[0][12] == 'b';
            int x = isbuf ? BS(t[1]) : CS(t[1]);
            if (x < 0) BAD();
            if (!isbuf && s_stale(x)) SKIP("stale");
            if (isbuf && s_bforged[x]) SKIP("forged");
            if (!isbuf && s_c[x].len > LIMIT) SKIP("huge");
            struct aws_string *str = isbuf ? aws_string_new_from_buf(hc_allocator(), &s_b[x]) : aws_string_new_from_cursor(hc_allocator(), &s_c[x]);
            HC_CHECK(str != NULL);
            printf("P r OK len=%zu nul=%d ", str->len, aws_string_bytes(str)[str->len] == 0 ? 1 : 0);
            hc_put_hex(aws_string_bytes(str), str->len);
            printf("\n");
            aws_string_destroy(str);
        } else if (IS("is_zeroed") && n == 2) {
            int c = CS(t[1]);
            if (c < 0) BAD();
            if (s_stale(c)) SKIP("stale");
            if (s_c[c].len > LIMIT || s_c[c].ptr == NULL) SKIP("precondition");
            /* aws_is_mem_zeroed loads uint64_t through the pointer it is given: on a view that does not start 8-aligned
             * that is a misaligned load (UBSan alignment report at zero.inl:27 on the unchanged tree - reported to the
             * project owner, outside C01's wording).  The check therefore hands it an aligned exact-size copy. */
            {
                uint8_t *cp = malloc(s_c[c].len ? s_c[c].len : 1);
                memcpy(cp, s_c[c].ptr, s_c[c].len);
                printf("P r pred %d\n", aws_is_mem_zeroed(cp, s_c[c].len) ? 1 : 0);
                free(cp);
            }
        } else if (IS("hash_ignore_case") && n == 2) {
            int c = CS(t[1]);
            if (c < 0) BAD();
            if (s_stale(c)) SKIP("stale");
            uint64_t h1 = aws_hash_byte_cursor_ptr_ignore_case(&s_c[c]);
            uint64_t h2 = aws_hash_array_ignore_case(s_c[c].ptr, s_c[c].len);
            if (h1 != h2) printf("P MONITOR hash-mismatch\n");
            printf("P r OK %llu\n", (unsigned long long)h1);
        } else if ((IS("array_eq") || IS("array_eq_ignore_case")) && n == 3) {
            int x = CS(t[1]), y = CS(t[2]);
            if (x < 0 || y < 0) BAD();
            if (s_stale(x) || s_stale(y)) SKIP("stale");
            bool r = IS("array_eq") ? aws_array_eq(s_c[x].ptr, s_c[x].len, s_c[y].ptr, s_c[y].len)
                                    : aws_array_eq_ignore_case(s_c[x].ptr, s_c[x].len, s_c[y].ptr, s_c[y].len);
            printf("P r pred %d\n", r ? 1 : 0);
        } else if ((IS("array_eq_c_str") || IS("array_eq_c_str_ignore_case")) && n == 3) {
            int x = CS(t[1]);
            if (x < 0) BAD();
            if (s_stale(x)) SKIP("stale");
            size_t len;
            uint8_t *p = hc_hex_decode(t[2], &len);
            char *str = malloc(len + 1);
            memcpy(str, p, len);
            str[len] = 0;
            free(p);
            bool r = IS("array_eq_c_str") ? aws_array_eq_c_str(s_c[x].ptr, s_c[x].len, str)
                                          : aws_array_eq_c_str_ignore_case(s_c[x].ptr, s_c[x].len, str);
            free(str);
            printf("P r pred %d\n", r ? 1 : 0);
        } else if ((IS("write_float_be32") || IS("write_float_be64")) && n == 3) {
            int b = BS(t[1]);
            uint64_t bits = hc_parse_u64(t[2]);
            if (b < 0) BAD();
            bool ok;
            if (IS("write_float_be32")) {
                uint32_t w = (uint32_t)bits;
                float f;
                memcpy(&f, &w, 4);
                ok = aws_byte_buf_write_float_be32(&s_b[b], f);
            } else {
                double f;
                memcpy(&f, &bits, 8);
                ok = aws_byte_buf_write_float_be64(&s_b[b], f);
            }
            printf("P r %s\n", ok ? "true" : "false");
            s_print_buf(b);
        } else if ((IS("read_float_be32") || IS("read_float_be64")) && n == 2) {
            int c = CS(t[1]);
            if (c < 0) BAD();
            if (s_stale(c)) SKIP("stale");
            bool ok;
            uint64_t val = 0;
            if (IS("read_float_be32")) {
                float f = 0;
                ok = aws_byte_cursor_read_float_be32(&s_c[c], &f);
                uint32_t w;
                memcpy(&w, &f, 4);
                val = w;
            } else {
                double f = 0;
                ok = aws_byte_cursor_read_float_be64(&s_c[c], &f);
                memcpy(&val, &f, 8);
            }
            if (ok) {
                printf("P r true %llu\n", (unsigned long long)val);
            } else {
                printf("P r false\n");
            }
            s_print_cur(c);
        } else if (IS("init_cache") && n >= 3 && n <= 5) {
            int b = BS(t[1]), c[3] = {-1, -1, -1};
            if (b < 0) BAD();
            for (int i = 2; i < n; ++i) {
                c[i - 2] = CS(t[i]);
                if (c[i - 2] < 0) BAD();
            }
            if (s_b[b].buffer) SKIP("occupied");
            for (int i = 2; i < n; ++i) {
                if (s_stale(c[i - 2])) SKIP("stale");
            }
            size_t total = 0;
            bool ovf = false;
            for (int i = 2; i < n; ++i) {
                if (aws_add_size_checked(total, s_c[c[i - 2]].len, &total)) ovf = true;
            }
            if (!ovf && total > LIMIT) SKIP("huge");
            int rc;
            if (n == 3) {
                rc = aws_byte_buf_init_cache_and_update_cursors(&s_b[b], &s_walloc, &s_c[c[0]], NULL);
            } else if (n == 4) {
                rc = aws_byte_buf_init_cache_and_update_cursors(&s_b[b], &s_walloc, &s_c[c[0]], &s_c[c[1]], NULL);
            } else {
                rc = aws_byte_buf_init_cache_and_update_cursors(&s_b[b], &s_walloc, &s_c[c[0]], &s_c[c[1]], &s_c[c[2]], NULL);
            }
            s_print_rc(rc);
            s_print_buf(b);
            if (rc == AWS_OP_SUCCESS) {
                for (int i = 2; i < n; ++i) {
                    s_cbase[c[i - 2]] = s_c[c[i - 2]].ptr ? s_base_of_buf(b) : NONE;
                    s_print_cur(c[i - 2]);
                }
            }
        } else if (IS("init_from_file") && n == 8) {
            int b = BS(t[1]);
            if (b < 0) BAD();
            size_t statlen = hc_parse_size(t[3]), hint = hc_parse_size(t[7]);
            bool use_hint = !strcmp(t[6], "hint");
            if ((strcmp(t[2], "0") && strcmp(t[2], "1")) || (!use_hint && strcmp(t[6], "nohint")) || statlen > 65536 || hint > 65536) BAD();
            size_t dlen;
            uint8_t *data = hc_hex_decode(t[4], &dlen);
            s_sim_nsched = 0;
            if (strcmp(t[5], "-")) {
                char *q = t[5];
                while (*q && s_sim_nsched < 64) {
                    s_sim_sched[s_sim_nsched++] = (size_t)strtoull(q, &q, 10);
                    if (*q == ',') ++q;
                }
            }
            if (s_b[b].buffer) {
                free(data);
                SKIP("occupied");
            }
            char path[64];
            snprintf(path, sizeof(path), "/tmp/verif_c01_%ld.bin", (long)getpid());
            if (t[2][0] == '1') {
                FILE *fp = fopen(path, "wb");
                HC_CHECK(fp != NULL);
                HC_CHECK(ftruncate(fileno(fp), (off_t)statlen) == 0);
                fclose(fp);
            } else {
                unlink(path);
            }
            s_sim_data = data;
            s_sim_len = dlen;
            s_sim_pos = 0;
            s_sim_isched = 0;
            s_sim_eof = false;
            s_sim_active = true;
            int rc = use_hint ? aws_byte_buf_init_from_file(&s_b[b], &s_walloc, path)
                              : aws_byte_buf_init_from_file_with_size_hint(&s_b[b], &s_walloc, path, hint);
            s_sim_active = false;
            unlink(path);
            free(data);
            if (rc == AWS_OP_SUCCESS && (s_b[b].len >= s_b[b].capacity || s_b[b].buffer[s_b[b].len] != 0)) {
                printf("P MONITOR no-nul-terminator len=%zu cap=%zu\n", s_b[b].len, s_b[b].capacity);
            }
            s_print_rc(rc);
            s_print_buf(b);
        } else {
            printf("bad-op\n");
        }
    done:
        s_secure_ctx = false;
        s_check_guards();
    }
    s_reset();
    fflush(stdout);
    return 0;
}
