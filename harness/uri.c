/* C13 harness: drives uri.c (parser, builder, query iteration, percent coders) through an op file.
 * Every input lives in an exact-size heap block (ASan red zones are tight); component views are
 * reported relative to the URI object's own uri_str buffer. */
#include "h_common.h"
#include <aws/common/array_list.h>
#include <aws/common/byte_buf.h>
#include <aws/common/uri.h>
#include <stdlib.h>
#include <string.h>

static void s_put_view(const char *name, const struct aws_byte_buf *str, const struct aws_byte_cursor *c) {
    if (c->ptr == NULL) {
        /* a zeroed cursor; a NULL pointer with a non-zero length would be a view outside the text */
        printf("P %s len=%zu bytes=- inside=%d\n", name, c->len, c->len == 0);
        printf("W %s present=0 off=0\n", name);
        return;
    }
    uintptr_t b = (uintptr_t)str->buffer, e = b + str->len, p = (uintptr_t)c->ptr;
    int inside = str->buffer != NULL && p >= b && p <= e && c->len <= e - p;
    printf("P %s len=%zu bytes=", name, c->len);
    if (inside) {
        hc_put_hex(c->ptr, c->len);
    } else {
        printf("?");
    }
    printf(" inside=%d\n", inside);
    printf("W %s present=1 off=%zu\n", name, inside ? (size_t)(p - b) : (size_t)0);
}

static void s_put_uri(const struct aws_uri *u) {
    /* through the public accessors where uri.h has one (what a caller sees); the struct fields otherwise */
    s_put_view("scheme", &u->uri_str, aws_uri_scheme(u));
    s_put_view("authority", &u->uri_str, aws_uri_authority(u));
    s_put_view("userinfo", &u->uri_str, &u->userinfo);
    s_put_view("user", &u->uri_str, &u->user);
    s_put_view("password", &u->uri_str, &u->password);
    s_put_view("host", &u->uri_str, aws_uri_host_name(u));
    s_put_view("path", &u->uri_str, aws_uri_path(u));
    s_put_view("query", &u->uri_str, aws_uri_query_string(u));
    s_put_view("path_and_query", &u->uri_str, aws_uri_path_and_query(u));
    printf("P port=%u\n", (unsigned)aws_uri_port(u));
    /* the object's own bookkeeping: size tag, the allocator it was given, and an owned copy of the text */
    if (u->self_size != sizeof(struct aws_uri) || u->allocator != hc_allocator() ||
        (u->uri_str.buffer != NULL && u->uri_str.allocator != hc_allocator()) || u->uri_str.len > u->uri_str.capacity) {
        printf("P MONITOR aws_uri-bookkeeping self_size=%zu allocator_ok=%d uri_str_allocator_ok=%d\n", u->self_size,
               u->allocator == hc_allocator(), u->uri_str.allocator == hc_allocator());
    }
    /* an accessor must hand out the field itself */
    if (aws_uri_scheme(u) != &u->scheme || aws_uri_authority(u) != &u->authority || aws_uri_host_name(u) != &u->host_name ||
        aws_uri_path(u) != &u->path || aws_uri_query_string(u) != &u->query_string ||
        aws_uri_path_and_query(u) != &u->path_and_query || aws_uri_port(u) != u->port) {
        printf("P MONITOR accessor-does-not-return-its-field\n");
    }
}

static int s_all_zero(const void *p, size_t n) {
    const uint8_t *b = p;
    for (size_t i = 0; i < n; ++i) {
        if (b[i]) {
            return 0;
        }
    }
    return 1;
}

/* aws_uri_clean_up leaves a zeroed object (a second clean_up, or a look at a stale cursor, must be harmless) */
static void s_clean_up_checked(struct aws_uri *uri) {
    aws_uri_clean_up(uri);
    if (!s_all_zero(uri, sizeof(*uri))) {
        printf("P MONITOR clean_up-left-a-non-zeroed-aws_uri\n");
    }
    aws_uri_clean_up(uri); /* idempotent */
}

static void s_leak_check(long base) {
    if (hc_live_blocks() != base) {
        printf("P MONITOR live-blocks=%ld expected=%ld\n", hc_live_blocks(), base);
    }
}

static void s_parse(const char *hex) {
    size_t n;
    uint8_t *in = hc_hex_decode(hex, &n);
    struct aws_byte_cursor cur = aws_byte_cursor_from_array(in, n);
    struct aws_uri uri;
    memset(&uri, 0xCD, sizeof(uri));
    long base = hc_live_blocks();
    int rc = aws_uri_init_parse(&uri, hc_allocator(), &cur);
    printf("P parse rc=%s\n", hc_err(rc));
    if (rc == AWS_OP_SUCCESS) {
        int same = uri.uri_str.len == n && (n == 0 || memcmp(uri.uri_str.buffer, in, n) == 0) &&
                   uri.uri_str.buffer != in;
        printf("P uri_str len=%zu same=%d\n", uri.uri_str.len, same);
        s_put_uri(&uri);
        s_clean_up_checked(&uri);
    } else {
        printf("P zeroed=%d\n", s_all_zero(&uri, sizeof(uri)));
    }
    s_leak_check(base);
    free(in);
}

static const char *s_kv(const char *key, const char *tok) {
    size_t k = strlen(key);
    if (!strncmp(tok, key, k) && tok[k] == '=') {
        return tok + k + 1;
    }
    return NULL;
}

#define MAXP 64
struct pbytes {
    uint8_t *k, *v;
    size_t kl, vl;
};

/* "k:v,k:v" (hex, empty string = empty bytes) or "-" (empty list) */
static int s_parse_params(const char *s, struct pbytes *out, size_t *n) {
    *n = 0;
    if (!strcmp(s, "-")) {
        return 1;
    }
    char *dup = strdup(s);
    char *p = dup;
    int ok = 1;
    while (ok) {
        char *comma = strchr(p, ',');
        if (comma) {
            *comma = 0;
        }
        char *colon = strchr(p, ':');
        if (!colon || strchr(colon + 1, ':') || *n >= MAXP) {
            ok = 0;
            break;
        }
        *colon = 0;
        struct pbytes *e = &out[(*n)++];
        e->k = hc_hex_decode(*p ? p : "-", &e->kl);
        e->v = hc_hex_decode(colon[1] ? colon + 1 : "-", &e->vl);
        if (!comma) {
            break;
        }
        p = comma + 1;
    }
    free(dup);
    return ok;
}

static void s_build(char **t, int n) {
    /* build scheme=<hex> host=<hex> port=<n> path=<hex> [q=<hex>] [params=<list>] */
    const char *sc, *ho, *po, *pa, *q = NULL, *ps = NULL;
    if (n < 5 || n > 7 || !(sc = s_kv("scheme", t[1])) || !(ho = s_kv("host", t[2])) || !(po = s_kv("port", t[3])) ||
        !(pa = s_kv("path", t[4]))) {
        printf("bad-op\n");
        return;
    }
    if (n == 6) {
        q = s_kv("q", t[5]);
        ps = q ? NULL : s_kv("params", t[5]);
        if (!q && !ps) {
            printf("bad-op\n");
            return;
        }
    } else if (n == 7) {
        q = s_kv("q", t[5]);
        ps = s_kv("params", t[6]);
        if (!q || !ps) {
            printf("bad-op\n");
            return;
        }
    }
    uint64_t port = hc_parse_u64(po);
    if (port > UINT32_MAX) {
        printf("bad-op\n");
        return;
    }
    size_t scl, hol, pal, ql = 0, np = 0;
    uint8_t *scb = hc_hex_decode(sc, &scl), *hob = hc_hex_decode(ho, &hol), *pab = hc_hex_decode(pa, &pal);
    uint8_t *qb = q ? hc_hex_decode(q, &ql) : NULL;
    static struct pbytes pb[MAXP];
    struct aws_array_list list;
    bool have_list = false;
    if (ps) {
        if (!s_parse_params(ps, pb, &np)) {
            printf("bad-op\n");
            return;
        }
        HC_CHECK(aws_array_list_init_dynamic(&list, hc_allocator(), 4, sizeof(struct aws_uri_param)) == AWS_OP_SUCCESS);
        have_list = true;
        for (size_t i = 0; i < np; ++i) {
            struct aws_uri_param p = {
                .key = aws_byte_cursor_from_array(pb[i].k, pb[i].kl),
                .value = aws_byte_cursor_from_array(pb[i].v, pb[i].vl),
            };
            HC_CHECK(aws_array_list_push_back(&list, &p) == AWS_OP_SUCCESS);
        }
    }
    struct aws_uri_builder_options opt;
    AWS_ZERO_STRUCT(opt);
    opt.scheme = aws_byte_cursor_from_array(scb, scl);
    opt.host_name = aws_byte_cursor_from_array(hob, hol);
    opt.path = aws_byte_cursor_from_array(pab, pal);
    opt.port = (uint32_t)port;
    opt.query_params = have_list ? &list : NULL;
    if (qb) {
        opt.query_string = aws_byte_cursor_from_array(qb, ql);
    }
    struct aws_uri uri;
    memset(&uri, 0xCD, sizeof(uri));
    long base = hc_live_blocks();
    int rc = aws_uri_init_from_builder_options(&uri, hc_allocator(), &opt);
    printf("P build rc=%s\n", hc_err(rc));
    if (rc == AWS_OP_SUCCESS) {
        printf("P uri_str bytes=");
        hc_put_hex(uri.uri_str.buffer, uri.uri_str.len);
        printf("\n");
        printf("W cap=%zu\n", uri.uri_str.capacity);
        if (uri.uri_str.len > uri.uri_str.capacity) {
            printf("P MONITOR len>capacity\n");
        }
        s_put_uri(&uri);
        s_clean_up_checked(&uri);
    }
    s_leak_check(base);
    if (have_list) {
        aws_array_list_clean_up(&list);
    }
    for (size_t i = 0; i < np; ++i) {
        free(pb[i].k);
        free(pb[i].v);
    }
    free(scb);
    free(hob);
    free(pab);
    free(qb);
}

/* output buffer with `prelen` bytes of content (byte i = 7i+1) and capacity max(prelen, cap) */
static int s_start_buf(struct aws_byte_buf *buf, char **t, int n, int first, size_t *prelen) {
    size_t pl = 0, cap = 0;
    if (n > first + 2) {
        return 0;
    }
    if (n > first) {
        pl = hc_parse_size(t[first]);
        cap = pl;
    }
    if (n > first + 1) {
        cap = hc_parse_size(t[first + 1]);
        if (cap < pl) {
            cap = pl;
        }
    }
    HC_CHECK(aws_byte_buf_init(buf, hc_allocator(), cap) == AWS_OP_SUCCESS);
    for (size_t i = 0; i < pl; ++i) {
        buf->buffer[i] = (uint8_t)(7 * i + 1);
    }
    buf->len = pl;
    *prelen = pl;
    return 1;
}

static int s_prefix_ok(const struct aws_byte_buf *buf, size_t pl) {
    if (buf->len < pl) {
        return 0;
    }
    for (size_t i = 0; i < pl; ++i) {
        if (buf->buffer[i] != (uint8_t)(7 * i + 1)) {
            return 0;
        }
    }
    return 1;
}

static void s_coder(char **t, int n, int which) {
    struct aws_byte_buf buf;
    size_t pl, len;
    long base = hc_live_blocks();
    if (n < 2 || !s_start_buf(&buf, t, n, 2, &pl)) {
        printf("bad-op\n");
        return;
    }
    uint8_t *in = hc_hex_decode(t[1], &len);
    struct aws_byte_cursor cur = aws_byte_cursor_from_array(in, len);
    int rc;
    const char *tag = which == 2 ? "dec" : "enc";
    if (which == 0) {
        rc = aws_byte_buf_append_encoding_uri_path(&buf, &cur);
    } else if (which == 1) {
        rc = aws_byte_buf_append_encoding_uri_param(&buf, &cur);
    } else {
        rc = aws_byte_buf_append_decoding_uri(&buf, &cur);
    }
    if (buf.len > buf.capacity) {
        printf("P MONITOR len>capacity\n");
    }
    if (rc == AWS_OP_SUCCESS) {
        printf("P %s rc=OK len=%zu out=", tag, buf.len);
        hc_put_hex(buf.buffer + pl, buf.len >= pl ? buf.len - pl : 0);
        printf(" prefix=%d\n", s_prefix_ok(&buf, pl));
        if (which == 2) {
            printf("W written=");
            hc_put_hex(buf.buffer + pl, buf.len >= pl ? buf.len - pl : 0);
            printf(" cap=%zu\n", buf.capacity);
        } else {
            printf("W cap=%zu\n", buf.capacity);
        }
    } else if (which == 2) {
        printf("P dec rc=%s prefix=%d\n", hc_last_error_name(), s_prefix_ok(&buf, pl));
        printf("W written=");
        hc_put_hex(buf.buffer + pl, buf.len >= pl ? buf.len - pl : 0);
        printf(" cap=%zu\n", buf.capacity);
    } else {
        printf("P enc rc=%s\n", hc_last_error_name());
    }
    aws_byte_buf_clean_up(&buf);
    s_leak_check(base);
    free(in);
}

static void s_put_param(const char *tag, struct aws_byte_cursor q, const struct aws_uri_param *p) {
    uintptr_t b = (uintptr_t)q.ptr, e = b + q.len;
    uintptr_t k = (uintptr_t)p->key.ptr, v = (uintptr_t)p->value.ptr;
    int kin = q.ptr && p->key.ptr && k >= b && k <= e && p->key.len <= e - k;
    int vin = q.ptr && p->value.ptr && v >= b && v <= e && p->value.len <= e - v;
    printf("P %s key=", tag);
    if (kin) {
        hc_put_hex(p->key.ptr, p->key.len);
    } else {
        printf("?");
    }
    printf(" value=");
    if (vin) {
        hc_put_hex(p->value.ptr, p->value.len);
    } else {
        printf("?");
    }
    printf(" inside=%d\n", kin && vin);
    printf("W %s koff=%zu voff=%zu\n", tag, kin ? (size_t)(k - b) : (size_t)0, vin ? (size_t)(v - b) : (size_t)0);
}

static void s_iter(struct aws_byte_cursor q, const struct aws_uri *uri) {
    struct aws_uri_param param;
    AWS_ZERO_STRUCT(param);
    size_t count = 0, limit = q.len + 8;
    for (;;) {
        bool more = uri ? aws_uri_query_string_next_param(uri, &param) : aws_query_string_next_param(q, &param);
        if (!more) {
            break;
        }
        if (count >= limit) {
            printf("P MONITOR iteration-does-not-terminate\n");
            break;
        }
        ++count;
        s_put_param("pair", q, &param);
    }
    printf("P pairs n=%zu\n", count);
}

static void s_list(struct aws_byte_cursor q, const struct aws_uri *uri) {
    struct aws_array_list list;
    HC_CHECK(aws_array_list_init_dynamic(&list, hc_allocator(), 2, sizeof(struct aws_uri_param)) == AWS_OP_SUCCESS);
    int rc = uri ? aws_uri_query_string_params(uri, &list) : aws_query_string_params(q, &list);
    size_t n = aws_array_list_length(&list);
    printf("P list rc=%s n=%zu\n", hc_err(rc), n);
    for (size_t i = 0; i < n; ++i) {
        struct aws_uri_param p;
        HC_CHECK(aws_array_list_get_at(&list, &p, i) == AWS_OP_SUCCESS);
        s_put_param("item", q, &p);
    }
    aws_array_list_clean_up(&list);
}

/* q_lists <d|s><cap> <nseed> <arg>...: the list forms called one after the other on ONE output list (dynamic with
 * initial capacity cap, or static with cap slots) that starts with nseed default entries; arg = query hex | null |
 * u<uri hex> (through aws_uri_query_string_params).  Expected: previous contents ++ pairs of each query, in order. */
#define MAXARGS 8
static void s_lists(char **t, int n) {
    static const char *dk[] = {"dk0", "dk1", "dk2", "dk3", "dk4", "dk5", "dk6", "dk7", "dk8", "dk9"};
    static const char *dv[] = {"dv0", "dv1", "dv2", "dv3", "dv4", "dv5", "dv6", "dv7", "dv8", "dv9"};
    if (n < 4 || n > 3 + MAXARGS || (t[1][0] != 'd' && t[1][0] != 's')) {
        printf("bad-op\n");
        return;
    }
    size_t cap = hc_parse_size(t[1] + 1), nseed = hc_parse_size(t[2]);
    int is_static = t[1][0] == 's';
    if (nseed > 9 || cap == 0 || (is_static && cap < nseed)) {
        printf("bad-op\n");
        return;
    }
    long base = hc_live_blocks();
    struct aws_array_list list;
    struct aws_uri_param *slots = NULL;
    if (is_static) {
        slots = malloc(cap * sizeof(struct aws_uri_param)); /* exact size: ASan sees a write behind the last slot */
        aws_array_list_init_static(&list, slots, cap, sizeof(struct aws_uri_param));
    } else {
        HC_CHECK(aws_array_list_init_dynamic(&list, hc_allocator(), cap, sizeof(struct aws_uri_param)) == AWS_OP_SUCCESS);
    }
    for (size_t i = 0; i < nseed; ++i) {
        struct aws_uri_param p = {.key = aws_byte_cursor_from_c_str(dk[i]), .value = aws_byte_cursor_from_c_str(dv[i])};
        HC_CHECK(aws_array_list_push_back(&list, &p) == AWS_OP_SUCCESS);
    }
    uint8_t *in[MAXARGS];
    struct aws_uri uris[MAXARGS];
    bool have_uri[MAXARGS];
    int nargs = n - 3;
    printf("P lists rcs=");
    for (int a = 0; a < nargs; ++a) {
        const char *arg = t[3 + a];
        in[a] = NULL;
        have_uri[a] = false;
        int rc;
        if (arg[0] == 'u') {
            size_t len;
            in[a] = hc_hex_decode(arg + 1, &len);
            struct aws_byte_cursor cur = aws_byte_cursor_from_array(in[a], len);
            if (aws_uri_init_parse(&uris[a], hc_allocator(), &cur)) {
                printf("%sPARSE", a ? "," : "");
                continue;
            }
            have_uri[a] = true;
            rc = aws_uri_query_string_params(&uris[a], &list);
        } else {
            struct aws_byte_cursor q;
            if (!strcmp(arg, "null")) {
                AWS_ZERO_STRUCT(q);
            } else {
                size_t len;
                in[a] = hc_hex_decode(arg, &len);
                q = aws_byte_cursor_from_array(in[a], len);
            }
            rc = aws_query_string_params(q, &list);
        }
        printf("%s%s", a ? "," : "", hc_err(rc));
    }
    size_t len = aws_array_list_length(&list);
    printf(" n=%zu\n", len);
    for (size_t i = 0; i < len; ++i) {
        struct aws_uri_param p;
        HC_CHECK(aws_array_list_get_at(&list, &p, i) == AWS_OP_SUCCESS);
        printf("P litem key=");
        hc_put_hex(p.key.ptr, p.key.len);
        printf(" value=");
        hc_put_hex(p.value.ptr, p.value.len);
        printf("\n");
    }
    aws_array_list_clean_up(&list);
    free(slots);
    for (int a = 0; a < nargs; ++a) {
        if (have_uri[a]) {
            aws_uri_clean_up(&uris[a]);
        }
        free(in[a]);
    }
    s_leak_check(base);
}

static void s_query_op(const char *arg, int list, int via_uri) {
    long base = hc_live_blocks();
    if (!via_uri) {
        struct aws_byte_cursor q;
        uint8_t *in = NULL;
        if (!strcmp(arg, "null")) {
            AWS_ZERO_STRUCT(q);
        } else {
            size_t n;
            in = hc_hex_decode(arg, &n);
            q = aws_byte_cursor_from_array(in, n);
        }
        if (list) {
            s_list(q, NULL);
        } else {
            s_iter(q, NULL);
        }
        free(in);
        return;
    }
    size_t n;
    uint8_t *in = hc_hex_decode(arg, &n);
    struct aws_byte_cursor cur = aws_byte_cursor_from_array(in, n);
    struct aws_uri uri;
    int rc = aws_uri_init_parse(&uri, hc_allocator(), &cur);
    printf("P parse rc=%s\n", hc_err(rc));
    if (rc == AWS_OP_SUCCESS) {
        if (list) {
            s_list(uri.query_string, &uri);
        } else {
            s_iter(uri.query_string, &uri);
        }
        s_clean_up_checked(&uri);
    }
    s_leak_check(base);
    free(in);
}

int main(void) {
    char *t[HC_MAX_TOKS];
    int n;
    aws_common_library_init(hc_allocator());
    while ((n = hc_next_line(t)) >= 0) {
        if (!strcmp(t[0], "case")) {
            hc_case_begin(t[1]);
        } else if (!strcmp(t[0], "parse") && n >= 2) { /* further tokens: annotation for the oracle */
            s_parse(t[1]);
        } else if (!strcmp(t[0], "build")) {
            s_build(t, n);
        } else if (!strcmp(t[0], "enc_path")) {
            s_coder(t, n, 0);
        } else if (!strcmp(t[0], "enc_param")) {
            s_coder(t, n, 1);
        } else if (!strcmp(t[0], "dec")) {
            s_coder(t, n, 2);
        } else if (!strcmp(t[0], "q_lists")) {
            s_lists(t, n);
        } else if (!strcmp(t[0], "q_iter") && n == 2) {
            s_query_op(t[1], 0, 0);
        } else if (!strcmp(t[0], "q_list") && n == 2) {
            s_query_op(t[1], 1, 0);
        } else if (!strcmp(t[0], "uq_iter") && n >= 2) {
            s_query_op(t[1], 0, 1);
        } else if (!strcmp(t[0], "uq_list") && n >= 2) {
            s_query_op(t[1], 1, 1);
        } else {
            printf("bad-op\n");
        }
        fflush(stdout);
    }
    return 0;
}
