/* C19 threads stage: date-time conversions of different instants on several threads at once.
 *
 * aws_date_time keeps everything in the caller's struct and the library converts with the re-entrant libc calls
 * (gmtime_r / localtime_r / timegm write only into the caller's struct tm), so converting different instants on
 * different threads is legal.  Each thread owns a few instants far apart in the calendar; before the threads
 * start, the expected results (accessors, the six UTC texts, a parse of the full ISO text with an offset) are
 * computed single-threaded with the same library -- those values are what the main correspondence run checks
 * against the model and the calendar oracle.  The threads then repeat init_epoch_secs / init_epoch_millis /
 * to_utc_time[_short]_str / init_from_str and compare every result with their own table.
 *
 * usage: datetime_threads <iterations>
 * output: `P threads ok <conversions>`, `P threads skipped <why>` or `P MONITOR ...` lines; exit 0 / 1 */
#include "h_common.h"
#include <aws/common/byte_buf.h>
#include <aws/common/date_time.h>
#include <pthread.h>
#include <stdlib.h>
#include <string.h>

#define N_THREADS 6
#define N_INST 4

struct expect {
    long long secs;
    unsigned y, d, h, mi, s;
    int mon, wd;
    char text[6][40]; /* rfc822 / iso / basic, full and date-only */
    size_t len[6];
    char offs_text[48]; /* ISO text of secs written with a +05:30 offset */
};

static struct expect s_tab[N_THREADS][N_INST];
static long s_iterations;
static long s_done[N_THREADS];
static int s_bad[N_THREADS];

static void s_fill(struct expect *e, const struct aws_date_time *dt) {
    e->y = aws_date_time_year(dt, false);
    e->mon = (int)aws_date_time_month(dt, false);
    e->d = aws_date_time_month_day(dt, false);
    e->wd = (int)aws_date_time_day_of_week(dt, false);
    e->h = aws_date_time_hour(dt, false);
    e->mi = aws_date_time_minute(dt, false);
    e->s = aws_date_time_second(dt, false);
}

static bool s_same_fields(const struct expect *e, const struct aws_date_time *dt) {
    struct expect g;
    s_fill(&g, dt);
    return g.y == e->y && g.mon == e->mon && g.d == e->d && g.wd == e->wd && g.h == e->h && g.mi == e->mi && g.s == e->s;
}

static int s_text(const struct aws_date_time *dt, int k, char *out, size_t *len) {
    uint8_t buf[64];
    struct aws_byte_buf b = aws_byte_buf_from_empty_array(buf, sizeof(buf));
    enum aws_date_format f = (enum aws_date_format)(k % 3);
    int rc = k < 3 ? aws_date_time_to_utc_time_str(dt, f, &b) : aws_date_time_to_utc_time_short_str(dt, f, &b);
    if (rc != AWS_OP_SUCCESS || b.len >= 40) {
        return -1;
    }
    memcpy(out, buf, b.len);
    out[b.len] = 0;
    *len = b.len;
    return 0;
}

static void s_precompute(void) {
    /* instants: per thread a different century, per slot a different season / time of day */
    for (int t = 0; t < N_THREADS; ++t) {
        for (int i = 0; i < N_INST; ++i) {
            struct expect *e = &s_tab[t][i];
            e->secs = 2147483648LL + (long long)t * 4102444800LL / 1 + (long long)i * 7948800LL + (long long)t * 3661LL + i * 59;
            if (t == 0 && i == 0) {
                e->secs = 2147483648LL;
            }
            if (t == 1 && i == 0) {
                e->secs = 4107542400LL; /* 2100-03-01 */
            }
            struct aws_date_time dt;
            aws_date_time_init_epoch_secs(&dt, (double)e->secs);
            s_fill(e, &dt);
            for (int k = 0; k < 6; ++k) {
                HC_CHECK(s_text(&dt, k, e->text[k], &e->len[k]) == 0);
            }
            /* the same instant written 5 h 30 min east */
            struct aws_date_time sh;
            aws_date_time_init_epoch_secs(&sh, (double)(e->secs + 19800));
            size_t l = 0;
            char tmp[40];
            HC_CHECK(s_text(&sh, 1, tmp, &l) == 0 && l == 20);
            memcpy(e->offs_text, tmp, 19);
            memcpy(e->offs_text + 19, "+05:30", 7);
        }
    }
}

static void s_report(int t, long it, const struct expect *e, const char *what) {
    if (s_bad[t]++ < 3) {
        printf("P MONITOR thread %d iteration %ld instant %lld: %s (expected %s)\n", t, it, e->secs, what, e->text[1]);
    }
}

static void *s_worker(void *arg) {
    int t = (int)(intptr_t)arg;
    for (long it = 0; it < s_iterations; ++it) {
        const struct expect *e = &s_tab[t][it % N_INST];
        struct aws_date_time dt;
        if (it & 1) {
            aws_date_time_init_epoch_millis(&dt, (uint64_t)e->secs * 1000U + 7);
        } else {
            aws_date_time_init_epoch_secs(&dt, (double)e->secs);
        }
        if ((long long)dt.timestamp != e->secs || !s_same_fields(e, &dt)) {
            char got[40];
            size_t l = 0;
            if (s_text(&dt, 1, got, &l)) {
                strcpy(got, "?");
            }
            char msg[96];
            snprintf(msg, sizeof(msg), "accessors after init report %s", got);
            s_report(t, it, e, msg);
        }
        int k = (int)(it % 6);
        char got[40];
        size_t l = 0;
        if (s_text(&dt, k, got, &l) || l != e->len[k] || memcmp(got, e->text[k], l)) {
            s_report(t, it, e, "formatted text differs");
        }
        struct aws_date_time p;
        struct aws_byte_cursor cur = aws_byte_cursor_from_c_str(e->offs_text);
        if (aws_date_time_init_from_str_cursor(&p, &cur, AWS_DATE_FORMAT_AUTO_DETECT) != AWS_OP_SUCCESS ||
            (long long)p.timestamp != e->secs || !s_same_fields(e, &p)) {
            s_report(t, it, e, "parse of the offset text gives another instant / other fields");
        }
        s_done[t] += 3;
    }
    return NULL;
}

int main(int argc, char **argv) {
    s_iterations = argc > 1 ? atol(argv[1]) : 20000;
    aws_common_library_init(hc_allocator());
    s_precompute();
    pthread_t th[N_THREADS];
    int started = 0;
    for (int t = 0; t < N_THREADS; ++t) {
        if (pthread_create(&th[t], NULL, s_worker, (void *)(intptr_t)t) != 0) {
            break;
        }
        ++started;
    }
    for (int t = 0; t < started; ++t) {
        pthread_join(th[t], NULL);
    }
    if (started < 2) {
        printf("P threads skipped pthread_create failed after %d threads\n", started);
        return 0;
    }
    long total = 0;
    int bad = 0;
    for (int t = 0; t < started; ++t) {
        total += s_done[t];
        bad += s_bad[t];
    }
    if (bad) {
        printf("P threads FAILED %d mismatches in %ld conversions on %d threads\n", bad, total, started);
        return 1;
    }
    printf("P threads ok %ld\n", total);
    return 0;
}
