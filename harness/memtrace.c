/* C17 harness: the real tracing allocator (source/memtrace.c compiled from /repo with
 * memtrace_hooks.h force-included) on top of a harness-side parent allocator that hands out
 * addresses on command.
 *
 *   memtrace                      op-file interpreter on stdin (sequential histories + injected operations)
 *   memtrace threads <seed> <nthreads> <rounds> <ops> <level> <frames>
 *                                 real threads hammering one tracer; accounting checked at every quiescent point
 */
#include "h_common.h"
#include <aws/common/allocator.h>
#include <aws/common/atomics.h>
#include <aws/common/hash_table.h>
#include <aws/common/logging.h>
#include <pthread.h>
#include <sched.h>
#include <signal.h>
#include <unistd.h>
#include <aws/common/system_info.h>
#include <stdarg.h>
#include <stdlib.h>
#include <string.h>

#if defined(__SANITIZE_ADDRESS__)
#    include <sanitizer/asan_interface.h>
#else
#    define ASAN_POISON_MEMORY_REGION(a, s) ((void)(a), (void)(s))
#    define ASAN_UNPOISON_MEMORY_REGION(a, s) ((void)(a), (void)(s))
#endif

enum { VSP_LOAD = 0, VSP_STORE = 1, VSP_RMW = 2, VSP_CAS = 3, VSP_XCHG = 4, VSP_LOCK = 5, VSP_UNLOCK = 6 };

/* ------------------------------------------------------------------ parent allocator */
#define BIG_LIMIT 1048576u
#define SMALL_CAP 1024u
#define JUNK 0xCD
#define FAKE_SLOTS 64
#define FAKE_BASE ((uintptr_t)0x700000000000ull)
#define FAKE_STRIDE ((uintptr_t)0x1000)
#define CACHE_MAX 512

struct phdr {
    size_t size;
    size_t cap;
};

static pthread_mutex_t s_par_mu = PTHREAD_MUTEX_INITIALIZER;
static void *s_cache[CACHE_MAX];
static size_t s_cache_n;
static struct {
    bool used;
    size_t size, cap;
} s_fake[FAKE_SLOTS];
static long s_par_live, s_par_acquires, s_par_releases, s_par_moves, s_par_keeps;
static __thread bool s_keep; /* the next parent realloc keeps the address if the capacity allows */

static bool s_is_fake(const void *p) {
    uintptr_t a = (uintptr_t)p;
    return a >= FAKE_BASE && a < FAKE_BASE + FAKE_SLOTS * FAKE_STRIDE;
}
static size_t s_fake_slot(const void *p) {
    return (size_t)(((uintptr_t)p - FAKE_BASE) / FAKE_STRIDE);
}
static size_t s_blk_size(const void *p) {
    return s_is_fake(p) ? s_fake[s_fake_slot(p)].size : ((const struct phdr *)p - 1)->size;
}
static size_t s_blk_cap(const void *p) {
    return s_is_fake(p) ? s_fake[s_fake_slot(p)].cap : ((const struct phdr *)p - 1)->cap;
}

static void *s_par_acquire_locked(size_t size, int fillb) {
    ++s_par_live;
    ++s_par_acquires;
    if (size > BIG_LIMIT) {
        for (size_t i = 0; i < FAKE_SLOTS; ++i) {
            if (!s_fake[i].used) {
                s_fake[i].used = true;
                s_fake[i].size = s_fake[i].cap = size;
                return (void *)(FAKE_BASE + i * FAKE_STRIDE);
            }
        }
        HC_CHECK(!"out of unbacked slots");
    }
    size_t cap = size > SMALL_CAP ? size : SMALL_CAP;
    struct phdr *h;
    if (cap == SMALL_CAP && s_cache_n > 0) {
        h = (struct phdr *)s_cache[--s_cache_n] - 1;
        ASAN_UNPOISON_MEMORY_REGION(h + 1, cap);
    } else {
        h = malloc(sizeof(struct phdr) + cap);
        HC_CHECK(h);
    }
    h->size = size;
    h->cap = cap;
    memset(h + 1, fillb, size);
    ASAN_POISON_MEMORY_REGION((uint8_t *)(h + 1) + size, cap - size);
    return h + 1;
}

static void s_par_release_locked(void *p) {
    --s_par_live;
    ++s_par_releases;
    if (s_is_fake(p)) {
        HC_CHECK(s_fake[s_fake_slot(p)].used);
        s_fake[s_fake_slot(p)].used = false;
        return;
    }
    struct phdr *h = (struct phdr *)p - 1;
    if (h->cap == SMALL_CAP && s_cache_n < CACHE_MAX) {
        ASAN_POISON_MEMORY_REGION(p, h->cap);
        s_cache[s_cache_n++] = p; /* LIFO: the next small acquire gets this address again */
    } else {
        ASAN_UNPOISON_MEMORY_REGION(p, h->cap);
        free(h);
    }
}

static void *s_par_acquire(struct aws_allocator *a, size_t size) {
    (void)a;
    pthread_mutex_lock(&s_par_mu);
    void *p = s_par_acquire_locked(size, JUNK);
    pthread_mutex_unlock(&s_par_mu);
    return p;
}
static __thread size_t s_par_calloc_num, s_par_calloc_size; /* what the wrapped allocator's mem_calloc was last asked */
static void *s_par_calloc(struct aws_allocator *a, size_t num, size_t size) {
    (void)a;
    s_par_calloc_num = num;
    s_par_calloc_size = size;
    pthread_mutex_lock(&s_par_mu);
    void *p = s_par_acquire_locked(num * size, 0);
    pthread_mutex_unlock(&s_par_mu);
    return p;
}
static void s_par_release(struct aws_allocator *a, void *p) {
    (void)a;
    if (!p) {
        return;
    }
    pthread_mutex_lock(&s_par_mu);
    s_par_release_locked(p);
    pthread_mutex_unlock(&s_par_mu);
}
static long s_par_bad_old; /* realloc calls that arrived with an old size other than the block's */
static void *s_par_realloc(struct aws_allocator *a, void *p, size_t oldsize, size_t newsize) {
    if (!p) {
        return s_par_acquire(a, newsize);
    }
    pthread_mutex_lock(&s_par_mu);
    void *r;
    size_t size = s_blk_size(p), cap = s_blk_cap(p);
    if (oldsize != size) {
        ++s_par_bad_old; /* the client always passes the true size: the tracer altered the request */
    }
    if (s_keep && newsize <= cap) {
        ++s_par_keeps;
        if (s_is_fake(p)) {
            s_fake[s_fake_slot(p)].size = newsize;
        } else {
            struct phdr *h = (struct phdr *)p - 1;
            ASAN_UNPOISON_MEMORY_REGION(p, cap);
            if (newsize > size) {
                memset((uint8_t *)p + size, JUNK, newsize - size);
            }
            h->size = newsize;
            ASAN_POISON_MEMORY_REGION((uint8_t *)p + newsize, cap - newsize);
        }
        r = p;
    } else {
        ++s_par_moves;
        r = s_par_acquire_locked(newsize, JUNK);
        if (!s_is_fake(p) && !s_is_fake(r)) {
            memcpy(r, p, size < newsize ? size : newsize);
        }
        s_par_release_locked(p);
    }
    pthread_mutex_unlock(&s_par_mu);
    return r;
}
/* the four configurations of the wrapped allocator: mem_realloc / mem_calloc are optional vtable entries;
 * without them aws_mem_realloc / aws_mem_calloc emulate the call with acquire (+ copy + release) */
static struct aws_allocator s_parents[4] = {
    {.mem_acquire = s_par_acquire, .mem_release = s_par_release, .mem_realloc = s_par_realloc, .mem_calloc = s_par_calloc},
    {.mem_acquire = s_par_acquire, .mem_release = s_par_release, .mem_realloc = NULL, .mem_calloc = s_par_calloc},
    {.mem_acquire = s_par_acquire, .mem_release = s_par_release, .mem_realloc = s_par_realloc, .mem_calloc = NULL},
    {.mem_acquire = s_par_acquire, .mem_release = s_par_release, .mem_realloc = NULL, .mem_calloc = NULL},
};
static struct aws_allocator *s_parent = &s_parents[0];
/* passed as the `deprecated` argument of aws_mem_tracer_new, which must ignore it: any call lands here */
static long s_decoy_calls;
static void *s_decoy_acquire(struct aws_allocator *a, size_t size) {
    (void)a;
    ++s_decoy_calls;
    return s_par_acquire(s_parent, size);
}
static void s_decoy_release(struct aws_allocator *a, void *p) {
    (void)a;
    ++s_decoy_calls;
    s_par_release(s_parent, p);
}
static void *s_decoy_realloc(struct aws_allocator *a, void *p, size_t o, size_t n) {
    (void)a;
    ++s_decoy_calls;
    return s_par_realloc(s_parent, p, o, n);
}
static void *s_decoy_calloc(struct aws_allocator *a, size_t n, size_t sz) {
    (void)a;
    ++s_decoy_calls;
    return s_par_calloc(s_parent, n, sz);
}
static struct aws_allocator s_decoy = {
    .mem_acquire = s_decoy_acquire, .mem_release = s_decoy_release, .mem_realloc = s_decoy_realloc, .mem_calloc = s_decoy_calloc};
/* real library allocators as the wrapped allocator (threads stage only: keep/move is theirs to decide) */
static struct aws_allocator *s_real;
static void *s_real_acquire(struct aws_allocator *a, size_t size) {
    (void)a;
    __atomic_fetch_add(&s_par_live, 1, __ATOMIC_SEQ_CST);
    return s_real->mem_acquire(s_real, size);
}
static void s_real_release(struct aws_allocator *a, void *p) {
    (void)a;
    __atomic_fetch_sub(&s_par_live, 1, __ATOMIC_SEQ_CST);
    s_real->mem_release(s_real, p);
}
static void *s_real_realloc(struct aws_allocator *a, void *p, size_t o, size_t n) {
    (void)a;
    if (!p) {
        __atomic_fetch_add(&s_par_live, 1, __ATOMIC_SEQ_CST);
    }
    return s_real->mem_realloc(s_real, p, o, n);
}
static void *s_real_calloc(struct aws_allocator *a, size_t n, size_t sz) {
    (void)a;
    __atomic_fetch_add(&s_par_live, 1, __ATOMIC_SEQ_CST);
    return s_real->mem_calloc(s_real, n, sz);
}
static struct aws_allocator s_real_parent = {
    .mem_acquire = s_real_acquire, .mem_release = s_real_release, .mem_realloc = s_real_realloc, .mem_calloc = s_real_calloc};
static int s_cfg_of(const char *s) {
    return !strcmp(s, "full") ? 0 : !strcmp(s, "norealloc") ? 1 : !strcmp(s, "nocalloc") ? 2 : !strcmp(s, "minimal") ? 3 : -1;
}

/* ------------------------------------------------------------------ tracer bookkeeping allocator (counting pass-through) */
static long s_book_live;
static void *s_book_acquire(struct aws_allocator *a, size_t size) {
    (void)a;
    __atomic_fetch_add(&s_book_live, 1, __ATOMIC_SEQ_CST);
    return aws_default_allocator()->mem_acquire(aws_default_allocator(), size);
}
static void *s_book_calloc(struct aws_allocator *a, size_t n, size_t size) {
    (void)a;
    __atomic_fetch_add(&s_book_live, 1, __ATOMIC_SEQ_CST);
    return aws_default_allocator()->mem_calloc(aws_default_allocator(), n, size);
}
static void s_book_release(struct aws_allocator *a, void *p) {
    (void)a;
    __atomic_fetch_sub(&s_book_live, 1, __ATOMIC_SEQ_CST);
    aws_default_allocator()->mem_release(aws_default_allocator(), p);
}
static void *s_book_realloc(struct aws_allocator *a, void *p, size_t o, size_t n) {
    (void)a;
    if (!p) {
        __atomic_fetch_add(&s_book_live, 1, __ATOMIC_SEQ_CST);
    }
    return aws_default_allocator()->mem_realloc(aws_default_allocator(), p, o, n);
}
static struct aws_allocator s_book = {
    .mem_acquire = s_book_acquire,
    .mem_release = s_book_release,
    .mem_realloc = s_book_realloc,
    .mem_calloc = s_book_calloc,
};
struct aws_allocator *verif_mt_default_allocator(void) {
    return &s_book;
}
/* fault injection for the tracer's timestamp read: the next s_clock_fail reads report an error (the value is
 * still delivered, so that the order of a later dump does not depend on the fault) */
#include <aws/common/clock.h>
static long s_clock_fail, s_clock_fired;
int verif_mt_clock_ticks(uint64_t *timestamp) {
    int rc = aws_high_res_clock_get_ticks(timestamp);
    if (rc == AWS_OP_SUCCESS && __atomic_load_n(&s_clock_fail, __ATOMIC_SEQ_CST) > 0) {
        __atomic_fetch_sub(&s_clock_fail, 1, __ATOMIC_SEQ_CST);
        __atomic_fetch_add(&s_clock_fired, 1, __ATOMIC_SEQ_CST);
        return aws_raise_error(AWS_ERROR_CLOCK_FAILURE);
    }
    return rc;
}
void verif_mt_foreign_block(void *p) {
    if (p) {
        __atomic_fetch_add(&s_book_live, 1, __ATOMIC_SEQ_CST);
    }
}

/* ------------------------------------------------------------------ log sink */
#define SINK_MAX 8192
struct sink {
    bool have_hdr;
    size_t hdr_bytes, hdr_count;
    size_t n, sizes[SINK_MAX];
    size_t by_bytes_b, by_bytes_c, by_count_b, by_count_c, nstack_lines;
    size_t last_by_bytes, last_by_count, order_bad;
    bool have_by_bytes, have_by_count;
    size_t max_depth;
    size_t lines;
};
static struct sink s_sink;
static bool s_threads_mode;

static size_t s_trace_depth(const char *nl) {
    /* nl points at the '\n' that precedes the trace text; the text ends with one more '\n' */
    size_t len = strlen(nl + 1);
    if (len <= 1) {
        return 0;
    }
    size_t d = 1;
    for (size_t i = 0; i + 1 < len; ++i) {
        if (nl[1 + i] == '\n') {
            ++d;
        }
    }
    return d;
}

static int s_sink_log(struct aws_logger *lg, enum aws_log_level lvl, aws_log_subject_t subj, const char *fmt, ...) {
    (void)lg;
    (void)lvl;
    (void)subj;
    static char buf[16384]; /* dump holds the tracer mutex while it logs: calls are serialised */
    va_list ap;
    va_start(ap, fmt);
    vsnprintf(buf, sizeof(buf), fmt, ap);
    va_end(ap);
    ++s_sink.lines;
    if (s_threads_mode) {
        return AWS_OP_SUCCESS;
    }
    size_t a = 0, b = 0;
    if (sscanf(buf, "tracer: %zu bytes still allocated in %zu allocations", &a, &b) == 2) {
        s_sink.have_hdr = true;
        s_sink.hdr_bytes = a;
        s_sink.hdr_count = b;
    } else if (sscanf(buf, "ALLOC %zu bytes", &a) == 1) {
        HC_CHECK(s_sink.n < SINK_MAX);
        s_sink.sizes[s_sink.n++] = a;
        const char *nl = strchr(buf, '\n');
        if (nl) {
            size_t d = s_trace_depth(nl);
            if (d > s_sink.max_depth) {
                s_sink.max_depth = d;
            }
        }
    } else if (sscanf(buf, "%zu bytes in %zu allocations:", &a, &b) == 2) {
        s_sink.by_bytes_b += a;
        s_sink.by_bytes_c += b;
        ++s_sink.nstack_lines;
        if (s_sink.have_by_bytes && a > s_sink.last_by_bytes) {
            ++s_sink.order_bad; /* "Stacks by bytes leaked" must be listed largest first */
        }
        s_sink.have_by_bytes = true;
        s_sink.last_by_bytes = a;
    } else if (sscanf(buf, "%zu allocations leaking %zu bytes:", &a, &b) == 2) {
        s_sink.by_count_c += a;
        s_sink.by_count_b += b;
        if (s_sink.have_by_count && a > s_sink.last_by_count) {
            ++s_sink.order_bad; /* "Stacks by number of leaks" must be listed most leaks first */
        }
        s_sink.have_by_count = true;
        s_sink.last_by_count = a;
    }
    return AWS_OP_SUCCESS;
}
static enum aws_log_level s_sink_level(struct aws_logger *lg, aws_log_subject_t subj) {
    (void)lg;
    (void)subj;
    return AWS_LL_TRACE;
}
static void s_sink_cleanup(struct aws_logger *lg) {
    (void)lg;
}
static struct aws_logger_vtable s_sink_vt = {
    .log = s_sink_log,
    .get_log_level = s_sink_level,
    .clean_up = s_sink_cleanup,
    .set_log_level = NULL,
};
static struct aws_logger s_sink_logger = {.vtable = &s_sink_vt, .allocator = NULL, .p_impl = NULL};

/* ------------------------------------------------------------------ interpreter state */
#define MAXID 4096
static struct aws_allocator *s_tr;
static int s_level; /* 0 none, 1 bytes, 2 stacks */
static size_t s_eff_frames;
static struct {
    void *p;
    size_t size;
    int kind; /* entry point the block came through last: 0 acquire, 1 calloc, 2 realloc */
    bool moved; /* the last realloc answered with another address */
} s_ids[MAXID];
static size_t s_depth;

static int s_cmp_size(const void *a, const void *b) {
    size_t x = *(const size_t *)a, y = *(const size_t *)b;
    return x < y ? -1 : x > y;
}

/* Adler-32 of the block contents (position sensitive; zlib.adler32 on the oracle side) */
static uint32_t s_digest(const uint8_t *p, size_t n) {
    uint32_t a = 1, b = 0;
    for (size_t i = 0; i < n; ++i) {
        a = (a + p[i]) % 65521u;
        b = (b + a) % 65521u;
    }
    return (b << 16) | a;
}

static const char *s_pfx = "P";
/* the block as the client sees it: its pointer and the size it last asked for (after an emulated
 * shrinking realloc the wrapped allocator's own idea of the size stays larger) */
static void s_emit_blk(const void *p, size_t size) {
    if (!p) {
        printf("%s blk null\n", s_pfx);
    } else if (s_is_fake(p)) {
        printf("%s blk size=%zu h=-\n", s_pfx, size);
    } else {
        if (size > s_blk_size(p)) {
            printf("P MONITOR client block of %zu bytes lives in a block of %zu\n", size, s_blk_size(p));
            size = s_blk_size(p);
        }
        printf("%s blk size=%zu h=%08x\n", s_pfx, size, (unsigned)s_digest(p, size));
    }
}
static void s_emit_stat(void) {
    if (s_decoy_calls) {
        printf("P MONITOR the tracer used the deprecated allocator argument (%ld call(s))\n", s_decoy_calls);
        s_decoy_calls = 0;
    }
    if (s_par_bad_old) {
        printf("P MONITOR wrapped allocator got %ld realloc/calloc request(s) with altered arguments\n", s_par_bad_old);
        s_par_bad_old = 0;
    }
    printf("%s bytes=%zu count=%zu\n", s_pfx, aws_mem_tracer_bytes(s_tr), aws_mem_tracer_count(s_tr));
}

static int s_idx(const char *tok) {
    if (tok[0] != 'p') {
        return -1;
    }
    char *e;
    long k = strtol(tok + 1, &e, 10);
    if (*e || e == tok + 1 || k < 0 || k >= MAXID) {
        return -1;
    }
    return (int)k;
}

/* calls through `depth` extra stack frames so that deep stacks are captured */
struct call {
    int kind; /* 0 acquire 1 calloc 2 realloc */
    size_t a, b, old;
    void *p;
};
static void __attribute__((noinline)) s_do_call(struct call *c) {
    if (c->kind == 0) {
        c->p = aws_mem_acquire(s_tr, c->a);
    } else if (c->kind == 1) {
        c->p = aws_mem_calloc(s_tr, c->a, c->b);
    } else {
        HC_CHECK(aws_mem_realloc(s_tr, &c->p, c->old, c->a) == AWS_OP_SUCCESS);
    }
}
static volatile size_t s_sinkv;
static void __attribute__((noinline)) s_deep(size_t d, struct call *c) {
    if (d == 0) {
        s_do_call(c);
    } else {
        s_deep(d - 1, c);
    }
    s_sinkv += d; /* keeps the frame alive (no tail call) */
}

enum opk { OP_BAD, OP_ACQ, OP_CAL, OP_RE, OP_REL, OP_BYTES, OP_COUNT, OP_DUMP };
struct op {
    enum opk k;
    int id;
    size_t a, b;
    bool keep;
};

static bool s_is_num(const char *s) {
    if (!strncmp(s, "MAX", 3) || !strncmp(s, "HALF", 4)) {
        return true;
    }
    if (!*s) {
        return false;
    }
    for (; *s; ++s) {
        if (*s < '0' || *s > '9') {
            return false;
        }
    }
    return true;
}

static struct op s_parse(char **t, int n) {
    struct op o;
    memset(&o, 0, sizeof(o));
    o.k = OP_BAD;
    if (n == 3 && !strcmp(t[0], "acq") && s_idx(t[1]) >= 0 && s_is_num(t[2])) {
        o.k = OP_ACQ;
        o.id = s_idx(t[1]);
        o.a = hc_parse_size(t[2]);
    } else if (n == 4 && !strcmp(t[0], "calloc") && s_idx(t[1]) >= 0 && s_is_num(t[2]) && s_is_num(t[3])) {
        o.k = OP_CAL;
        o.id = s_idx(t[1]);
        o.a = hc_parse_size(t[2]);
        o.b = hc_parse_size(t[3]);
    } else if (
        n == 4 && !strcmp(t[0], "realloc") && s_idx(t[1]) >= 0 && s_is_num(t[2]) &&
        (!strcmp(t[3], "keep") || !strcmp(t[3], "move"))) {
        o.k = OP_RE;
        o.id = s_idx(t[1]);
        o.a = hc_parse_size(t[2]);
        o.keep = !strcmp(t[3], "keep");
    } else if (n == 2 && !strcmp(t[0], "rel") && s_idx(t[1]) >= 0) {
        o.k = OP_REL;
        o.id = s_idx(t[1]);
    } else if (n == 1 && !strcmp(t[0], "bytes")) {
        o.k = OP_BYTES;
    } else if (n == 1 && !strcmp(t[0], "count")) {
        o.k = OP_COUNT;
    } else if (n == 1 && !strcmp(t[0], "dump")) {
        o.k = OP_DUMP;
    }
    return o;
}

static bool s_refused(const struct op *o) {
    size_t prod;
    switch (o->k) {
        case OP_ACQ:
            return o->a == 0 || s_ids[o->id].p != NULL;
        case OP_CAL:
            return o->a == 0 || o->b == 0 || __builtin_mul_overflow(o->a, o->b, &prod) || s_ids[o->id].p != NULL;
        default:
            return false;
    }
}

static bool s_main_active, s_in_inj, s_armed, s_fired; /* (defined with the injection machinery below) */
static void s_emit_dump(void) {
    if (!s_sink.have_hdr) {
        printf("%s dump none\n", s_pfx);
        return;
    }
    static size_t sorted[SINK_MAX];
    memcpy(sorted, s_sink.sizes, s_sink.n * sizeof(size_t));
    qsort(sorted, s_sink.n, sizeof(size_t), s_cmp_size);
    printf("%s dump hdr=%zu/%zu sizes=", s_pfx, s_sink.hdr_bytes, s_sink.hdr_count);
    if (s_sink.n == 0) {
        printf("-");
    }
    for (size_t i = 0; i < s_sink.n; ++i) {
        printf("%s%zu", i ? "," : "", sorted[i]);
    }
    printf("\nW%s dump order=", s_pfx + 1);
    if (s_sink.n == 0) {
        printf("-");
    }
    for (size_t i = 0; i < s_sink.n; ++i) {
        printf("%s%zu", i ? "," : "", s_sink.sizes[i]);
    }
    printf("\n");
    /* monitors on the dump itself (stack sections partition the live allocations; depth bound) */
    if (s_level == 2 && s_sink.nstack_lines > 0) {
        size_t sum = 0;
        for (size_t i = 0; i < s_sink.n; ++i) {
            sum += s_sink.sizes[i];
        }
        if (s_sink.by_bytes_b != sum || s_sink.by_count_b != sum || s_sink.by_bytes_c != s_sink.n ||
            s_sink.by_count_c != s_sink.n) {
            printf(
                "P MONITOR dump stack sections do not partition the allocations: %zu/%zu %zu/%zu vs %zu/%zu\n",
                s_sink.by_bytes_b,
                s_sink.by_bytes_c,
                s_sink.by_count_b,
                s_sink.by_count_c,
                sum,
                s_sink.n);
        }
        {
            /* blocks that came through different entry points (acquire / calloc / realloc) were allocated from
             * different call stacks: the dump must list at least that many stacks */
            bool seen[3] = {false, false, false};
            size_t kinds = 0;
            for (size_t i = 0; i < MAXID; ++i) {
                if (s_ids[i].p && !seen[s_ids[i].kind]) {
                    seen[s_ids[i].kind] = true;
                    ++kinds;
                }
            }
            if (!s_in_inj && !s_fired && s_eff_frames >= 8 && s_sink.nstack_lines < kinds) {
                printf("P MONITOR dump lists %zu stack(s) for allocations made from %zu different entry points\n", s_sink.nstack_lines, kinds);
            }
        }
        if (s_sink.order_bad) {
            printf("P MONITOR dump lists %zu stack(s) out of order (by bytes / by count must be descending)\n", s_sink.order_bad);
        }
        if (s_sink.max_depth > s_eff_frames) {
            printf("P MONITOR dump stack of %zu frames exceeds frames_per_stack %zu\n", s_sink.max_depth, s_eff_frames);
        }
    }
}

/* phase 1 of an operation: the API call (results recorded in the id table / the sink) */
static void s_call(const struct op *o) {
    struct call c;
    memset(&c, 0, sizeof(c));
    switch (o->k) {
        case OP_ACQ:
            c.kind = 0;
            c.a = o->a;
            s_deep(s_depth, &c);
            s_ids[o->id].p = c.p;
            s_ids[o->id].kind = 0;
            s_ids[o->id].size = o->a;
            break;
        case OP_CAL:
            c.kind = 1;
            c.a = o->a;
            c.b = o->b;
            s_par_calloc_num = s_par_calloc_size = 0;
            s_deep(s_depth, &c);
            if (s_parent->mem_calloc && (s_par_calloc_num != o->a || s_par_calloc_size != o->b)) {
                ++s_par_bad_old; /* reported as an altered request */
            }
            s_ids[o->id].p = c.p;
            s_ids[o->id].kind = 1;
            s_ids[o->id].size = o->a * o->b;
            break;
        case OP_RE:
            c.kind = 2;
            c.a = o->a;
            c.p = s_ids[o->id].p;
            c.old = c.p ? s_ids[o->id].size : 0;
            s_keep = o->keep;
            s_deep(s_depth, &c);
            s_keep = false;
            s_ids[o->id].moved = c.p != s_ids[o->id].p;
            s_ids[o->id].p = c.p;
            s_ids[o->id].kind = 2;
            s_ids[o->id].size = o->a;
            HC_CHECK((o->a == 0) == (c.p == NULL));
            break;
        case OP_REL:
            aws_mem_release(s_tr, s_ids[o->id].p);
            s_ids[o->id].p = NULL;
            break;
        case OP_DUMP:
            memset(&s_sink, 0, sizeof(s_sink));
            aws_mem_tracer_dump(s_tr);
            break;
        case OP_BYTES:
            (void)aws_mem_tracer_bytes(s_tr);
            break;
        case OP_COUNT:
            (void)aws_mem_tracer_count(s_tr);
            break;
        default:
            break;
    }
}

/* phase 2: its result lines, with the current prefix */
static void s_print(const struct op *o) {
    switch (o->k) {
        case OP_RE:
            s_emit_blk(s_ids[o->id].p, s_ids[o->id].size);
            if (s_ids[o->id].p) {
                printf("W%s moved=%d\n", s_pfx + 1, (int)s_ids[o->id].moved);
            }
            s_emit_stat();
            break;
        case OP_ACQ:
        case OP_CAL:
            s_emit_blk(s_ids[o->id].p, s_ids[o->id].size);
            s_emit_stat();
            break;
        case OP_DUMP:
            s_emit_dump();
            s_emit_stat();
            break;
        default:
            s_emit_stat();
            break;
    }
}

/* ------------------------------------------------------------------ injection at schedule points */
static bool s_main_active, s_in_inj, s_armed, s_fired;
static int s_want_kind;
static size_t s_want_n, s_seen[8];
static int s_lock_depth;
static struct op s_inj_op;
static bool s_have_inj;
static __thread unsigned s_yield_rng;

static void s_point(int kind, bool inside);
void verif_sched_point(int kind, const volatile void *addr) {
    (void)addr;
    if (s_threads_mode) {
        /* perturb the real schedule at exactly the points where interleaving matters */
        s_yield_rng = s_yield_rng * 1103515245u + 12345u + (unsigned)(uintptr_t)&s_yield_rng;
        if (((s_yield_rng >> 16) & 3) == 0) {
            sched_yield();
        }
        return;
    }
    if (kind == VSP_UNLOCK) {
        --s_lock_depth;
    }
    bool inside = s_lock_depth > 0;
    if (kind == VSP_LOCK) {
        if (s_lock_depth > 0) {
            /* single-threaded run: taking the tracer's (non-recursive) mutex while it is held never returns */
            printf("P MONITOR deadlock: the tracer's mutex is taken while it is still held\n");
            fflush(stdout);
            _exit(3);
        }
    }
    s_point(kind, inside); /* may run a complete injected operation (which locks and unlocks) */
    if (kind == VSP_LOCK) {
        ++s_lock_depth; /* the caller takes the mutex right after this point */
    }
}

static void s_point(int kind, bool inside) {
    if (inside || !s_main_active || s_in_inj || kind < 0 || kind >= 8) {
        return;
    }
    size_t n = ++s_seen[kind];
    if (!s_armed || s_fired || kind != s_want_kind || n != s_want_n) {
        return;
    }
    s_fired = true;
    s_in_inj = true;
    const char *save_pfx = s_pfx;
    static struct sink save_sink;
    save_sink = s_sink;
    bool save_keep = s_keep;
    size_t save_cn = s_par_calloc_num, save_cs = s_par_calloc_size;
    s_pfx = "P @inj";
    if (s_refused(&s_inj_op)) {
        printf("P @inj refused\n");
    } else {
        s_call(&s_inj_op);
        s_print(&s_inj_op);
    }
    s_pfx = save_pfx;
    s_sink = save_sink;
    s_keep = save_keep;
    s_par_calloc_num = save_cn;
    s_par_calloc_size = save_cs;
    s_in_inj = false;
}

static int s_kind_of(const char *s) {
    if (!strcmp(s, "RMW")) {
        return VSP_RMW;
    }
    if (!strcmp(s, "LOCK")) {
        return VSP_LOCK;
    }
    if (!strcmp(s, "UNLOCK")) {
        return VSP_UNLOCK;
    }
    if (!strcmp(s, "LOAD")) {
        return VSP_LOAD;
    }
    return -1;
}

static void s_drop_tracer(bool print) {
    if (!s_tr) {
        return;
    }
    struct aws_allocator *w = aws_mem_tracer_destroy(s_tr);
    s_tr = NULL;
    size_t blocks = 0;
    for (size_t i = 0; i < MAXID; ++i) {
        if (s_ids[i].p) {
            ++blocks;
        }
    }
    long book = s_book_live;
    for (size_t i = 0; i < MAXID; ++i) {
        if (s_ids[i].p) {
            aws_mem_release(s_parent, s_ids[i].p);
            s_ids[i].p = NULL;
        }
    }
    if (print) {
        printf(
            "P destroy wrapped=%s client_blocks=%zu bookkeeping=%ld parent_after=%ld\n",
            w == s_parent ? "ok" : "BAD",
            blocks,
            book,
            s_par_live);
    } else {
        HC_CHECK(w == s_parent && s_par_live == 0);
    }
    s_have_inj = false;
    s_depth = 0;
}

/* a tracer that leaves its mutex locked (or any other hang) must not stall the check: no operation of
 * this harness takes anywhere near this long */
static void s_watchdog(int sig) {
    (void)sig;
    static const char msg[] = "\nH watchdog: operation did not return within 10 s (deadlock?)\n";
    if (write(1, msg, sizeof(msg) - 1) < 0) {
    }
    _exit(3);
}

static int s_interpreter(void) {
    char *t[HC_MAX_TOKS];
    int n;
    signal(SIGALRM, s_watchdog);
    while ((n = hc_next_line(t)) >= 0) {
        alarm(10);
        if (!strcmp(t[0], "case")) {
            s_drop_tracer(false);
            s_book_live = 0;
            s_clock_fail = 0;
            hc_case_begin(t[1]);
        } else if (!strcmp(t[0], "new") && (n == 3 || n == 4 || (n == 5 && !strcmp(t[4], "nobt")))) {
            int lvl = !strcmp(t[1], "none") ? 0 : !strcmp(t[1], "bytes") ? 1 : !strcmp(t[1], "stacks") ? 2 : -1;
            int cfg = n >= 4 ? s_cfg_of(t[3]) : 0;
            if (s_tr || lvl < 0 || cfg < 0 || !s_is_num(t[2])) {
                printf("bad-op\n");
                continue;
            }
            {
                /* the op states which platform variant it is written for ("nobt": aws_backtrace() returns 0, i.e. the
                 * flavour that links source/posix/system_info.c compiled without AWS_HAVE_EXECINFO); this executable
                 * must be that one */
                void *probe[1];
                HC_CHECK((aws_backtrace(probe, 1) == 0) == (n == 5));
            }
            size_t frames = hc_parse_size(t[2]);
            s_book_live = 0;
            s_parent = &s_parents[cfg];
            s_tr = aws_mem_tracer_new(s_parent, &s_decoy, (enum aws_mem_trace_level)lvl, frames);
            s_lock_depth = 0;
            {
                /* the tracer's table is keyed by address with aws_hash_ptr / aws_ptr_eq: two addresses that differ only
                 * above bit 32 (or only in bit 0) are different blocks.  Equal hash codes are needed before the table
                 * ever asks aws_ptr_eq, so no history would show this: probe the two callbacks directly. */
                const void *a1 = (const void *)(uintptr_t)0x00007f0012345670ull;
                const void *a2 = (const void *)(uintptr_t)0x00007e0012345670ull;
                const void *a3 = (const void *)(uintptr_t)0x00007f0012345671ull;
                if (aws_ptr_eq(a1, a2) || aws_ptr_eq(a1, a3) || !aws_ptr_eq(a1, a1) || aws_hash_ptr(a1) != aws_hash_ptr(a1) ||
                    (aws_hash_ptr(a1) == aws_hash_ptr(a2) && aws_hash_ptr(a1) == aws_hash_ptr(a3))) {
                    printf("P MONITOR aws_ptr_eq / aws_hash_ptr do not tell distinct addresses apart\n");
                }
            }
            s_level = lvl;
            s_eff_frames = frames > 128 ? 128 : frames;
            s_eff_frames = s_eff_frames ? s_eff_frames : 8;
            s_have_inj = false;
            s_emit_stat();
        } else if (!strcmp(t[0], "clock_fail") && n == 2 && s_is_num(t[1])) {
            s_clock_fail = (long)hc_parse_size(t[1]); /* the next k timestamp reads of the tracer fail */
        } else if (!strcmp(t[0], "depth") && n == 2) {
            s_depth = (size_t)atol(t[1]);
            if (s_depth > 400) {
                s_depth = 400;
            }
        } else if (!strcmp(t[0], "destroy") && n == 1) {
            if (!s_tr) {
                printf("bad-op\n");
                continue;
            }
            s_drop_tracer(true);
        } else if (!strcmp(t[0], "inject") && n >= 4) {
            struct op o = s_parse(t + 3, n - 3);
            int kind = s_kind_of(t[1]);
            if (!s_tr || o.k == OP_BAD || kind < 0 || !s_is_num(t[2])) {
                printf("bad-op\n");
                continue;
            }
            s_have_inj = true;
            s_inj_op = o;
            s_want_kind = kind;
            s_want_n = (size_t)atol(t[2]);
        } else if (!strcmp(t[0], "fill") && n == 3) {
            int id = s_idx(t[1]);
            if (!s_tr || id < 0 || !s_ids[id].p || !s_is_num(t[2])) {
                printf("bad-op\n");
                continue;
            }
            uint8_t *p = s_ids[id].p;
            size_t seed = (size_t)strtoull(t[2], NULL, 10);
            if (!s_is_fake(p)) {
                for (size_t i = 0; i < s_ids[id].size; ++i) {
                    p[i] = (uint8_t)(seed + 7 * i);
                }
            }
            s_emit_blk(p, s_ids[id].size);
        } else {
            struct op o = s_parse(t, n);
            if (!s_tr || o.k == OP_BAD) {
                printf("bad-op\n");
                continue;
            }
            if (s_refused(&o)) {
                s_have_inj = false;
                printf("bad-op\n");
                continue;
            }
            s_armed = s_have_inj;
            s_have_inj = false;
            s_fired = false;
            memset(s_seen, 0, sizeof(s_seen));
            s_main_active = s_armed;
            s_call(&o);
            s_main_active = false;
            if (s_lock_depth != 0) {
                printf("P MONITOR the operation returned with the tracer's mutex still held\n");
                fflush(stdout);
                _exit(3);
            }
            if (s_armed && !s_fired) {
                printf("P @inj unreached\n");
            }
            s_armed = false;
            s_print(&o);
        }
    }
    s_drop_tracer(false);
    return 0;
}

/* ------------------------------------------------------------------ threads stage */
#define TMAX 8
#define LMAX 256
struct worker {
    unsigned id;
    uint64_t rng;
    size_t ops;
    struct {
        uint8_t *p;
        size_t size;
        uint8_t seed;
    } live[LMAX];
    size_t nlive;
    long errors;
};
static struct worker s_w[TMAX];

static uint64_t s_rnd(struct worker *w) {
    w->rng ^= w->rng << 13;
    w->rng ^= w->rng >> 7;
    w->rng ^= w->rng << 17;
    return w->rng;
}
static void s_pat(uint8_t *p, size_t n, uint8_t seed) {
    for (size_t i = 0; i < n; ++i) {
        p[i] = (uint8_t)(seed + 7 * i);
    }
}
static bool s_pat_ok(const uint8_t *p, size_t n, uint8_t seed) {
    for (size_t i = 0; i < n; ++i) {
        if (p[i] != (uint8_t)(seed + 7 * i)) {
            return false;
        }
    }
    return true;
}
static size_t s_rsize(struct worker *w) {
    uint64_t r = s_rnd(w) % 10;
    if (r < 5) {
        return 1 + s_rnd(w) % 64;
    }
    if (r < 8) {
        return 1 + s_rnd(w) % 1024;
    }
    return 1000 + s_rnd(w) % 3000;
}

static void *s_worker(void *arg) {
    struct worker *w = arg;
    for (size_t i = 0; i < w->ops; ++i) {
        uint64_t r = s_rnd(w) % 100;
        if (s_rnd(w) % 16 == 0) {
            __atomic_store_n(&s_clock_fail, 1, __ATOMIC_SEQ_CST); /* somebody's next timestamp read fails */
        }
        if (w->nlive == 0 || (r < 35 && w->nlive < LMAX)) {
            size_t sz = s_rsize(w);
            uint8_t *p;
            if (s_rnd(w) & 1) {
                p = aws_mem_acquire(s_tr, sz);
            } else {
                size_t n = 1 + s_rnd(w) % 4;
                sz = (sz + n - 1) / n * n;
                p = aws_mem_calloc(s_tr, n, sz / n);
                for (size_t k = 0; k < sz; ++k) {
                    if (p[k]) {
                        ++w->errors;
                        break;
                    }
                }
            }
            uint8_t seed = (uint8_t)s_rnd(w);
            s_pat(p, sz, seed);
            w->live[w->nlive].p = p;
            w->live[w->nlive].size = sz;
            w->live[w->nlive].seed = seed;
            ++w->nlive;
        } else if (r < 62) {
            size_t k = s_rnd(w) % w->nlive;
            size_t nsz = (s_rnd(w) % 12 == 0) ? 0 : s_rsize(w);
            size_t old = w->live[k].size;
            void *p = w->live[k].p;
            s_keep = (s_rnd(w) & 1) != 0;
            HC_CHECK(aws_mem_realloc(s_tr, &p, old, nsz) == AWS_OP_SUCCESS);
            s_keep = false;
            if (nsz == 0) {
                if (p) {
                    ++w->errors;
                }
                w->live[k] = w->live[--w->nlive];
            } else {
                if (!s_pat_ok(p, old < nsz ? old : nsz, w->live[k].seed)) {
                    ++w->errors;
                }
                w->live[k].p = p;
                w->live[k].size = nsz;
                w->live[k].seed = (uint8_t)s_rnd(w);
                s_pat(p, nsz, w->live[k].seed);
            }
        } else if (r < 92) {
            size_t k = s_rnd(w) % w->nlive;
            if (!s_pat_ok(w->live[k].p, w->live[k].size, w->live[k].seed)) {
                ++w->errors;
            }
            aws_mem_release(s_tr, w->live[k].p);
            w->live[k] = w->live[--w->nlive];
        } else if (r < 97) {
            (void)aws_mem_tracer_bytes(s_tr);
            (void)aws_mem_tracer_count(s_tr);
        } else {
            aws_mem_tracer_dump(s_tr);
        }
    }
    return NULL;
}

static int s_threads(int argc, char **argv) {
    if (argc != 8 && argc != 9) {
        fprintf(stderr, "usage: memtrace threads <seed> <nthreads> <rounds> <ops> <level> <frames> [full|norealloc|nocalloc|minimal]\n");
        return 2;
    }
    if (argc == 9 && (!strcmp(argv[8], "default") || !strcmp(argv[8], "aligned"))) {
        s_real = !strcmp(argv[8], "default") ? aws_default_allocator() : aws_aligned_allocator();
        s_parent = &s_real_parent;
    } else {
        int cfg = argc == 9 ? s_cfg_of(argv[8]) : 0;
        HC_CHECK(cfg >= 0);
        s_parent = &s_parents[cfg];
    }
    uint64_t seed = strtoull(argv[2], NULL, 10);
    unsigned nt = (unsigned)atoi(argv[3]);
    unsigned rounds = (unsigned)atoi(argv[4]);
    size_t ops = (size_t)atol(argv[5]);
    int lvl = !strcmp(argv[6], "none") ? 0 : !strcmp(argv[6], "bytes") ? 1 : 2;
    size_t frames = (size_t)atol(argv[7]);
    HC_CHECK(nt >= 1 && nt <= TMAX);
    signal(SIGALRM, s_watchdog);
    alarm(90);
    s_threads_mode = true;
    s_tr = aws_mem_tracer_new(s_parent, &s_decoy, (enum aws_mem_trace_level)lvl, frames);
    s_level = lvl;
    for (unsigned i = 0; i < nt; ++i) {
        s_w[i].id = i;
        s_w[i].rng = (seed + 1) * 0x9E3779B97F4A7C15ull + i * 0xD1B54A32D192ED03ull + 1;
        s_w[i].ops = ops;
    }
    printf("case 0\n");
    for (unsigned r = 0; r <= rounds; ++r) {
        pthread_t th[TMAX];
        if (r == rounds) {
            /* last round: everything is given back */
            for (unsigned i = 0; i < nt; ++i) {
                while (s_w[i].nlive) {
                    --s_w[i].nlive;
                    aws_mem_release(s_tr, s_w[i].live[s_w[i].nlive].p);
                }
            }
        } else {
            for (unsigned i = 0; i < nt; ++i) {
                HC_CHECK(pthread_create(&th[i], NULL, s_worker, &s_w[i]) == 0);
            }
            for (unsigned i = 0; i < nt; ++i) {
                HC_CHECK(pthread_join(th[i], NULL) == 0);
            }
        }
        /* quiescent: all threads joined */
        size_t wb = 0, wc = 0;
        long errs = 0;
        for (unsigned i = 0; i < nt; ++i) {
            for (size_t k = 0; k < s_w[i].nlive; ++k) {
                wb += s_w[i].live[k].size;
            }
            wc += s_w[i].nlive;
            errs += s_w[i].errors;
        }
        errs += s_par_bad_old + s_decoy_calls;
        printf(
            "P quiescent round=%u bytes=%zu count=%zu live_bytes=%zu live_count=%zu level=%d content_errors=%ld\n",
            r,
            aws_mem_tracer_bytes(s_tr),
            aws_mem_tracer_count(s_tr),
            wb,
            wc,
            lvl,
            errs);
    }
    struct aws_allocator *w = aws_mem_tracer_destroy(s_tr);
    s_tr = NULL;
    printf(
        "P destroy wrapped=%s bookkeeping=%ld parent_after=%ld keeps=%ld moves=%ld clock_faults=%ld\n",
        w == s_parent ? "ok" : "BAD",
        s_book_live,
        s_par_live,
        s_par_keeps,
        s_par_moves,
        s_clock_fired);
    return 0;
}

int main(int argc, char **argv) {
    setvbuf(stdout, NULL, _IOLBF, 0); /* progressive output: a hang is attributable to the operation after the last line */
    aws_logger_set(&s_sink_logger);
    if (argc >= 2 && !strcmp(argv[1], "threads")) {
        return s_threads(argc, argv);
    }
    return s_interpreter();
}
