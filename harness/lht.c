/* C18 harness: drives aws_linked_hash_table and the FIFO / LIFO / LRU caches through an op file.
 *
 * Keys are heap objects {ident, ptr}: hash and equality look at `ident` only, so two key objects
 * with the same ident and different `ptr` are equal-but-distinct pointers.  Values are heap
 * objects too.  The destructor callbacks log what they destroy and free() it.  Every pointer the
 * library hands back (to a destructor, to hash/eq, in a node, as a lookup result) is first looked
 * up in the registry of live objects *without dereferencing it*: a destroyed-twice or
 * used-after-destroy pointer is reported on a `P MONITOR` line (and not touched); anything that
 * slips through is an ASan abort.
 *
 *   init <lht|fifo|lifo|lru> <max> <keyDtor 0|1> <valDtor 0|1> <hashmode>
 *   put <ident> <ptr> <val> | find <ident> | findmv <ident> | remove <ident> | clear
 *   mvend <ident> | uselru | getmru | destroy   (clean_up / aws_cache_destroy with its destructor calls observed)
 * <hashmode> 0..3: the harness's own hash (spread, constant, two buckets, zero) over {ident, ptr} key objects;
 * 4: C-string keys with aws_hash_c_string / aws_hash_callback_c_str_eq, 5: struct aws_byte_cursor keys with
 * aws_hash_byte_cursor_ptr / aws_byte_cursor_eq, 6: struct aws_string keys with aws_hash_string /
 * aws_hash_callback_string_eq.  In modes 4..6 identity i is a text of length 11,12,13,23,24,25,35,36,37 (i mod 9), pointer
 * number q is a separate copy of it placed at byte alignment (i+q) mod 4 (lookups use a third copy at (i+2) mod 4), so
 * equal keys reach the library's hash through all alignment paths of lookup3.
 * put with a <val> that a live value object already carries hands the library that SAME value pointer again (a refresh
 * "put(K, the object already cached under K)"): the table still runs the value destructor on it (the code guards the key
 * with `element->key != key` but not the value), so for that call the destructor callback logs and keeps the object.
 * <ident> 1000 is the NULL key (legal for aws_hash_table: hash 42, equal to itself only; the user's hash / equality
 * callbacks never see it; its pointer number is always 0), <val> 0 is the NULL value.
 */
#include "h_common.h"
#include <aws/common/cache.h>
#include <aws/common/fifo_cache.h>
#include <aws/common/lifo_cache.h>
#include <aws/common/linked_hash_table.h>
#include <aws/common/lru_cache.h>
#include <aws/common/private/hash_table_impl.h>
#include <aws/common/string.h>
#include <stdlib.h>
#include <string.h>

#define MAX_IDENT 64
#define MAX_PTR 4
#define MAX_VALS 8192
#define MAX_EVS 1024
#define NULL_IDENT 1000u

struct hkey {
    unsigned ident;
    unsigned ptr;
};
struct hval {
    unsigned long val;
    size_t slot;
};

enum kind { K_NONE, K_LHT, K_FIFO, K_LIFO, K_LRU };
static enum kind s_kind = K_NONE;
static struct aws_linked_hash_table s_lht;
static struct aws_cache *s_cache;
static int s_hashmode;
static bool s_key_dtor, s_val_dtor;
static bool s_quiet; /* tearing down: destructor calls are not part of any op's output */

static void *s_keys[MAX_IDENT][MAX_PTR];   /* live key objects, as the library sees them */
static void *s_keymem[MAX_IDENT][MAX_PTR]; /* the block to free for each */
static unsigned s_probe_ident;
static struct hval *s_vals[MAX_VALS];           /* live value objects */
static size_t s_nvals;

static char s_evs[MAX_EVS][32];
static size_t s_nevs;

/* monitors (reported and reset after each op) */
static const void *s_probe; /* the stack key of the lookup in progress */
static unsigned s_mon_key_uad, s_mon_key_dd, s_mon_val_dd, s_mon_dead_in_table, s_mon_dead_result;

static bool s_key_live(const void *p) {
    if (!p) {
        return true; /* the NULL key */
    }
    if (p == s_probe) {
        return true;
    }
    for (size_t i = 0; i < MAX_IDENT; ++i) {
        for (size_t q = 0; q < MAX_PTR; ++q) {
            if (s_keys[i][q] == p && p) {
                return true;
            }
        }
    }
    return false;
}

static bool s_val_live(const void *p) {
    if (!p) {
        return true; /* the NULL value */
    }
    for (size_t i = 0; i < s_nvals; ++i) {
        if (s_vals[i] == p && p) {
            return true;
        }
    }
    return false;
}

static bool s_key_where(const void *key, unsigned *ident, unsigned *ptr) {
    for (unsigned i = 0; i < MAX_IDENT; ++i) {
        for (unsigned q = 0; q < MAX_PTR; ++q) {
            if (s_keys[i][q] == key) {
                *ident = i;
                *ptr = q;
                return true;
            }
        }
    }
    return false;
}
static unsigned k_ident(const void *key) {
    unsigned i = 0, q = 0;
    if (!key) {
        return NULL_IDENT;
    }
    if (key == s_probe) {
        return s_probe_ident;
    }
    return s_key_where(key, &i, &q) ? i : 9999u;
}
static unsigned k_ptr(const void *key) {
    unsigned i = 0, q = 0;
    if (!key) {
        return 0;
    }
    return s_key_where(key, &i, &q) ? q : 99u;
}
static unsigned long v_val(const void *v) {
    return v ? ((const struct hval *)v)->val : 0;
}

static uint64_t s_hash(const void *p) {
    const struct hkey *k = p;
    if (!p || !s_key_live(p)) { /* the library must not hand NULL to the user's hash function */
        ++s_mon_key_uad;
        return 0;
    }
    switch (s_hashmode) {
        case 1:
            return 7;
        case 2:
            return k->ident & 1u;
        case 3:
            return 0;
        default:
            return (uint64_t)k->ident * 0x9E3779B97F4A7C15ull;
    }
}

static bool s_eq(const void *a, const void *b) {
    if (!a || !b || !s_key_live(a) || !s_key_live(b)) {
        ++s_mon_key_uad;
        return false;
    }
    return ((const struct hkey *)a)->ident == ((const struct hkey *)b)->ident;
}

static unsigned s_td_keys, s_td_vals; /* destructor calls seen while tearing down quietly */

static void s_on_key_destroy(void *p) {
    struct hkey *k = p;
    if (s_quiet) {
        ++s_td_keys;
    }
    if (!p) { /* the NULL key: nothing to free */
        if (!s_quiet) {
            HC_CHECK(s_nevs < MAX_EVS);
            snprintf(s_evs[s_nevs++], sizeof(s_evs[0]), "k%u.0", NULL_IDENT);
        }
        return;
    }
    if (!s_key_live(p) || p == s_probe) {
        ++s_mon_key_dd;
        return;
    }
    (void)k;
    unsigned ki = 0, kq = 0;
    HC_CHECK(s_key_where(p, &ki, &kq));
    if (!s_quiet) {
        HC_CHECK(s_nevs < MAX_EVS);
        snprintf(s_evs[s_nevs++], sizeof(s_evs[0]), "k%u.%u", ki, kq);
    }
    s_keys[ki][kq] = NULL;
    if (s_hashmode == 6) {
        aws_string_destroy(s_keymem[ki][kq]);
    } else {
        free(s_keymem[ki][kq]);
    }
    s_keymem[ki][kq] = NULL;
}

static const void *s_reput_value; /* the value pointer of a put in progress when it is an object already alive */

static void s_on_val_destroy(void *p) {
    struct hval *v = p;
    if (s_quiet) {
        ++s_td_vals;
    }
    if (!p) { /* the NULL value */
        if (!s_quiet) {
            HC_CHECK(s_nevs < MAX_EVS);
            snprintf(s_evs[s_nevs++], sizeof(s_evs[0]), "v0");
        }
        return;
    }
    if (!s_val_live(p)) {
        ++s_mon_val_dd;
        return;
    }
    if (!s_quiet) {
        HC_CHECK(s_nevs < MAX_EVS);
        snprintf(s_evs[s_nevs++], sizeof(s_evs[0]), "v%lu", v->val);
    }
    if (p == s_reput_value) {
        return; /* this very object is being re-inserted by the call in progress: it stays alive */
    }
    if (v->slot < MAX_VALS && s_vals[v->slot] == v) {
        s_vals[v->slot] = NULL;
    }
    free(v);
}

static struct aws_linked_hash_table *s_table(void) {
    return s_kind == K_LHT ? &s_lht : &s_cache->table;
}

static void s_teardown(void) {
    if (s_kind == K_LHT) {
        aws_linked_hash_table_clean_up(&s_lht);
    } else if (s_kind != K_NONE) {
        aws_cache_destroy(s_cache);
        s_cache = NULL;
    }
}

static void s_reset(void) {
    s_quiet = true;
    s_td_keys = s_td_vals = 0;
    size_t held = 0;
    if (s_kind != K_NONE) {
        held = aws_linked_hash_table_get_element_count(s_table());
    }
    s_teardown();
    /* clean_up / destroy displaces every entry still held: its key and value destroyed exactly once, all memory returned */
    if (s_kind != K_NONE &&
        (hc_live_blocks() != 0 || (s_key_dtor && s_td_keys != held) || (s_val_dtor && s_td_vals != held))) {
        printf(
            "P MONITOR teardown of %zu entries: key destructor calls=%u value destructor calls=%u blocks left=%ld\n",
            held,
            s_td_keys,
            s_td_vals,
            hc_live_blocks());
    }
    s_kind = K_NONE;
    for (size_t i = 0; i < MAX_IDENT; ++i) {
        for (size_t p = 0; p < MAX_PTR; ++p) {
            if (s_hashmode == 6 && s_keymem[i][p]) {
                aws_string_destroy(s_keymem[i][p]);
            } else {
                free(s_keymem[i][p]);
            }
            s_keys[i][p] = NULL;
            s_keymem[i][p] = NULL;
        }
    }
    for (size_t i = 0; i < s_nvals; ++i) {
        free(s_vals[i]);
        s_vals[i] = NULL;
    }
    s_nvals = 0;
    s_nevs = 0;
    s_probe = NULL;
    s_mon_key_uad = s_mon_key_dd = s_mon_val_dd = s_mon_dead_in_table = s_mon_dead_result = 0;
    s_quiet = false;
}

static int s_cmp_ev(const void *a, const void *b) {
    return strcmp((const char *)a, (const char *)b);
}

static void s_print_evs(bool seq) {
    static char sorted[MAX_EVS][32];
    memcpy(sorted, s_evs, sizeof(s_evs[0]) * s_nevs);
    qsort(sorted, s_nevs, sizeof(sorted[0]), s_cmp_ev);
    /* P: the multiset of destructor calls of this op; W: their call order */
    printf("P dtor");
    if (!s_nevs) {
        printf(" -");
    }
    for (size_t i = 0; i < s_nevs; ++i) {
        printf(" %s", sorted[i]);
    }
    printf("\n");
    if (seq) {
        printf("W dtorseq");
        if (!s_nevs) {
            printf(" -");
        }
        for (size_t i = 0; i < s_nevs; ++i) {
            printf(" %s", s_evs[i]);
        }
        printf("\n");
    }
    s_nevs = 0;
}

static void s_print_impl(void);

static void s_print_state(void) {
    struct aws_linked_hash_table *t = s_table();
    size_t count = s_kind == K_LHT ? aws_linked_hash_table_get_element_count(t) : aws_cache_get_element_count(s_cache);
    printf("P count=%zu\n", count);
    const struct aws_linked_list *list = aws_linked_hash_table_get_iteration_list(t);
    printf("P order");
    size_t n = 0;
    bool consistent = true;
    for (const struct aws_linked_list_node *it = aws_linked_list_begin(list); it != aws_linked_list_end(list);
         it = aws_linked_list_next(it)) {
        const struct aws_linked_hash_table_node *node = AWS_CONTAINER_OF(it, struct aws_linked_hash_table_node, node);
        const struct hkey *k = node->key;
        const struct hval *v = node->value;
        if (!s_key_live(k) || !s_val_live(v)) {
            ++s_mon_dead_in_table;
            printf(" ?");
            HC_CHECK(++n < 100000);
            continue;
        }
        printf(" %u.%u=%lu", k_ident(k), k_ptr(k), v_val(v));
        struct aws_hash_element *el = NULL;
        aws_hash_table_find(&t->table, node->key, &el);
        if (!el || el->value != node || el->key != node->key) {
            consistent = false;
        }
        HC_CHECK(++n < 100000);
    }
    printf(n ? "\n" : " -\n");
    if (!consistent || n != count) {
        printf("W MONITOR list/table inconsistent listlen=%zu count=%zu\n", n, count);
    }
    if (s_mon_key_uad || s_mon_key_dd || s_mon_val_dd || s_mon_dead_in_table || s_mon_dead_result) {
        printf(
            "P MONITOR key-used-after-destroy=%u key-destroyed-twice=%u value-destroyed-twice=%u destroyed-but-in-table=%u "
            "destroyed-value-returned=%u\n",
            s_mon_key_uad,
            s_mon_key_dd,
            s_mon_val_dd,
            s_mon_dead_in_table,
            s_mon_dead_result);
        s_mon_key_uad = s_mon_key_dd = s_mon_val_dd = s_mon_dead_in_table = s_mon_dead_result = 0;
    }
    if (s_hashmode < 4) {
        s_print_impl(); /* the implementation-level model does not compute lookup3 */
    }
}

/* W: the real hash table's slots (key pointer -> node, shown by the node's value) and both walks of
 * the real list; compared with the implementation-level model (Model/LhtImpl.lean) */
static void s_print_impl(void) {
    struct aws_linked_hash_table *t = s_table();
    struct hash_table_state *st = t->table.p_impl;
    printf("W impl size=%zu cnt=%zu slots", st->size, st->entry_count);
    size_t n = 0;
    for (size_t i = 0; i < st->size; ++i) {
        if (!st->slots[i].hash_code) {
            continue;
        }
        ++n;
        const struct hkey *k = st->slots[i].element.key;
        const struct aws_linked_hash_table_node *node = st->slots[i].element.value;
        if (!s_key_live(k)) {
            printf(" %zu:?", i);
        } else if (!node) {
            printf(" %zu:%u.%u=NULL", i, k_ident(k), k_ptr(k));
        } else if (!s_val_live(node->value)) {
            printf(" %zu:%u.%u=?", i, k_ident(k), k_ptr(k));
        } else {
            printf(" %zu:%u.%u=%lu", i, k_ident(k), k_ptr(k), v_val(node->value));
        }
    }
    if (!n) {
        printf(" -");
    }
    const struct aws_linked_list *list = aws_linked_hash_table_get_iteration_list(t);
    printf(" list");
    n = 0;
    for (const struct aws_linked_list_node *it = aws_linked_list_begin(list); it != aws_linked_list_end(list);
         it = aws_linked_list_next(it)) {
        const struct aws_linked_hash_table_node *node = AWS_CONTAINER_OF(it, struct aws_linked_hash_table_node, node);
        if (s_val_live(node->value)) {
            printf(" %lu", v_val(node->value));
        } else {
            printf(" ?");
        }
        HC_CHECK(++n < 100000);
    }
    if (!n) {
        printf(" -");
    }
    printf(" rlist");
    n = 0;
    for (const struct aws_linked_list_node *it = aws_linked_list_rbegin(list); it != aws_linked_list_rend(list);
         it = aws_linked_list_prev(it)) {
        const struct aws_linked_hash_table_node *node = AWS_CONTAINER_OF(it, struct aws_linked_hash_table_node, node);
        if (s_val_live(node->value)) {
            printf(" %lu", v_val(node->value));
        } else {
            printf(" ?");
        }
        HC_CHECK(++n < 100000);
    }
    if (!n) {
        printf(" -");
    }
    printf("\n");
}

/* the text of identity i in the string-key modes: lengths straddle the 12-byte blocks of lookup3 */
static size_t s_key_text(unsigned ident, char *out) {
    static const size_t lens[9] = {11, 12, 13, 23, 24, 25, 35, 36, 37};
    size_t len = lens[ident % 9];
    for (size_t j = 0; j < len; ++j) {
        out[j] = (char)('a' + (ident * 7u + j * 3u + ident / 9u) % 26u);
    }
    out[len] = 0;
    return len;
}

/* build the key object for the current mode around a text placed at byte alignment `off`; returns what the library sees */
static void *s_build_key(unsigned ident, size_t off, void **mem) {
    char text[64];
    size_t len = s_key_text(ident, text);
    if (s_hashmode == 4) {
        char *block = malloc(len + 1 + 4);
        memcpy(block + off, text, len + 1);
        *mem = block;
        return block + off;
    }
    if (s_hashmode == 5) {
        struct aws_byte_cursor *c = malloc(sizeof(*c) + len + 4);
        uint8_t *bytes = (uint8_t *)(c + 1) + off;
        memcpy(bytes, text, len);
        c->ptr = bytes;
        c->len = len;
        *mem = c;
        return c;
    }
    struct aws_string *str = aws_string_new_from_array(aws_default_allocator(), (const uint8_t *)text, len);
    *mem = str;
    return str;
}

static void *s_key_obj(unsigned ident, unsigned ptr) {
    if (ident == NULL_IDENT) {
        return NULL;
    }
    HC_CHECK(ident < MAX_IDENT && ptr < MAX_PTR);
    if (!s_keys[ident][ptr]) {
        if (s_hashmode >= 4) {
            s_keys[ident][ptr] = s_build_key(ident, (ident + ptr) % 4, &s_keymem[ident][ptr]);
        } else {
            struct hkey *k = malloc(sizeof(*k));
            k->ident = ident;
            k->ptr = ptr;
            s_keys[ident][ptr] = k;
            s_keymem[ident][ptr] = k;
        }
    }
    return s_keys[ident][ptr];
}

/* the key a lookup is made with: never one of the stored pointers */
static struct hkey s_probe_obj;
static void *s_probe_mem;
static const void *s_begin_probe(unsigned ident) {
    s_probe_ident = ident;
    s_probe_mem = NULL;
    if (ident == NULL_IDENT) {
        s_probe = NULL;
    } else if (s_hashmode >= 4) {
        s_probe = s_build_key(ident, (ident + 2) % 4, &s_probe_mem);
    } else {
        s_probe_obj.ident = ident;
        s_probe_obj.ptr = 99;
        s_probe = &s_probe_obj;
    }
    return s_probe;
}
static void s_end_probe(void) {
    if (s_probe_mem) {
        if (s_hashmode == 6) {
            aws_string_destroy(s_probe_mem);
        } else {
            free(s_probe_mem);
        }
    }
    s_probe_mem = NULL;
    s_probe = NULL;
}

/* *p_value is pre-filled with this before every lookup: a miss must store NULL ("If not found ... *p_value will be NULL") */
static struct hval s_unset_value;

static void s_print_val(const char *what, void *p) {
    if (p == &s_unset_value) {
        printf("P %s UNSET\n", what);
    } else if (p && !s_val_live(p)) {
        ++s_mon_dead_result;
        printf("P %s ?\n", what);
    } else if (p) {
        printf("P %s %lu\n", what, v_val(p));
    } else {
        printf("P %s NULL\n", what);
    }
}

int main(void) {
    char *t[HC_MAX_TOKS];
    int n;
    aws_common_library_init(hc_allocator());
    while ((n = hc_next_line(t)) >= 0) {
        if (!strcmp(t[0], "case")) {
            s_reset();
            hc_case_begin(t[1]);
        } else if (!strcmp(t[0], "init") && n == 6) {
            s_reset();
            size_t max = hc_parse_size(t[2]);
            s_key_dtor = atoi(t[3]) != 0;
            s_val_dtor = atoi(t[4]) != 0;
            s_hashmode = atoi(t[5]);
            aws_hash_fn *hfn = s_hashmode == 4   ? aws_hash_c_string
                               : s_hashmode == 5 ? aws_hash_byte_cursor_ptr
                               : s_hashmode == 6 ? aws_hash_string
                                                 : s_hash;
            aws_hash_callback_eq_fn *efn = s_hashmode == 4   ? aws_hash_callback_c_str_eq
                                           : s_hashmode == 5 ? (aws_hash_callback_eq_fn *)aws_byte_cursor_eq
                                           : s_hashmode == 6 ? aws_hash_callback_string_eq
                                                             : s_eq;
            aws_hash_callback_destroy_fn *kd = s_key_dtor ? s_on_key_destroy : NULL;
            aws_hash_callback_destroy_fn *vd = s_val_dtor ? s_on_val_destroy : NULL;
            if (max == 0) {
                printf("bad-op\n");
            } else if (!strcmp(t[1], "lht")) {
                HC_CHECK(aws_linked_hash_table_init(&s_lht, hc_allocator(), hfn, efn, kd, vd, max) == AWS_OP_SUCCESS);
                s_kind = K_LHT;
            } else if (!strcmp(t[1], "fifo")) {
                s_cache = aws_cache_new_fifo(hc_allocator(), hfn, efn, kd, vd, max);
                HC_CHECK(s_cache);
                s_kind = K_FIFO;
            } else if (!strcmp(t[1], "lifo")) {
                s_cache = aws_cache_new_lifo(hc_allocator(), hfn, efn, kd, vd, max);
                HC_CHECK(s_cache);
                s_kind = K_LIFO;
            } else if (!strcmp(t[1], "lru")) {
                s_cache = aws_cache_new_lru(hc_allocator(), hfn, efn, kd, vd, max);
                HC_CHECK(s_cache);
                s_kind = K_LRU;
            } else {
                printf("bad-op\n");
            }
        } else if (s_kind == K_NONE) {
            printf("bad-op\n");
        } else if (!strcmp(t[0], "put") && n == 4) {
            void *k = s_key_obj((unsigned)atoi(t[1]), (unsigned)atoi(t[2]));
            HC_CHECK(s_nvals < MAX_VALS);
            struct hval *v = NULL;
            unsigned long want = strtoul(t[3], NULL, 10);
            s_reput_value = NULL;
            for (size_t i = 0; want != 0 && i < s_nvals; ++i) {
                if (s_vals[i] && s_vals[i]->val == want) {
                    v = s_vals[i]; /* the same value object again */
                    s_reput_value = v;
                }
            }
            if (want != 0 && !v) {
                v = malloc(sizeof(*v));
                v->val = want;
                v->slot = s_nvals;
                s_vals[s_nvals++] = v;
            }
            int rc = s_kind == K_LHT ? aws_linked_hash_table_put(&s_lht, k, v) : aws_cache_put(s_cache, k, v);
            s_reput_value = NULL;
            printf("P put %s\n", hc_err(rc));
            s_print_evs(true);
            s_print_state();
        } else if (!strcmp(t[0], "find") && n == 2) {
            const void *probe = s_begin_probe((unsigned)atoi(t[1]));
            void *p = &s_unset_value;
            int rc = s_kind == K_LHT ? aws_linked_hash_table_find(&s_lht, probe, &p) : aws_cache_find(s_cache, probe, &p);
            s_end_probe();
            HC_CHECK(rc == AWS_OP_SUCCESS);
            s_print_val("find", p);
            s_print_state();
        } else if (!strcmp(t[0], "findmv") && n == 2 && s_kind == K_LHT) {
            const void *probe = s_begin_probe((unsigned)atoi(t[1]));
            void *p = &s_unset_value;
            HC_CHECK(aws_linked_hash_table_find_and_move_to_back(&s_lht, probe, &p) == AWS_OP_SUCCESS);
            s_end_probe();
            s_print_val("findmv", p);
            s_print_state();
        } else if (!strcmp(t[0], "remove") && n == 2) {
            const void *probe = s_begin_probe((unsigned)atoi(t[1]));
            int rc = s_kind == K_LHT ? aws_linked_hash_table_remove(&s_lht, probe) : aws_cache_remove(s_cache, probe);
            s_end_probe();
            printf("P remove %s\n", hc_err(rc));
            s_print_evs(true);
            s_print_state();
        } else if (!strcmp(t[0], "clear") && n == 1) {
            if (s_kind == K_LHT) {
                aws_linked_hash_table_clear(&s_lht);
            } else {
                aws_cache_clear(s_cache);
            }
            printf("P clear\n");
            s_print_evs(false);
            s_print_state();
        } else if (!strcmp(t[0], "mvend") && n == 2 && s_kind == K_LHT) {
            unsigned ident = (unsigned)atoi(t[1]);
            const struct aws_linked_list *list = aws_linked_hash_table_get_iteration_list(&s_lht);
            struct aws_linked_hash_table_node *found = NULL;
            for (const struct aws_linked_list_node *it = aws_linked_list_begin(list); it != aws_linked_list_end(list);
                 it = aws_linked_list_next(it)) {
                struct aws_linked_hash_table_node *node =
                    AWS_CONTAINER_OF(it, struct aws_linked_hash_table_node, node);
                if (s_key_live(node->key) && k_ident(node->key) == ident) {
                    found = node;
                    break;
                }
            }
            if (found) {
                aws_linked_hash_table_move_node_to_end_of_list(&s_lht, found);
                printf("P mvend OK\n");
            } else {
                printf("P mvend absent\n");
            }
            s_print_state();
        } else if (!strcmp(t[0], "destroy") && n == 1) {
            /* clean_up / destroy displaces every remaining entry: each key and value destroyed exactly once, and
             * everything the table allocated is handed back */
            s_teardown();
            s_kind = K_NONE;
            printf("P destroy\n");
            s_print_evs(false);
            printf("P leak=%ld\n", hc_live_blocks());
        } else if (!strcmp(t[0], "uselru") && n == 1 && s_kind == K_LRU) {
            s_print_val("uselru", aws_lru_cache_use_lru_element(s_cache));
            s_print_state();
        } else if (!strcmp(t[0], "getmru") && n == 1 && s_kind == K_LRU) {
            s_print_val("getmru", aws_lru_cache_get_mru_element(s_cache));
            s_print_state();
        } else {
            printf("bad-op\n");
        }
    }
    s_reset();
    return 0;
}
