/* C06 harness: drives the real aws_priority_queue (dynamic and static storage) through an op file.
 * Element = isz bytes: byte 0 = key, bytes 1..2 = uid (little endian, when isz >= 3), remaining
 * bytes a filler derived from (uid, key, position) so that a torn swap is visible.  The comparator
 * reads the key byte only.  Handles are aws_priority_queue_node objects owned by the harness. */
#include "h_common.h"
#include <aws/common/priority_queue.h>
#include <stdlib.h>
#include <string.h>
#include <unistd.h>

#define MAXH 64
static struct aws_priority_queue s_q;
static bool s_have;
static void *s_static_heap;
static size_t s_isz, s_nh, s_static_cap;
static unsigned s_next_uid;
static struct aws_priority_queue_node s_nodes[MAXH];

/* comparator styles: all of them honour the documented contract of aws_priority_queue_compare_fn ("positive if the
 * second has higher priority, otherwise negative or zero") for the min-heap on the key byte, and nothing more */
enum { CMP_THREE, CMP_BOOL, CMP_DIFF, CMP_LAZY };
static int s_style;

static int s_cmp(const void *a, const void *b) {
    uint8_t x = *(const uint8_t *)a, y = *(const uint8_t *)b;
    switch (s_style) {
        case CMP_BOOL: /* the header's own example: `return a > b;` */
            return x > y;
        case CMP_DIFF: /* difference of the keys, large magnitude */
            return ((int)x - (int)y) * 8388607;
        case CMP_LAZY: /* positive when x > y; otherwise zero or negative with no relation to equality */
            return x > y ? 5 + (int)y : (((x + y) & 1) ? -(int)(y - x) - 3 : 0);
        default:
            return (x > y) - (x < y);
    }
}

static void s_fill(uint8_t *p, unsigned key, unsigned uid) {
    p[0] = (uint8_t)key;
    if (s_isz >= 3) {
        p[1] = (uint8_t)(uid & 0xff);
        p[2] = (uint8_t)(uid >> 8);
    }
    for (size_t i = 3; i < s_isz; ++i) {
        p[i] = (uint8_t)(uid * 31u + key * 7u + (unsigned)i);
    }
}

static unsigned s_uid_of(const uint8_t *p) {
    return s_isz >= 3 ? (unsigned)p[1] | ((unsigned)p[2] << 8) : 0;
}

static bool s_intact(const uint8_t *p) {
    unsigned key = p[0], uid = s_uid_of(p);
    for (size_t i = 3; i < s_isz; ++i) {
        if (p[i] != (uint8_t)(uid * 31u + key * 7u + (unsigned)i)) {
            return false;
        }
    }
    return true;
}

static void s_put_uid(const uint8_t *p) {
    if (s_isz >= 3) {
        printf("%u", s_uid_of(p));
    } else {
        putchar('-');
    }
}

static void s_reset(void) {
    if (s_have) {
        aws_priority_queue_clean_up(&s_q);
        free(s_static_heap);
        s_static_heap = NULL;
        if (hc_live_blocks() != 0) {
            printf("P MONITOR leak blocks=%ld\n", hc_live_blocks());
        }
    }
    s_have = false;
    s_next_uid = 0;
}

static const uint8_t *s_item(size_t i) {
    void *p = NULL;
    if (aws_array_list_get_at_ptr(&s_q.container, &p, i)) {
        return NULL;
    }
    return p;
}

/* property monitor on the public struct fields: heap order, handle <-> slot bijection, fillers */
static void s_monitor(void) {
    size_t len = aws_array_list_length(&s_q.container);
    bool order = true, bij = true, fill = true;
    for (size_t i = 0; i < len; ++i) {
        const uint8_t *p = s_item(i);
        if (!p) {
            order = false;
            break;
        }
        if (i > 0 && s_item((i - 1) / 2)[0] > p[0]) {
            order = false;
        }
        if (!s_intact(p)) {
            fill = false;
        }
    }
    bool has_bp = s_q.backpointers.data != NULL;
    if (has_bp) {
        if (aws_array_list_length(&s_q.backpointers) != len) {
            bij = false;
        } else {
            for (size_t i = 0; i < len; ++i) {
                struct aws_priority_queue_node *n = ((struct aws_priority_queue_node **)s_q.backpointers.data)[i];
                if (n) {
                    if (n < s_nodes || n >= s_nodes + s_nh || n->current_index != i) {
                        bij = false;
                    }
                }
            }
        }
    }
    for (size_t h = 0; h < s_nh; ++h) {
        if (aws_priority_queue_node_is_in_queue(&s_nodes[h])) {
            size_t idx = s_nodes[h].current_index;
            if (!has_bp || idx >= len ||
                ((struct aws_priority_queue_node **)s_q.backpointers.data)[idx] != &s_nodes[h]) {
                bij = false;
            }
        }
    }
    if (!order || !bij || !fill) {
        printf("P MONITOR heaporder=%d bijection=%d filler=%d\n", order, bij, fill);
    }
}

static void s_state(void) {
    size_t len = aws_array_list_length(&s_q.container);
    printf("P live");
    for (size_t h = 0; h < s_nh; ++h) {
        if (aws_priority_queue_node_is_in_queue(&s_nodes[h])) {
            size_t idx = s_nodes[h].current_index;
            printf(" h%zu=", h);
            if (idx < len) {
                s_put_uid(s_item(idx));
            } else {
                putchar('?');
            }
        }
    }
    printf("\nW heap");
    for (size_t i = 0; i < len; ++i) {
        const uint8_t *p = s_item(i);
        printf(" %u:", (unsigned)p[0]);
        s_put_uid(p);
    }
    printf("\nW idx");
    for (size_t h = 0; h < s_nh; ++h) {
        if (aws_priority_queue_node_is_in_queue(&s_nodes[h])) {
            printf(" h%zu=%zu", h, s_nodes[h].current_index);
        }
    }
    printf("\nW cap %zu\n", aws_priority_queue_capacity(&s_q));
    s_monitor();
    /* public validity predicate and capacity: a valid queue after every op, capacity never below the size and,
     * for static storage, exactly the item count given at init */
    size_t cap = aws_priority_queue_capacity(&s_q);
    bool valid = aws_priority_queue_is_valid(&s_q) && aws_priority_queue_backpointers_valid(&s_q);
    if (!valid || cap < aws_priority_queue_size(&s_q) || (s_static_cap && cap != s_static_cap)) {
        printf("P MONITOR is_valid=%d capacity=%zu size=%zu\n", valid, cap, aws_priority_queue_size(&s_q));
    }
}

static void s_result_elem(const char *name, int rc, const uint8_t *p) {
    if (rc == AWS_OP_SUCCESS) {
        printf("P %s OK key=%u uid=", name, (unsigned)p[0]);
        s_put_uid(p);
        printf(" size=%zu\n", aws_priority_queue_size(&s_q));
        if (!s_intact(p)) {
            printf("P MONITOR returned element torn\n");
        }
    } else {
        printf("P %s %s size=%zu\n", name, hc_last_error_name(), aws_priority_queue_size(&s_q));
    }
}

static long s_handle(const char *t) {
    if (t[0] != 'h') {
        return -1;
    }
    char *end;
    long h = strtol(t + 1, &end, 10);
    if (*end || end == t + 1 || h < 0 || (size_t)h >= s_nh) {
        return -1;
    }
    return h;
}

static void s_push(const char *key_s, long h) {
    unsigned key = (unsigned)atoi(key_s);
    if (key > 255 || key_s[0] < '0' || key_s[0] > '9') {
        printf("bad-op\n");
        return;
    }
    uint8_t *item = malloc(s_isz); /* exact size: ASan sees any over-read */
    s_fill(item, key, s_next_uid++);
    int rc = h < 0 ? aws_priority_queue_push(&s_q, item) : aws_priority_queue_push_ref(&s_q, item, &s_nodes[h]);
    free(item);
    if (rc == AWS_OP_SUCCESS) {
        printf("P push OK size=%zu\n", aws_priority_queue_size(&s_q));
    } else {
        printf("P push %s size=%zu\n", hc_last_error_name(), aws_priority_queue_size(&s_q));
    }
    s_state();
}

int main(void) {
    char *t[HC_MAX_TOKS];
    int n;
    aws_common_library_init(hc_allocator());
    while ((n = hc_next_line(t)) >= 0) {
        if (!strcmp(t[0], "case")) {
            s_reset();
            s_style = CMP_THREE;
            hc_case_begin(t[1]);
            alarm(2); /* watchdog: a case takes milliseconds; a hang is reported as a crash of this case */
        } else if (!strcmp(t[0], "cmp") && n == 2) {
            if (!strcmp(t[1], "three")) {
                s_style = CMP_THREE;
            } else if (!strcmp(t[1], "bool")) {
                s_style = CMP_BOOL;
            } else if (!strcmp(t[1], "diff")) {
                s_style = CMP_DIFF;
            } else if (!strcmp(t[1], "lazy")) {
                s_style = CMP_LAZY;
            } else {
                printf("bad-op\n");
            }
        } else if (!strcmp(t[0], "init") && n == 5) {
            size_t cnt = hc_parse_size(t[2]);
            size_t isz = (size_t)atol(t[3]);
            size_t nh = (size_t)atol(t[4]);
            bool dyn = !strcmp(t[1], "dyn"), stat = !strcmp(t[1], "static");
            if (isz == 0 || nh > MAXH || (!dyn && !stat) || (stat && cnt == 0)) {
                printf("bad-op\n");
                continue;
            }
            s_reset();
            s_isz = isz;
            s_nh = nh;
            for (size_t h = 0; h < MAXH; ++h) {
                aws_priority_queue_node_init(&s_nodes[h]);
            }
            /* the queue object is NOT zero before init: whatever an earlier user left there must not matter */
            memset(&s_q, 0xA5, sizeof(s_q));
            s_static_cap = stat ? cnt : 0;
            if (dyn) {
                HC_CHECK(aws_priority_queue_init_dynamic(&s_q, hc_allocator(), cnt, isz, s_cmp) == AWS_OP_SUCCESS);
            } else {
                s_static_heap = malloc(cnt * isz);
                aws_priority_queue_init_static(&s_q, s_static_heap, cnt, isz, s_cmp);
            }
            s_have = true;
        } else if (!s_have) {
            printf("bad-op\n");
        } else if (!strcmp(t[0], "push") && n == 2) {
            s_push(t[1], -1);
        } else if (!strcmp(t[0], "pushref") && n == 3) {
            long h = s_handle(t[2]);
            if (h < 0 || aws_priority_queue_node_is_in_queue(&s_nodes[h])) {
                printf("bad-op\n"); /* API contract: the node is not in a queue */
            } else {
                s_push(t[1], h);
            }
        } else if (!strcmp(t[0], "pop") && n == 1) {
            uint8_t *out = malloc(s_isz);
            int rc = aws_priority_queue_pop(&s_q, out);
            s_result_elem("pop", rc, out);
            free(out);
            s_state();
        } else if (!strcmp(t[0], "top") && n == 1) {
            void *p = NULL;
            int rc = aws_priority_queue_top(&s_q, &p);
            s_result_elem("top", rc, p);
            s_state();
        } else if (!strcmp(t[0], "remove") && n == 2) {
            long h = s_handle(t[1]);
            if (h < 0) {
                printf("bad-op\n");
            } else {
                uint8_t *out = malloc(s_isz);
                int rc = aws_priority_queue_remove(&s_q, out, &s_nodes[h]);
                s_result_elem("remove", rc, out);
                free(out);
                s_state();
            }
        } else if (!strcmp(t[0], "clear") && n == 1) {
            aws_priority_queue_clear(&s_q);
            printf("P clear OK size=%zu\n", aws_priority_queue_size(&s_q));
            s_state();
        } else {
            printf("bad-op\n");
        }
    }
    s_reset();
    return 0;
}
