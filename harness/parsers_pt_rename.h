/* Force-included when source/encoding.c is compiled a second time WITHOUT USE_SIMD_ENCODING for the
 * C04 harness: every public symbol of that file gets a pt_ prefix, so the portable codec lives beside
 * the AVX2-dispatching one in the same binary (DESIGN.md section 10). */
#ifndef PARSERS_PT_RENAME_H
#define PARSERS_PT_RENAME_H
#define aws_hex_compute_encoded_len pt_aws_hex_compute_encoded_len
#define aws_hex_encode pt_aws_hex_encode
#define aws_hex_encode_append_dynamic pt_aws_hex_encode_append_dynamic
#define aws_hex_compute_decoded_len pt_aws_hex_compute_decoded_len
#define aws_hex_decode pt_aws_hex_decode
#define aws_base64_compute_encoded_len pt_aws_base64_compute_encoded_len
#define aws_base64_compute_decoded_len pt_aws_base64_compute_decoded_len
#define aws_base64_encode pt_aws_base64_encode
#define aws_base64_decode pt_aws_base64_decode
#define aws_utf8_decoder_new pt_aws_utf8_decoder_new
#define aws_utf8_decoder_destroy pt_aws_utf8_decoder_destroy
#define aws_utf8_decoder_reset pt_aws_utf8_decoder_reset
#define aws_utf8_decoder_update pt_aws_utf8_decoder_update
#define aws_utf8_decoder_finalize pt_aws_utf8_decoder_finalize
#define aws_decode_utf8 pt_aws_decode_utf8
#endif
