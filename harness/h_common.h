/* Shared helpers for the correspondence harnesses (line protocol, canonical printing,
 * counting allocator).  See DESIGN.md 4.2. */
#ifndef H_COMMON_H
#define H_COMMON_H
#include <stdbool.h>
#include <stddef.h>
#include <stdint.h>
#include <stdio.h>
#include <aws/common/common.h>

#define HC_MAX_TOKS 4096
#define HC_MAX_LINE (1 << 22)

/* Reads the next non-empty line from stdin into an internal buffer and splits it on single
 * spaces.  Returns the number of tokens, or -1 at end of input.  Token storage is valid until
 * the next call. */
int hc_next_line(char **toks);

/* "case <n>" lines delimit independent cases: the harness must reset all state.  hc_case_begin
 * prints the "case <n>" echo line and flushes, so that a crash is attributable. */
void hc_case_begin(const char *n);

/* sizes: decimal, or MAX, MAX-k, HALF, HALF+k, HALF-k (MAX = SIZE_MAX, HALF = SIZE_MAX/2) */
size_t hc_parse_size(const char *s);
uint64_t hc_parse_u64(const char *s);
int64_t hc_parse_i64(const char *s);

/* hex: "-" is the empty string.  Returns malloc'ed buffer of exactly *len bytes (len 0 -> 1 byte block). */
uint8_t *hc_hex_decode(const char *s, size_t *len);
void hc_put_hex(const uint8_t *p, size_t n); /* prints "-" for n == 0 */

/* name of aws_last_error(), or "OK" when rc == AWS_OP_SUCCESS */
const char *hc_err(int rc);
const char *hc_last_error_name(void);

/* counting allocator on top of malloc (exact-size blocks, so ASan red zones are tight) */
struct aws_allocator *hc_allocator(void);
long hc_live_blocks(void);
long hc_live_bytes(void);
void hc_alloc_fail_after(long n); /* n-th next allocation fails (0 = next); -1 disables */

#define HC_CHECK(cond)                                                                                                  \
    do {                                                                                                                \
        if (!(cond)) {                                                                                                  \
            printf("H harness-assert %s:%d %s\n", __FILE__, __LINE__, #cond);                                          \
            fflush(stdout);                                                                                             \
            abort();                                                                                                    \
        }                                                                                                               \
    } while (0)

#endif
