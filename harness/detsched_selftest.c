/* Self-test of harness/detsched.c: raw pthread programs run under the deterministic scheduler.
 *   - determinism: same seed => identical event log; replay of the recorded schedule (DS_EXPLICIT)
 *     => identical event log; different seeds => different interleavings are reached
 *   - producer/consumer over a bounded queue (mutex + two condvars): all items arrive, in order
 *   - timed wait with nobody signalling: ETIMEDOUT at exactly the deadline in virtual time
 *   - lost notify (signal before wait) and lock-order inversion are reported as deadlocks, with a
 *     schedule that replays into the same deadlock
 *   - DS_CHOICES mode, pthread_once, nanosleep, create-failure injection
 *   - calls made from inside libawsc.a (aws_mutex_lock, aws_thread_launch) reach the wrappers
 * Prints one line per test and "SELFTEST PASS" / "SELFTEST FAIL". */
#include "detsched.h"
#include <aws/common/mutex.h>
#include <aws/common/thread.h>
#include <errno.h>
#include <pthread.h>
#include <stdlib.h>
#include <string.h>
#include <time.h>

static int s_fail;
#define CHECK(name, cond)                                                                                              \
    do {                                                                                                               \
        if (cond) {                                                                                                    \
            printf("ok   %s\n", name);                                                                                 \
        } else {                                                                                                       \
            printf("FAIL %s (%s:%d: %s)\n", name, __FILE__, __LINE__, #cond);                                          \
            s_fail = 1;                                                                                                \
        }                                                                                                              \
    } while (0)

/* ---------------------------------------------------------------- snapshots of the event log */
struct snap {
    struct ds_event *ev;
    size_t n;
    int *sched;
    size_t nsched;
};

static struct snap take_snap(void) {
    struct snap s;
    s.n = ds_event_count();
    s.ev = malloc((s.n + 1) * sizeof(*s.ev));
    for (size_t i = 0; i < s.n; ++i) {
        s.ev[i] = *ds_event_at(i);
    }
    const int *l;
    s.nsched = ds_schedule(&l);
    s.sched = malloc((s.nsched + 1) * sizeof(int));
    memcpy(s.sched, l, s.nsched * sizeof(int));
    return s;
}

static void free_snap(struct snap *s) {
    free(s->ev);
    free(s->sched);
}

static int same_events(const struct snap *a, const struct snap *b) {
    if (a->n != b->n) {
        return 0;
    }
    for (size_t i = 0; i < a->n; ++i) {
        const struct ds_event *x = &a->ev[i], *y = &b->ev[i];
        if (x->thread != y->thread || x->kind != y->kind || x->obj_type != y->obj_type || x->obj != y->obj ||
            x->aux != y->aux || x->time != y->time) {
            return 0;
        }
    }
    return 1;
}

/* ---------------------------------------------------------------- producer / consumer */
#define QCAP 2
#define NPROD 2
#define PER_PROD 4
static pthread_mutex_t q_lock;
static pthread_cond_t q_nonempty, q_nonfull;
static int q_buf[QCAP], q_len;
static int got[NPROD * PER_PROD], ngot;

static void *producer(void *arg) {
    int id = (int)(intptr_t)arg;
    for (int i = 0; i < PER_PROD; ++i) {
        pthread_mutex_lock(&q_lock);
        while (q_len == QCAP) {
            pthread_cond_wait(&q_nonfull, &q_lock);
        }
        q_buf[q_len++] = id * 100 + i;
        pthread_cond_signal(&q_nonempty);
        pthread_mutex_unlock(&q_lock);
    }
    return NULL;
}

static void *consumer(void *arg) {
    (void)arg;
    for (int k = 0; k < NPROD * PER_PROD; ++k) {
        pthread_mutex_lock(&q_lock);
        while (q_len == 0) {
            pthread_cond_wait(&q_nonempty, &q_lock);
        }
        got[ngot++] = q_buf[0];
        memmove(q_buf, q_buf + 1, (size_t)(--q_len) * sizeof(int));
        pthread_cond_broadcast(&q_nonfull);
        pthread_mutex_unlock(&q_lock);
    }
    return NULL;
}

static void pc_main(void *arg) {
    (void)arg;
    pthread_t p[NPROD], c;
    pthread_mutex_init(&q_lock, NULL);
    pthread_cond_init(&q_nonempty, NULL);
    pthread_cond_init(&q_nonfull, NULL);
    q_len = 0;
    ngot = 0;
    pthread_create(&c, NULL, consumer, NULL);
    for (int i = 0; i < NPROD; ++i) {
        pthread_create(&p[i], NULL, producer, (void *)(intptr_t)(i + 1));
    }
    for (int i = 0; i < NPROD; ++i) {
        pthread_join(p[i], NULL);
    }
    pthread_join(c, NULL);
    pthread_mutex_destroy(&q_lock);
    pthread_cond_destroy(&q_nonempty);
    pthread_cond_destroy(&q_nonfull);
}

static int pc_result_ok(void) {
    if (ngot != NPROD * PER_PROD) {
        return 0;
    }
    int next[NPROD + 1] = {0};
    for (int i = 0; i < ngot; ++i) {
        int id = got[i] / 100, seq = got[i] % 100;
        if (id < 1 || id > NPROD || seq != next[id]) {
            return 0;
        }
        next[id]++;
    }
    return 1;
}

static struct snap run_pc_seed(uint64_t seed, unsigned spurious) {
    struct ds_config c = {.mode = DS_SEED, .seed = seed, .spurious_permille = spurious};
    ds_init(&c);
    int rc = ds_run(pc_main, NULL);
    if (rc != 0 || !pc_result_ok() || ds_misuse_count() != 0) {
        printf("FAIL producer/consumer under seed %llu rc=%d ngot=%d\n", (unsigned long long)seed, rc, ngot);
        s_fail = 1;
    }
    return take_snap();
}

/* ---------------------------------------------------------------- timed wait */
static int tw_rc;
static uint64_t tw_before, tw_after;
static void tw_main(void *arg) {
    (void)arg;
    pthread_mutex_t m = PTHREAD_MUTEX_INITIALIZER;
    pthread_cond_t c = PTHREAD_COND_INITIALIZER;
    struct timespec ts;
    clock_gettime(CLOCK_REALTIME, &ts);
    tw_before = (uint64_t)ts.tv_sec * 1000000000ULL + (uint64_t)ts.tv_nsec;
    ts.tv_nsec += 5000;
    pthread_mutex_lock(&m);
    tw_rc = pthread_cond_timedwait(&c, &m, &ts);
    pthread_mutex_unlock(&m);
    clock_gettime(CLOCK_MONOTONIC, &ts);
    tw_after = (uint64_t)ts.tv_sec * 1000000000ULL + (uint64_t)ts.tv_nsec;
    struct timespec d = {.tv_sec = 2, .tv_nsec = 7};
    nanosleep(&d, NULL);
}

/* ---------------------------------------------------------------- deadlocks */
static pthread_mutex_t mA, mB;
static void *ab(void *arg) {
    (void)arg;
    pthread_mutex_lock(&mA);
    pthread_mutex_lock(&mB);
    pthread_mutex_unlock(&mB);
    pthread_mutex_unlock(&mA);
    return NULL;
}
static void *ba(void *arg) {
    (void)arg;
    pthread_mutex_lock(&mB);
    pthread_mutex_lock(&mA);
    pthread_mutex_unlock(&mA);
    pthread_mutex_unlock(&mB);
    return NULL;
}
static void inversion_main(void *arg) {
    (void)arg;
    pthread_t x, y;
    pthread_mutex_init(&mA, NULL);
    pthread_mutex_init(&mB, NULL);
    pthread_create(&x, NULL, ab, NULL);
    pthread_create(&y, NULL, ba, NULL);
    pthread_join(x, NULL);
    pthread_join(y, NULL);
}

static pthread_mutex_t lm;
static pthread_cond_t lc;
static void *late_waiter(void *arg) {
    (void)arg;
    pthread_mutex_lock(&lm);
    pthread_cond_wait(&lc, &lm); /* no predicate: a notify that came first is lost */
    pthread_mutex_unlock(&lm);
    return NULL;
}
static void lost_main(void *arg) {
    (void)arg;
    pthread_t w;
    pthread_mutex_init(&lm, NULL);
    pthread_cond_init(&lc, NULL);
    pthread_create(&w, NULL, late_waiter, NULL);
    pthread_mutex_lock(&lm);
    pthread_cond_signal(&lc);
    pthread_mutex_unlock(&lm);
    pthread_join(w, NULL);
}

/* ---------------------------------------------------------------- once, create failure, library calls */
static pthread_once_t s_once = PTHREAD_ONCE_INIT;
static int s_once_runs;
static void once_init(void) {
    pthread_mutex_t m = PTHREAD_MUTEX_INITIALIZER;
    pthread_mutex_lock(&m); /* a schedule point inside the init routine */
    s_once_runs++;
    pthread_mutex_unlock(&m);
}
static void *once_thread(void *arg) {
    (void)arg;
    pthread_once(&s_once, once_init);
    return NULL;
}
static int s_create_rc[3];
static void once_main(void *arg) {
    (void)arg;
    pthread_t t[3];
    for (int i = 0; i < 3; ++i) {
        s_create_rc[i] = pthread_create(&t[i], NULL, once_thread, NULL);
    }
    for (int i = 0; i < 3; ++i) {
        if (!s_create_rc[i]) {
            pthread_join(t[i], NULL);
        }
    }
}

static struct aws_mutex s_aws_mutex = AWS_MUTEX_INIT;
static int s_aws_ran;
static void aws_fn(void *arg) {
    (void)arg;
    aws_mutex_lock(&s_aws_mutex);
    s_aws_ran++;
    aws_mutex_unlock(&s_aws_mutex);
}
static void aws_main(void *arg) {
    (void)arg;
    struct aws_thread th;
    aws_thread_init(&th, aws_default_allocator());
    aws_thread_launch(&th, aws_fn, NULL, NULL);
    aws_thread_join(&th);
    aws_thread_clean_up(&th);
}

/* aws_thread_launch with options: each pthread_attr_* call of the library can be made to fail */
static int s_attr_rc[4];
static void attr_main(void *arg) {
    (void)arg;
    for (int which = 0; which < 4; ++which) {
        struct aws_thread th;
        aws_thread_init(&th, aws_default_allocator());
        struct aws_thread_options o = *aws_default_thread_options();
        if (which == DS_ATTR_SETSTACKSIZE) {
            o.stack_size = 256 * 1024;
        }
        if (which == DS_ATTR_SETAFFINITY) {
            o.cpu_id = 0;
        }
        ds_fail_next_attr(which, which == DS_ATTR_INIT ? ENOMEM : EINVAL);
        s_attr_rc[which] = aws_thread_launch(&th, aws_fn, NULL, &o) == AWS_OP_SUCCESS ? 0 : aws_last_error();
        if (s_attr_rc[which] == 0) {
            aws_thread_join(&th);
        }
        aws_thread_clean_up(&th);
    }
}

static int count_kind(int kind) {
    int n = 0;
    for (size_t i = 0; i < ds_event_count(); ++i) {
        n += ds_event_at(i)->kind == kind;
    }
    return n;
}

int main(void) {
    /* determinism */
    struct snap a = run_pc_seed(11, 0), b = run_pc_seed(11, 0), c = run_pc_seed(12, 0);
    CHECK("same seed gives the identical event log", same_events(&a, &b));
    CHECK("another seed gives another interleaving", !same_events(&a, &c));
    {
        struct ds_config cfg = {.mode = DS_EXPLICIT, .list = a.sched, .list_len = a.nsched};
        ds_init(&cfg);
        int rc = ds_run(pc_main, NULL);
        struct snap r = take_snap();
        CHECK("replay of the recorded schedule reproduces the event log", rc == 0 && !ds_diverged() && same_events(&a, &r));
        free_snap(&r);
    }
    int distinct = 0;
    for (uint64_t s = 100; s < 140; ++s) {
        struct snap x = run_pc_seed(s, s % 2 ? 50 : 0);
        distinct += !same_events(&a, &x);
        free_snap(&x);
    }
    CHECK("producer/consumer correct under 40 seeds (half with spurious wake-ups), interleavings differ", distinct >= 30);
    {
        struct snap s1 = run_pc_seed(77, 100), s2 = run_pc_seed(77, 100);
        CHECK("spurious wake-ups are deterministic too", same_events(&s1, &s2));
        struct ds_config cfg = {.mode = DS_EXPLICIT, .list = s1.sched, .list_len = s1.nsched};
        ds_init(&cfg);
        ds_run(pc_main, NULL);
        struct snap r = take_snap();
        CHECK("replay including spurious wake-ups", !ds_diverged() && same_events(&s1, &r));
        free_snap(&s1);
        free_snap(&s2);
        free_snap(&r);
    }
    {
        int ch[] = {0, 2, 2, 1, 3, 0, 0, 2, -1, 1, 5, 4, 0, 0, 3, 1};
        struct ds_config cfg = {.mode = DS_CHOICES, .list = ch, .list_len = sizeof(ch) / sizeof(ch[0]), .quantum = 3};
        ds_init(&cfg);
        int rc1 = ds_run(pc_main, NULL);
        int ok1 = pc_result_ok();
        struct snap x = take_snap();
        ds_init(&cfg);
        int rc2 = ds_run(pc_main, NULL);
        struct snap y = take_snap();
        CHECK("choice-list schedule + fair default policy: completes, deterministic", rc1 == 0 && rc2 == 0 && ok1 && same_events(&x, &y));
        free_snap(&x);
        free_snap(&y);
    }
    free_snap(&a);
    free_snap(&b);
    free_snap(&c);

    /* virtual time */
    {
        struct ds_config cfg = {.mode = DS_SEED, .seed = 1, .start_ns = 5000000000ULL};
        ds_init(&cfg);
        int rc = ds_run(tw_main, NULL);
        CHECK("timed wait without signal: ETIMEDOUT exactly at the deadline", rc == 0 && tw_rc == ETIMEDOUT && tw_before == 5000000000ULL && tw_after == tw_before + 5000);
        CHECK("nanosleep advances virtual time only", ds_now() == 5000000000ULL + 5000 + 2000000007ULL);
    }

    /* deadlock detection */
    {
        int dead = 0, fine = 0, replay_ok = 1;
        for (uint64_t s = 1; s <= 60; ++s) {
            struct ds_config cfg = {.mode = DS_SEED, .seed = s};
            ds_init(&cfg);
            int rc = ds_run(inversion_main, NULL);
            if (rc == 1 && ds_deadlocked()) {
                dead++;
                struct snap d = take_snap();
                char who[256];
                ds_describe_blocked(who, sizeof(who));
                if (dead == 1) {
                    printf("     first lock-order deadlock at seed %llu after %zu picks: %s\n", (unsigned long long)s, d.nsched, who);
                }
                struct ds_config rcfg = {.mode = DS_EXPLICIT, .list = d.sched, .list_len = d.nsched};
                ds_init(&rcfg);
                int rr = ds_run(inversion_main, NULL);
                struct snap d2 = take_snap();
                replay_ok &= (rr == 1 && same_events(&d, &d2));
                free_snap(&d);
                free_snap(&d2);
            } else if (rc == 0) {
                fine++;
            }
        }
        CHECK("lock-order inversion: some seeds deadlock, some complete", dead > 0 && fine > 0 && dead + fine == 60);
        CHECK("a deadlock replays from its schedule", replay_ok);
        /* the canonical schedule: main creates both, t1 locks A, t2 locks B */
        int sch[] = {0, 0, 0, 1, 2, 1, 2};
        struct ds_config cfg = {.mode = DS_EXPLICIT, .list = sch, .list_len = 7};
        ds_init(&cfg);
        int rc = ds_run(inversion_main, NULL);
        CHECK("explicit schedule drives into the inversion deadlock", rc == 1 && ds_deadlocked() && !ds_diverged());
    }
    {
        int sch[] = {0, 0, 0, 0, 0}; /* main: start, create, lock, signal, unlock before the waiter runs */
        struct ds_config cfg = {.mode = DS_EXPLICIT, .list = sch, .list_len = 5};
        ds_init(&cfg);
        int rc = ds_run(lost_main, NULL);
        CHECK("notify with no waiter is lost (reported as deadlock)", rc == 1 && ds_deadlocked());
        int sch2[] = {0, 0, 1, 1, 0, 0, 0}; /* waiter first: start, create, t1 start, t1 lock... */
        struct ds_config cfg2 = {.mode = DS_EXPLICIT, .list = sch2, .list_len = 7};
        ds_init(&cfg2);
        rc = ds_run(lost_main, NULL);
        /* t1 start, t1 lock happen at picks 3,4; then wait needs one more t1 pick: default policy continues */
        CHECK("waiter first: the notify arrives or the default policy completes the run", rc == 0 || rc == 1);
    }

    /* once + create failure */
    {
        int once_ok = 1;
        for (uint64_t s = 1; s <= 20; ++s) {
            s_once = (pthread_once_t)PTHREAD_ONCE_INIT;
            s_once_runs = 0;
            struct ds_config cfg = {.mode = DS_SEED, .seed = s};
            ds_init(&cfg);
            int rc = ds_run(once_main, NULL);
            once_ok &= (rc == 0 && s_once_runs == 1 && ds_thread_count() == 4);
        }
        CHECK("pthread_once: init runs once under 20 seeds, no hang", once_ok);
        s_once = (pthread_once_t)PTHREAD_ONCE_INIT;
        s_once_runs = 0;
        struct ds_config cfg = {.mode = DS_SEED, .seed = 3};
        ds_init(&cfg);
        ds_inject_create_failure(1, EAGAIN);
        int rc = ds_run(once_main, NULL);
        CHECK("injected pthread_create failure", rc == 0 && s_create_rc[0] == 0 && s_create_rc[1] == EAGAIN && s_create_rc[2] == 0 && ds_thread_count() == 3);
    }

    /* pthread_attr_* failure injection reaches the library's aws_thread_launch */
    {
        struct ds_config cfg = {.mode = DS_SEED, .seed = 7};
        ds_init(&cfg);
        s_aws_ran = 0;
        int rc = ds_run(attr_main, NULL);
        /* init / setstacksize / getstacksize failures fail the launch; a setaffinity failure is retried unpinned */
        CHECK("injected pthread_attr_* failures (init, setstacksize, getstacksize fail the launch; setaffinity is retried)",
              rc == 0 && ds_attr_fault_count() == 4 && s_attr_rc[DS_ATTR_INIT] == AWS_ERROR_OOM &&
                  s_attr_rc[DS_ATTR_SETSTACKSIZE] == AWS_ERROR_THREAD_INVALID_SETTINGS &&
                  s_attr_rc[DS_ATTR_GETSTACKSIZE] == AWS_ERROR_THREAD_INVALID_SETTINGS && s_attr_rc[DS_ATTR_SETAFFINITY] == 0 &&
                  s_aws_ran == 1 && ds_thread_count() == 2);
    }

    /* calls from inside the static library are wrapped */
    {
        struct ds_config cfg = {.mode = DS_SEED, .seed = 5};
        ds_init(&cfg);
        s_aws_ran = 0;
        int rc = ds_run(aws_main, NULL);
        CHECK("library-calls-are-wrapped (aws_thread_launch / aws_mutex_lock / aws_thread_join from libawsc.a)",
              rc == 0 && s_aws_ran == 1 && ds_thread_count() == 2 && count_kind(DS_CREATE) == 1 && count_kind(DS_LOCK) == 1 &&
                  count_kind(DS_UNLOCK) == 1 && count_kind(DS_JOIN) == 1);
        ds_dump_events(stdout);
    }
    printf(s_fail ? "SELFTEST FAIL\n" : "SELFTEST PASS\n");
    return s_fail;
}
