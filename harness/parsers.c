/* C04 harness: feeds arbitrary bytes to every decoder / parser of aws-c-common and monitors, on the
 * implementation side, the clauses of the property (DESIGN.md 4.3, 5.4):
 *   - every input lives in an exact-size malloc block (ASan red zones are tight) and, when it is empty,
 *     is ALSO passed as the NULL/0 view;
 *   - every cursor handed back (to a callback or through an out-parameter) is range-checked against the
 *     block it must point into ("views=");
 *   - a failing call must leave a registered, non-zero aws_last_error() where the API documents an error
 *     code ("chan="; the error is reset before each call);
 *   - output buffers are exact-size and canary-filled; a second run places the output between two canary
 *     margins inside a larger block and checks the margins ("canary=");
 *   - the input block must be unchanged after the call ("canary=BAD:input-modified" otherwise);
 *   - a per-op alarm() bounds run time.
 * Crashes / sanitizer aborts / watchdog expiry end the process; lib/core.py attributes them to the case.
 *
 * Ops:   p <parser> <hex input> [key=value options]      one or more "P ..." lines, then "E <parser>"
 * Line:  P <parser> <blk|null> <call> <class...> [k=v ...] chan=<ok|-|BAD:..> views=<ok|-|BAD:..> canary=<ok|-|BAD:..>
 */
#include "h_common.h"
#include <aws/common/byte_buf.h>
#include <aws/common/cbor.h>
#include <aws/common/date_time.h>
#include <aws/common/encoding.h>
#include <aws/common/error.h>
#include <aws/common/host_utils.h>
#include <aws/common/json.h>
#include <aws/common/uri.h>
#include <aws/common/uuid.h>
#include <aws/common/xml_parser.h>
#include <signal.h>
#include <stdlib.h>
#include <string.h>
#include <unistd.h>

/* portable (non-SIMD) build of source/encoding.c, symbols renamed by parsers_pt_rename.h */
int pt_aws_base64_compute_decoded_len(const struct aws_byte_cursor *to_decode, size_t *decoded_len);
int pt_aws_base64_decode(const struct aws_byte_cursor *to_decode, struct aws_byte_buf *output);
int pt_aws_hex_decode(const struct aws_byte_cursor *to_decode, struct aws_byte_buf *output);

#define CANARY 0xC5
#define MARGIN 64

static const char *s_cur_parser = "?";
static unsigned s_alarm_secs = 20;

static void s_on_alarm(int sig) {
    (void)sig;
    char buf[128];
    int n = snprintf(buf, sizeof(buf), "\nP WATCHDOG %s\n", s_cur_parser);
    if (n > 0) {
        ssize_t w = write(1, buf, (size_t)n);
        (void)w;
    }
    _exit(97);
}

/* ------------------------------------------------------------------ view checking */
struct vchk {
    const uint8_t *base;
    size_t len;
    size_t checked;
    char bad[96];
};

static void s_vinit(struct vchk *v, const uint8_t *base, size_t len) {
    v->base = base;
    v->len = len;
    v->checked = 0;
    v->bad[0] = 0;
}

static void s_vchk(struct vchk *v, const char *what, struct aws_byte_cursor c) {
    v->checked++;
    if (v->bad[0]) {
        return;
    }
    if (c.ptr == NULL) {
        if (c.len != 0) {
            snprintf(v->bad, sizeof(v->bad), "BAD:%s:null-with-len-%zu", what, c.len);
        }
        return;
    }
    bool inside = v->base != NULL && c.ptr >= v->base && c.len <= v->len && (size_t)(c.ptr - v->base) <= v->len - c.len;
    if (!inside) {
        if (v->base == NULL) {
            snprintf(v->bad, sizeof(v->bad), "BAD:%s:non-null-view(len=%zu)-of-null-input", what, c.len);
        } else {
            snprintf(
                v->bad, sizeof(v->bad), "BAD:%s:off=%td,len=%zu,input=%zu", what, (ptrdiff_t)(c.ptr - v->base), c.len, v->len);
        }
    }
}

static const char *s_vres(const struct vchk *v) {
    return v->bad[0] ? v->bad : (v->checked ? "ok" : "-");
}

/* ------------------------------------------------------------------ error channel */
static const char *s_chan(bool failed) {
    if (!failed) {
        return "ok";
    }
    int e = aws_last_error();
    if (e == 0) {
        return "BAD:failure-with-AWS_ERROR_SUCCESS";
    }
    if (!strcmp(aws_error_name(e), "Unknown Error Code")) {
        return "BAD:failure-with-unregistered-error-code";
    }
    return "ok";
}

/* prints "OK" or "ERR <name>" */
static void s_class(int rc) {
    if (rc == AWS_OP_SUCCESS) {
        printf("OK");
    } else {
        printf("ERR %s", aws_error_name(aws_last_error()));
    }
}

/* ------------------------------------------------------------------ output buffers */
struct obuf {
    uint8_t *block; /* malloc block */
    size_t block_len;
    uint8_t *out; /* the buffer handed to the API */
    size_t cap;
    bool margins;
    uint8_t *hdr_buffer; /* header as handed to the API (from_empty_array gives NULL for capacity 0) */
};

/* exact-size canary-filled block (margins=false) or the same capacity between two canary margins */
static struct aws_byte_buf s_obuf_make(struct obuf *o, size_t cap, bool margins) {
    o->margins = margins;
    o->cap = cap;
    o->block_len = margins ? cap + 2 * MARGIN : cap;
    o->block = malloc(o->block_len);
    HC_CHECK(o->block != NULL || o->block_len == 0);
    if (o->block_len) {
        memset(o->block, CANARY, o->block_len);
    }
    o->out = margins ? o->block + MARGIN : o->block;
    struct aws_byte_buf b = aws_byte_buf_from_empty_array(o->out, cap);
    o->hdr_buffer = b.buffer;
    return b;
}

/* margins intact, len <= cap, buffer pointer/capacity unchanged; when must_be_untouched also the buffer body */
static const char *s_obuf_check(const struct obuf *o, const struct aws_byte_buf *b, bool must_be_untouched) {
    if (b->buffer != o->hdr_buffer || b->capacity != o->cap) {
        return "BAD:buffer-header-changed";
    }
    if (b->len > b->capacity) {
        return "BAD:len>capacity";
    }
    if (o->margins) {
        for (size_t i = 0; i < MARGIN; ++i) {
            if (o->block[i] != CANARY || o->block[MARGIN + o->cap + i] != CANARY) {
                return "BAD:margin-overwritten";
            }
        }
    }
    if (must_be_untouched) {
        for (size_t i = 0; i < o->cap; ++i) {
            if (o->out[i] != CANARY) {
                return "BAD:written-although-refused";
            }
        }
    }
    return "ok";
}

static void s_obuf_free(struct obuf *o) {
    free(o->block);
    o->block = NULL;
}

/* ------------------------------------------------------------------ XML */
struct xml_ctx {
    const char *prog;
    size_t prog_len;
    size_t calls, nodes, bodies, bodylen, attrs, depth, maxdepth, aborts;
    struct vchk v;
    const char *chan_bad;
};

static int s_xml_cb(struct aws_xml_node *node, void *ud) {
    struct xml_ctx *c = ud;
    c->nodes++;
    s_vchk(&c->v, "name", aws_xml_node_get_name(node));
    size_t na = aws_xml_node_get_num_attributes(node);
    for (size_t i = 0; i < na; ++i) {
        struct aws_xml_attribute a = aws_xml_node_get_attribute(node, i);
        s_vchk(&c->v, "attr-name", a.name);
        s_vchk(&c->v, "attr-value", a.value);
        c->attrs++;
    }
    char act = c->prog_len ? c->prog[c->calls % c->prog_len] : 's';
    c->calls++;
    switch (act) {
        case 'd': {
            c->depth++;
            if (c->depth > c->maxdepth) {
                c->maxdepth = c->depth;
            }
            aws_reset_error();
            int rc = aws_xml_node_traverse(node, s_xml_cb, c);
            c->depth--;
            if (rc) {
                const char *ch = s_chan(true);
                if (ch[0] == 'B' && !c->chan_bad) {
                    c->chan_bad = ch;
                }
                return AWS_OP_ERR;
            }
            return AWS_OP_SUCCESS;
        }
        case 'b': {
            struct aws_byte_cursor body;
            AWS_ZERO_STRUCT(body);
            aws_reset_error();
            int rc = aws_xml_node_as_body(node, &body);
            if (rc) {
                const char *ch = s_chan(true);
                if (ch[0] == 'B' && !c->chan_bad) {
                    c->chan_bad = ch;
                }
                return AWS_OP_ERR;
            }
            c->bodies++;
            c->bodylen += body.len;
            s_vchk(&c->v, "body", body);
            return AWS_OP_SUCCESS;
        }
        case 'a':
            c->aborts++;
            return aws_raise_error(AWS_ERROR_INVALID_STATE);
        default: /* 's': return without touching the node, the parser skips it */
            return AWS_OP_SUCCESS;
    }
}

static void s_run_xml(const uint8_t *p, size_t n, const char *variant, const char *prog, size_t max_depth) {
    struct xml_ctx c;
    AWS_ZERO_STRUCT(c);
    c.prog = prog;
    c.prog_len = strlen(prog);
    s_vinit(&c.v, p, n);
    struct aws_xml_parser_options opt = {
        .doc = {.ptr = (uint8_t *)p, .len = n},
        .max_depth = max_depth,
        .on_root_encountered = s_xml_cb,
        .user_data = &c,
    };
    aws_reset_error();
    int rc = aws_xml_parse(hc_allocator(), &opt);
    const char *ch = s_chan(rc != 0);
    if (c.chan_bad) {
        ch = c.chan_bad;
    }
    printf("P xml %s parse ", variant);
    s_class(rc);
    printf(
        " nodes=%zu bodies=%zu bodylen=%zu attrs=%zu maxdepth=%zu aborts=%zu chan=%s views=%s canary=-\n",
        c.nodes,
        c.bodies,
        c.bodylen,
        c.attrs,
        c.maxdepth,
        c.aborts,
        ch,
        s_vres(&c.v));
}

/* ------------------------------------------------------------------ JSON */
static void s_run_json(const uint8_t *p, size_t n, const char *variant) {
    struct aws_byte_cursor cur = {.ptr = (uint8_t *)p, .len = n};
    aws_reset_error();
    struct aws_json_value *v = aws_json_value_new_from_string(hc_allocator(), cur);
    if (!v) {
        /* documented channel: NULL result */
        printf("P json %s parse NULL chan=ok views=- canary=-\n", variant);
        return;
    }
    /* walk the whole tree once (serialise) so that a damaged tree would be noticed, then destroy */
    struct aws_byte_buf out;
    aws_byte_buf_init(&out, hc_allocator(), 16);
    int rc = aws_byte_buf_append_json_string(v, &out);
    printf("P json %s parse OK print=%s outlen=%zu chan=ok views=- canary=-\n", variant, rc ? "ERR" : "OK", out.len);
    aws_byte_buf_clean_up(&out);
    aws_json_value_destroy(v);
}

/* ------------------------------------------------------------------ CBOR */
static void s_run_cbor_all(const uint8_t *p, size_t n, const char *variant) {
    struct aws_byte_cursor cur = {.ptr = (uint8_t *)p, .len = n};
    struct aws_cbor_decoder *d = aws_cbor_decoder_new(hc_allocator(), cur);
    struct vchk v;
    s_vinit(&v, p, n);
    size_t items = 0;
    int rc = 0;
    const char *mon = NULL;
    for (;;) {
        size_t rem = aws_cbor_decoder_get_remaining_length(d);
        if (rem == 0) {
            break;
        }
        if (rem > n) {
            mon = "BAD:remaining-length-exceeds-input";
            break;
        }
        if (items > n) {
            mon = "BAD:more-items-than-bytes";
            break;
        }
        enum aws_cbor_type t = AWS_CBOR_TYPE_UNKNOWN;
        aws_reset_error();
        rc = aws_cbor_decoder_peek_type(d, &t);
        if (rc) {
            break;
        }
        uint64_t u = 0;
        double f = 0;
        bool b = false;
        struct aws_byte_cursor c;
        AWS_ZERO_STRUCT(c);
        aws_reset_error();
        switch (t) {
            case AWS_CBOR_TYPE_UINT:
                rc = aws_cbor_decoder_pop_next_unsigned_int_val(d, &u);
                break;
            case AWS_CBOR_TYPE_NEGINT:
                rc = aws_cbor_decoder_pop_next_negative_int_val(d, &u);
                break;
            case AWS_CBOR_TYPE_FLOAT:
                rc = aws_cbor_decoder_pop_next_float_val(d, &f);
                break;
            case AWS_CBOR_TYPE_BOOL:
                rc = aws_cbor_decoder_pop_next_boolean_val(d, &b);
                break;
            case AWS_CBOR_TYPE_BYTES:
                rc = aws_cbor_decoder_pop_next_bytes_val(d, &c);
                if (!rc) {
                    s_vchk(&v, "bytes", c);
                }
                break;
            case AWS_CBOR_TYPE_TEXT:
                rc = aws_cbor_decoder_pop_next_text_val(d, &c);
                if (!rc) {
                    s_vchk(&v, "text", c);
                }
                break;
            case AWS_CBOR_TYPE_ARRAY_START:
                rc = aws_cbor_decoder_pop_next_array_start(d, &u);
                break;
            case AWS_CBOR_TYPE_MAP_START:
                rc = aws_cbor_decoder_pop_next_map_start(d, &u);
                break;
            case AWS_CBOR_TYPE_TAG:
                rc = aws_cbor_decoder_pop_next_tag_val(d, &u);
                break;
            default:
                rc = aws_cbor_decoder_consume_next_single_element(d);
                break;
        }
        if (rc) {
            break;
        }
        items++;
    }
    printf("P cbor %s decode_all ", variant);
    s_class(rc);
    printf(" items=%zu chan=%s views=%s canary=-\n", items, mon ? mon : s_chan(rc != 0), s_vres(&v));
    aws_cbor_decoder_destroy(d);
}

static void s_run_cbor_consume(const uint8_t *p, size_t n, const char *variant) {
    struct aws_byte_cursor cur = {.ptr = (uint8_t *)p, .len = n};
    struct aws_cbor_decoder *d = aws_cbor_decoder_new(hc_allocator(), cur);
    size_t items = 0;
    int rc = 0;
    const char *mon = NULL;
    while (aws_cbor_decoder_get_remaining_length(d) > 0) {
        if (items > n) {
            mon = "BAD:more-items-than-bytes";
            break;
        }
        aws_reset_error();
        rc = aws_cbor_decoder_consume_next_whole_data_item(d);
        if (rc) {
            break;
        }
        items++;
    }
    if (aws_cbor_decoder_get_remaining_length(d) > n) {
        mon = "BAD:remaining-length-exceeds-input";
    }
    printf("P cbor_consume %s consume ", variant);
    s_class(rc);
    printf(" items=%zu chan=%s views=- canary=-\n", items, mon ? mon : s_chan(rc != 0));
    aws_cbor_decoder_destroy(d);
}

/* ------------------------------------------------------------------ URI, query string, percent-decoding */
static uint64_t s_kv_hash; /* FNV-1a over "koff,klen,voff,vlen;" of every parameter of the last iteration (framing) */

static void s_kv_add(const uint8_t *base, struct aws_byte_cursor key, struct aws_byte_cursor value) {
    char buf[96];
    int n = snprintf(
        buf,
        sizeof(buf),
        "%td,%zu,%td,%zu;",
        base && key.ptr ? (ptrdiff_t)(key.ptr - base) : (ptrdiff_t)-1,
        key.len,
        base && value.ptr ? (ptrdiff_t)(value.ptr - base) : (ptrdiff_t)-1,
        value.len);
    for (int i = 0; i < n; ++i) {
        s_kv_hash = (s_kv_hash ^ (uint8_t)buf[i]) * 1099511628211ull;
    }
}

static void s_query_iter(struct aws_byte_cursor q, struct vchk *v, size_t *count, const char **mon) {
    struct aws_uri_param param;
    AWS_ZERO_STRUCT(param);
    size_t k = 0;
    s_kv_hash = 14695981039346656037ull;
    while (aws_query_string_next_param(q, &param)) {
        s_vchk(v, "param-key", param.key);
        s_vchk(v, "param-value", param.value);
        s_kv_add(q.ptr, param.key, param.value);
        if (++k > q.len + 2) {
            *mon = "BAD:query-iteration-does-not-end";
            break;
        }
    }
    *count = k;
}

static void s_run_uri(const uint8_t *p, size_t n, const char *variant) {
    struct aws_byte_cursor cur = {.ptr = (uint8_t *)p, .len = n};
    struct aws_uri uri;
    memset(&uri, CANARY, sizeof(uri));
    aws_reset_error();
    int rc = aws_uri_init_parse(&uri, hc_allocator(), &cur);
    printf("P uri %s init_parse ", variant);
    s_class(rc);
    if (rc) {
        printf(" chan=%s views=- canary=-\n", s_chan(true));
        return;
    }
    struct vchk v;
    s_vinit(&v, uri.uri_str.buffer, uri.uri_str.len);
    const char *mon = NULL;
    if (uri.uri_str.len != n || (n && memcmp(uri.uri_str.buffer, p, n))) {
        mon = "BAD:uri_str-is-not-a-copy-of-the-input";
    }
    s_vchk(&v, "scheme", *aws_uri_scheme(&uri));
    s_vchk(&v, "authority", *aws_uri_authority(&uri));
    s_vchk(&v, "userinfo", uri.userinfo);
    s_vchk(&v, "user", uri.user);
    s_vchk(&v, "password", uri.password);
    s_vchk(&v, "host_name", *aws_uri_host_name(&uri));
    s_vchk(&v, "path", *aws_uri_path(&uri));
    s_vchk(&v, "query_string", *aws_uri_query_string(&uri));
    s_vchk(&v, "path_and_query", *aws_uri_path_and_query(&uri));
    /* framing: the component views tile the text (checked only where the component is present) */
    {
        const uint8_t *base = uri.uri_str.buffer, *end = uri.uri_str.buffer + uri.uri_str.len;
        const struct aws_byte_cursor sc = uri.scheme, au = uri.authority, pa = uri.path, qs = uri.query_string, pq = uri.path_and_query;
        if (!mon && sc.ptr && sc.ptr != base) {
            mon = "BAD:framing:scheme-does-not-start-the-text";
        }
        if (!mon && sc.ptr && au.ptr && au.ptr != sc.ptr + sc.len + 3) {
            mon = "BAD:framing:authority-does-not-follow-scheme://";
        }
        if (!mon && !sc.ptr && au.len && au.ptr != base) {
            mon = "BAD:framing:authority-does-not-start-the-text";
        }
        if (!mon && pq.ptr && pq.ptr + pq.len != end) {
            mon = "BAD:framing:path_and_query-does-not-end-the-text";
        }
        if (!mon && pq.ptr && au.ptr && au.ptr + au.len != pq.ptr) {
            mon = "BAD:framing:path_and_query-does-not-follow-authority";
        }
        if (!mon && pa.len && pa.ptr != pq.ptr) {
            mon = "BAD:framing:path-does-not-start-path_and_query";
        }
        if (!mon && qs.ptr && qs.ptr + qs.len != end) {
            mon = "BAD:framing:query-does-not-end-the-text";
        }
        if (!mon && qs.ptr && pq.ptr && qs.ptr != pq.ptr + pa.len + 1) {
            mon = "BAD:framing:query-does-not-follow-path-and-question-mark";
        }
        if (!mon && qs.ptr && qs.ptr > base && qs.ptr[-1] != '?') {
            mon = "BAD:framing:query-is-not-preceded-by-a-question-mark";
        }
        if (!mon && !pq.ptr && au.ptr && au.ptr + au.len != end) {
            mon = "BAD:framing:authority-only-text-does-not-end-with-authority";
        }
        /* delimiters: the authority ends at the first '/' or '?', the path at the first '?' */
        if (!mon && au.len && (memchr(au.ptr, '/', au.len) || memchr(au.ptr, '?', au.len))) {
            mon = "BAD:framing:authority-contains-a-path-or-query-delimiter";
        }
        if (!mon && pa.len && memchr(pa.ptr, '?', pa.len)) {
            mon = "BAD:framing:path-contains-a-question-mark";
        }
        /* userinfo = user [ ':' password ] at the start of the authority, then '@', then the host (after '[' for a literal) */
        const struct aws_byte_cursor ui = uri.userinfo, us = uri.user, pw = uri.password, hn = uri.host_name;
        if (!mon && ui.ptr && ui.ptr != au.ptr) {
            mon = "BAD:framing:userinfo-does-not-start-the-authority";
        }
        if (!mon && ui.ptr && (ui.ptr + ui.len >= end || ui.ptr[ui.len] != '@')) {
            mon = "BAD:framing:userinfo-is-not-followed-by-@";
        }
        if (!mon && ui.ptr && us.ptr != ui.ptr) {
            mon = "BAD:framing:user-does-not-start-userinfo";
        }
        if (!mon && pw.ptr && (pw.ptr != us.ptr + us.len + 1 || pw.ptr + pw.len != ui.ptr + ui.len)) {
            mon = "BAD:framing:user-:-password-do-not-tile-userinfo";
        }
        if (!mon && ui.ptr && !pw.ptr && us.len != ui.len) {
            mon = "BAD:framing:user-is-not-the-whole-userinfo";
        }
        if (!mon && hn.ptr && au.ptr) {
            const uint8_t *hs = ui.ptr ? ui.ptr + ui.len + 1 : au.ptr; /* where the host text starts */
            if (hs < au.ptr + au.len && *hs == '[') {
                hs++;
            }
            if (hn.ptr != hs || hn.ptr + hn.len > au.ptr + au.len) {
                mon = "BAD:framing:host_name-does-not-start-behind-userinfo-or-leaves-the-authority";
            }
        }
    }
    size_t params = 0;
    s_query_iter(*aws_uri_query_string(&uri), &v, &params, &mon);
    printf(" port=%u params=%zu chan=%s views=%s canary=-\n", aws_uri_port(&uri), params, mon ? mon : "ok", s_vres(&v));
    aws_uri_clean_up(&uri);
}

static void s_run_query(const uint8_t *p, size_t n, const char *variant) {
    struct aws_byte_cursor cur = {.ptr = (uint8_t *)p, .len = n};
    struct vchk v;
    s_vinit(&v, p, n);
    size_t params = 0, params2 = 0;
    const char *mon = NULL;
    s_query_iter(cur, &v, &params, &mon);
    uint64_t kv = s_kv_hash;
    struct aws_array_list lst;
    aws_array_list_init_dynamic(&lst, hc_allocator(), 4, sizeof(struct aws_uri_param));
    aws_reset_error();
    int rc = aws_query_string_params(cur, &lst);
    params2 = aws_array_list_length(&lst);
    for (size_t i = 0; i < params2; ++i) {
        struct aws_uri_param prm;
        aws_array_list_get_at(&lst, &prm, i);
        s_vchk(&v, "list-key", prm.key);
        s_vchk(&v, "list-value", prm.value);
    }
    aws_array_list_clean_up(&lst);
    if (!mon && !rc && params != params2) {
        mon = "BAD:iteration-and-list-disagree";
    }
    printf("P query %s iterate ", variant);
    s_class(rc);
    printf(" params=%zu kv=%016llx chan=%s views=%s canary=-\n", params, (unsigned long long)kv, mon ? mon : s_chan(rc != 0), s_vres(&v));
}

static void s_run_uridec(const uint8_t *p, size_t n, const char *variant, size_t pre, size_t cap, bool show) {
    struct aws_byte_cursor cur = {.ptr = (uint8_t *)p, .len = n};
    struct aws_byte_buf out;
    if (cap < pre) {
        cap = pre;
    }
    aws_byte_buf_init(&out, hc_allocator(), cap); /* exact-size block from the counting allocator */
    for (size_t i = 0; i < pre; ++i) {
        out.buffer[i] = (uint8_t)(0xA0 + (i & 15));
    }
    out.len = pre;
    aws_reset_error();
    int rc = aws_byte_buf_append_decoding_uri(&out, &cur);
    const char *can = "ok";
    if (out.len > out.capacity) {
        can = "BAD:len>capacity";
    } else if (out.len < pre || out.len > pre + n) {
        can = "BAD:length-out-of-range";
    } else {
        for (size_t i = 0; i < pre; ++i) {
            if (out.buffer[i] != (uint8_t)(0xA0 + (i & 15))) {
                can = "BAD:prefix-overwritten";
                break;
            }
        }
    }
    printf("P uridec %s decode ", variant);
    s_class(rc);
    printf(" outlen=%zu", out.len - (out.len >= pre ? pre : 0));
    if (show && can[0] == 'o') {
        printf(" out=");
        hc_put_hex(out.buffer + pre, out.len - pre);
    }
    printf(" chan=%s views=- canary=%s\n", s_chan(rc != 0), can);
    aws_byte_buf_clean_up(&out);
}

/* ------------------------------------------------------------------ date-time */
static void s_run_date(const uint8_t *p, size_t n, const char *variant) {
    static const char *names[] = {"rfc822", "iso8601", "iso8601_basic", "auto"};
    static const enum aws_date_format fmts[] = {
        AWS_DATE_FORMAT_RFC822, AWS_DATE_FORMAT_ISO_8601, AWS_DATE_FORMAT_ISO_8601_BASIC, AWS_DATE_FORMAT_AUTO_DETECT};
    struct aws_byte_cursor cur = {.ptr = (uint8_t *)p, .len = n};
    for (int i = 0; i < 4; ++i) {
        struct aws_date_time dt;
        memset(&dt, CANARY, sizeof(dt));
        aws_reset_error();
        int rc = aws_date_time_init_from_str_cursor(&dt, &cur, fmts[i]);
        /* dt.tz is a C string handed to strlen() by the library: unless the call refused the text before touching dt
         * (length precondition: dt still holds the canary) it must keep a NUL inside its 6 bytes */
        const char *can = "ok";
        if ((uint8_t)dt.tz[0] != CANARY || rc == AWS_OP_SUCCESS) {
            if (!memchr(dt.tz, 0, sizeof(dt.tz))) {
                can = "BAD:tz-not-NUL-terminated";
            }
        }
        printf("P date %s %s ", variant, names[i]);
        s_class(rc);
        if (!rc) {
            printf(" utc=%d", (int)dt.utc_assumed);
            if (dt.utc_assumed) {
                printf(" ts=%lld", (long long)dt.timestamp);
            }
        }
        printf(" chan=%s views=- canary=%s\n", s_chan(rc != 0), can);
    }
    if (n <= AWS_DATE_TIME_STR_MAX_LEN + 8) {
        /* the byte_buf entry point */
        struct aws_byte_buf b = aws_byte_buf_from_array(p, n);
        b.capacity = n + 9; /* a parser may look at [0, len) only: behind len lies the red zone, whatever capacity says */
        struct aws_date_time dt;
        aws_reset_error();
        int rc = aws_date_time_init_from_str(&dt, &b, AWS_DATE_FORMAT_AUTO_DETECT);
        printf("P date %s buf_auto ", variant);
        s_class(rc);
        if (!rc) {
            printf(" utc=%d", (int)dt.utc_assumed);
            if (dt.utc_assumed) {
                printf(" ts=%lld", (long long)dt.timestamp);
            }
        }
        printf(" chan=%s views=- canary=-\n", s_chan(rc != 0));
    }
}

/* ------------------------------------------------------------------ base64 / hex */
typedef int(decode_fn)(const struct aws_byte_cursor *, struct aws_byte_buf *);

static void s_decode_variants(
    const char *parser,
    const char *variant,
    decode_fn *fn,
    struct aws_byte_cursor cur,
    size_t need) {
    /* 1: exact capacity, exact-size block (ASan); 2: exact capacity between canary margins;
     * 3: one byte short: must refuse and leave the buffer untouched; 4: 7 bytes of slack */
    for (int k = 0; k < 4; ++k) {
        if (k == 2 && need == 0) {
            continue;
        }
        size_t cap = k == 2 ? need - 1 : (k == 3 ? need + 7 : need);
        struct obuf o;
        struct aws_byte_buf out = s_obuf_make(&o, cap, k == 1);
        aws_reset_error();
        int rc = fn(&cur, &out);
        const char *can = s_obuf_check(&o, &out, k == 2);
        if (k == 2 && rc == AWS_OP_SUCCESS && can[0] == 'o') {
            can = "BAD:accepted-a-short-buffer";
        }
        if (rc == AWS_OP_SUCCESS && out.len > need && can[0] == 'o') {
            can = "BAD:len-exceeds-computed-length";
        }
        static const char *kn[] = {"exact", "margins", "short", "slack"};
        printf("P %s %s decode_%s ", parser, variant, kn[k]);
        s_class(rc);
        printf(" outlen=%zu", out.len);
        if (!rc && k == 0 && can[0] == 'o') {
            uint64_t hsh = 14695981039346656037ull;
            for (size_t i = 0; i < out.len; ++i) {
                hsh = (hsh ^ out.buffer[i]) * 1099511628211ull;
            }
            printf(" fnv=%016llx", (unsigned long long)hsh);
        }
        printf(" chan=%s views=- canary=%s\n", s_chan(rc != 0), can);
        s_obuf_free(&o);
    }
}

static void s_run_b64(const uint8_t *p, size_t n, const char *variant, bool portable) {
    const char *parser = portable ? "b64p" : "b64";
    struct aws_byte_cursor cur = {.ptr = (uint8_t *)p, .len = n};
    size_t need = (size_t)-1;
    aws_reset_error();
    int rc = portable ? pt_aws_base64_compute_decoded_len(&cur, &need) : aws_base64_compute_decoded_len(&cur, &need);
    printf("P %s %s decoded_len ", parser, variant);
    s_class(rc);
    const char *mon = s_chan(rc != 0);
    if (!rc && need > n) {
        mon = "BAD:decoded-length-exceeds-input-length";
    }
    printf(" need=%zu chan=%s views=- canary=-\n", rc ? 0 : need, mon);
    if (rc || need > n) {
        /* still drive the decoder: it must refuse by itself */
        need = 0;
    }
    s_decode_variants(parser, variant, portable ? pt_aws_base64_decode : aws_base64_decode, cur, need);
    if (!portable) {
        /* the AVX2-dispatching decoder and the portable build of the same source must frame the text alike: same verdict,
         * same length, same bytes (a decoder that accepts what its twin rejects has mis-read its input) */
        struct obuf o1, o2;
        struct aws_byte_buf b1 = s_obuf_make(&o1, need, false), b2 = s_obuf_make(&o2, need, false);
        aws_reset_error();
        int r1 = aws_base64_decode(&cur, &b1);
        int r2 = pt_aws_base64_decode(&cur, &b2);
        bool same = (r1 == r2) && (r1 || (b1.len == b2.len && (b1.len == 0 || !memcmp(b1.buffer, b2.buffer, b1.len))));
        printf(
            "P b64 %s paths %s chan=ok views=- canary=%s\n",
            variant,
            r1 ? "ERR -" : "OK",
            same ? "ok" : "BAD:avx2-dispatch-and-portable-decoders-disagree");
        s_obuf_free(&o1);
        s_obuf_free(&o2);
    }
}

static void s_run_hex(const uint8_t *p, size_t n, const char *variant) {
    struct aws_byte_cursor cur = {.ptr = (uint8_t *)p, .len = n};
    size_t need = 0;
    aws_reset_error();
    int rc = aws_hex_compute_decoded_len(n, &need);
    printf("P hex %s decoded_len ", variant);
    s_class(rc);
    printf(" need=%zu chan=%s views=- canary=-\n", need, s_chan(rc != 0));
    if (rc) {
        need = 0;
    }
    s_decode_variants("hex", variant, aws_hex_decode, cur, need);
}

/* ------------------------------------------------------------------ UTF-8 */
struct u8_ctx {
    size_t count;
    uint64_t sum;
    size_t fail_at; /* callback fails at this code point index (0 = never) */
    const char *mon;
};

static int s_u8_cb(uint32_t cp, void *ud) {
    struct u8_ctx *c = ud;
    c->count++;
    c->sum = c->sum * 1000003u + cp;
    if (cp > 0x10FFFF || (cp >= 0xD800 && cp <= 0xDFFF)) {
        c->mon = "callback-got-a-code-point-above-U+10FFFF-or-a-surrogate";
    }
    if (c->fail_at && c->count == c->fail_at) {
        return aws_raise_error(AWS_ERROR_INVALID_STATE);
    }
    return AWS_OP_SUCCESS;
}

static void s_run_utf8(const uint8_t *p, size_t n, const char *variant, uint64_t seed, size_t fail_at) {
    struct aws_byte_cursor cur = {.ptr = (uint8_t *)p, .len = n};
    /* one-shot, no callback */
    aws_reset_error();
    int rc0 = aws_decode_utf8(cur, NULL);
    printf("P utf8 %s oneshot_nocb ", variant);
    s_class(rc0);
    printf(" chan=%s views=- canary=-\n", s_chan(rc0 != 0));
    /* one-shot with callback */
    struct u8_ctx c1 = {.fail_at = fail_at};
    struct aws_utf8_decoder_options opt = {.on_codepoint = s_u8_cb, .user_data = &c1};
    aws_reset_error();
    int rc1 = aws_decode_utf8(cur, &opt);
    int e1 = rc1 ? aws_last_error() : 0;
    printf("P utf8 %s oneshot ", variant);
    s_class(rc1);
    printf(" cps=%zu chan=%s views=- canary=-\n", c1.count, s_chan(rc1 != 0));
    if (c1.mon) {
        /* conformance note (C05's business, not a C04 clause) */
        printf("W utf8 %s NOTE %s\n", variant, c1.mon);
    }
    /* chunked through the incremental decoder; every chunk in its own exact-size block */
    struct u8_ctx c2 = {.fail_at = fail_at};
    struct aws_utf8_decoder_options opt2 = {.on_codepoint = s_u8_cb, .user_data = &c2};
    struct aws_utf8_decoder *d = aws_utf8_decoder_new(hc_allocator(), &opt2);
    uint64_t s = seed * 6364136223846793005ull + 1442695040888963407ull;
    size_t off = 0, chunks = 0;
    int rc2 = 0;
    aws_reset_error();
    while (off < n && !rc2) {
        s = s * 6364136223846793005ull + 1442695040888963407ull;
        size_t mode = (size_t)((s >> 60) & 3);
        size_t k = mode == 0 ? 0 : (mode == 1 ? 1 : (size_t)((s >> 33) % (mode == 2 ? 5 : 64)));
        if (k > n - off) {
            k = n - off;
        }
        uint8_t *blk = malloc(k);
        if (k) {
            memcpy(blk, p + off, k);
        }
        struct aws_byte_cursor cc = {.ptr = k ? blk : (mode == 0 && (s & 1) ? NULL : blk), .len = k};
        rc2 = aws_utf8_decoder_update(d, cc);
        free(blk);
        off += k;
        chunks++;
    }
    if (!rc2) {
        rc2 = aws_utf8_decoder_finalize(d);
    }
    int e2 = rc2 ? aws_last_error() : 0;
    printf("P utf8 %s chunked ", variant);
    s_class(rc2);
    printf(" cps=%zu chunks=%zu chan=%s views=- canary=-\n", c2.count, chunks, s_chan(rc2 != 0));
    /* the same decoder object, after finalize (which resets it), must treat the text exactly like a fresh one: nothing of
     * the previous run may be left behind */
    {
        struct u8_ctx c3 = {.fail_at = fail_at};
        opt2.user_data = &c3;
        struct aws_utf8_decoder *d3 = aws_utf8_decoder_new(hc_allocator(), &opt2);
        /* first a run that stops in the middle of a code point, then finalize (fails, resets) */
        static const uint8_t partial[] = {0xF0, 0x9F, 0x98};
        (void)aws_utf8_decoder_update(d3, aws_byte_cursor_from_array(partial, sizeof(partial)));
        (void)aws_utf8_decoder_finalize(d3);
        c3.count = 0;
        c3.sum = 0;
        aws_reset_error();
        int rc3 = aws_utf8_decoder_update(d3, cur);
        if (!rc3) {
            rc3 = aws_utf8_decoder_finalize(d3);
        }
        int e3 = rc3 ? aws_last_error() : 0;
        bool same3 = (rc3 == rc1) && e3 == e1 && (rc1 || (c3.count == c1.count && c3.sum == c1.sum));
        printf(
            "P utf8 %s reused_decoder %s chan=%s views=- canary=%s\n",
            variant,
            rc3 ? "ERR -" : "OK",
            s_chan(rc3 != 0),
            same3 ? "ok" : "BAD:state-of-a-previous-run-left-in-the-decoder");
        aws_utf8_decoder_destroy(d3);
    }
    /* conformance note (C05's business, not a C04 clause): both routes agree */
    bool same = (rc1 == rc2) && e1 == e2 && (rc1 || (c1.count == c2.count && c1.sum == c2.sum)) && (rc0 == rc1 || fail_at);
    printf("W utf8 %s chunked-vs-oneshot %s\n", variant, same ? "same" : "DIFF");
    aws_utf8_decoder_destroy(d);
}

/* ------------------------------------------------------------------ UUID, IPv4, IPv6, u64 */
static void s_run_uuid(const uint8_t *p, size_t n, const char *variant) {
    struct aws_byte_cursor cur = {.ptr = (uint8_t *)p, .len = n};
    struct obuf o;
    s_obuf_make(&o, sizeof(struct aws_uuid), true);
    struct aws_uuid *u = (struct aws_uuid *)o.out;
    aws_reset_error();
    int rc = aws_uuid_init_from_str(u, &cur);
    struct aws_byte_buf fake = aws_byte_buf_from_empty_array(o.out, sizeof(struct aws_uuid));
    printf("P uuid %s init_from_str ", variant);
    s_class(rc);
    if (!rc) {
        printf(" v=");
        hc_put_hex(u->uuid_data, 16);
    }
    printf(" chan=%s views=- canary=%s\n", s_chan(rc != 0), s_obuf_check(&o, &fake, false));
    s_obuf_free(&o);
}

/* aws_uuid_to_str: the input bytes are the uuid data (zero-padded / cut to 16); the output buffer is an exact-size
 * block of pre + slack bytes with len = pre.  On success the text is parsed back (round trip). */
static void s_run_uuidstr(const uint8_t *p, size_t n, const char *variant, size_t pre, size_t slack) {
    struct aws_uuid u;
    AWS_ZERO_STRUCT(u);
    if (n) {
        memcpy(u.uuid_data, p, n < 16 ? n : 16);
    }
    struct obuf o;
    struct aws_byte_buf out = s_obuf_make(&o, pre + slack, false);
    for (size_t i = 0; i < pre; ++i) {
        out.buffer[i] = (uint8_t)(0xA0 + (i & 15));
    }
    out.len = pre;
    aws_reset_error();
    int rc = aws_uuid_to_str(&u, &out);
    const char *can = s_obuf_check(&o, &out, false);
    for (size_t i = 0; i < pre && can[0] == 'o'; ++i) {
        if (out.buffer[i] != (uint8_t)(0xA0 + (i & 15))) {
            can = "BAD:prefix-overwritten";
        }
    }
    if (rc && can[0] == 'o') {
        for (size_t i = pre; i < o.cap; ++i) {
            if (o.out[i] != CANARY) {
                can = "BAD:written-although-refused";
            }
        }
        if (out.len != pre) {
            can = "BAD:len-changed-although-refused";
        }
    }
    printf("P uuidstr %s to_str ", variant);
    s_class(rc);
    if (!rc && can[0] == 'o' && out.len >= pre) {
        printf(" text=");
        hc_put_hex(out.buffer + pre, out.len - pre);
        struct aws_byte_cursor txt = aws_byte_cursor_from_array(out.buffer + pre, out.len - pre);
        struct aws_uuid back;
        int rc2 = aws_uuid_init_from_str(&back, &txt);
        printf(" roundtrip=%s", (!rc2 && aws_uuid_equals(&back, &u)) ? "same" : "DIFF");
    }
    printf(" chan=%s views=- canary=%s\n", s_chan(rc != 0), can);
    s_obuf_free(&o);
}

static void s_run_ipv4(const uint8_t *p, size_t n, const char *variant) {
    struct aws_byte_cursor cur = {.ptr = (uint8_t *)p, .len = n};
    bool r = aws_host_utils_is_ipv4(cur);
    printf("P ipv4 %s is_ipv4 %s chan=ok views=- canary=-\n", variant, r ? "true" : "false");
}

static void s_run_ipv6(const uint8_t *p, size_t n, const char *variant) {
    struct aws_byte_cursor cur = {.ptr = (uint8_t *)p, .len = n};
    bool r0 = aws_host_utils_is_ipv6(cur, false);
    bool r1 = aws_host_utils_is_ipv6(cur, true);
    /* this line is also produced by the Lean model (Driver/HostUtils.lean) */
    printf(
        "P ipv6 %s is_ipv6 %s plain=%s encoded=%s chan=ok views=- canary=-\n",
        variant,
        (r0 || r1) ? "true" : "false",
        r0 ? "true" : "false",
        r1 ? "true" : "false");
}

static void s_run_u64(const uint8_t *p, size_t n, const char *variant) {
    struct aws_byte_cursor cur = {.ptr = (uint8_t *)p, .len = n};
    for (int hex = 0; hex < 2; ++hex) {
        uint64_t v = 0x5151515151515151ull;
        aws_reset_error();
        int rc = hex ? aws_byte_cursor_utf8_parse_u64_hex(cur, &v) : aws_byte_cursor_utf8_parse_u64(cur, &v);
        printf("P u64 %s %s ", variant, hex ? "hex" : "dec");
        s_class(rc);
        if (!rc) {
            printf(" v=%llu", (unsigned long long)v);
        }
        printf(" chan=%s views=- canary=%s\n", s_chan(rc != 0), (rc && v != 0) ? "BAD:dst-not-zeroed-on-failure" : "ok");
    }
}

/* ------------------------------------------------------------------ dispatch */
static const char *s_opt(char **t, int n, const char *key, const char *dflt) {
    size_t kl = strlen(key);
    for (int i = 3; i < n; ++i) {
        if (!strncmp(t[i], key, kl) && t[i][kl] == '=') {
            return t[i] + kl + 1;
        }
    }
    return dflt;
}

static bool s_dispatch(const char *parser, const uint8_t *p, size_t n, const char *variant, char **t, int nt) {
    if (!strcmp(parser, "xml")) {
        s_run_xml(p, n, variant, s_opt(t, nt, "prog", "s"), hc_parse_size(s_opt(t, nt, "depth", "0")));
    } else if (!strcmp(parser, "json")) {
        s_run_json(p, n, variant);
    } else if (!strcmp(parser, "cbor")) {
        s_run_cbor_all(p, n, variant);
    } else if (!strcmp(parser, "cbor_consume")) {
        s_run_cbor_consume(p, n, variant);
    } else if (!strcmp(parser, "uri")) {
        s_run_uri(p, n, variant);
    } else if (!strcmp(parser, "query")) {
        s_run_query(p, n, variant);
    } else if (!strcmp(parser, "uridec")) {
        s_run_uridec(
            p,
            n,
            variant,
            hc_parse_size(s_opt(t, nt, "pre", "0")),
            hc_parse_size(s_opt(t, nt, "cap", "0")),
            s_opt(t, nt, "show", "0")[0] == '1');
    } else if (!strcmp(parser, "date")) {
        s_run_date(p, n, variant);
    } else if (!strcmp(parser, "b64")) {
        s_run_b64(p, n, variant, false);
    } else if (!strcmp(parser, "b64p")) {
        s_run_b64(p, n, variant, true);
    } else if (!strcmp(parser, "hex")) {
        s_run_hex(p, n, variant);
    } else if (!strcmp(parser, "utf8")) {
        s_run_utf8(p, n, variant, hc_parse_u64(s_opt(t, nt, "chunk", "1")), hc_parse_size(s_opt(t, nt, "failat", "0")));
    } else if (!strcmp(parser, "uuid")) {
        s_run_uuid(p, n, variant);
    } else if (!strcmp(parser, "uuidstr")) {
        s_run_uuidstr(p, n, variant, hc_parse_size(s_opt(t, nt, "pre", "0")), hc_parse_size(s_opt(t, nt, "slack", "37")));
    } else if (!strcmp(parser, "ipv4")) {
        s_run_ipv4(p, n, variant);
    } else if (!strcmp(parser, "ipv6")) {
        s_run_ipv6(p, n, variant);
    } else if (!strcmp(parser, "u64")) {
        s_run_u64(p, n, variant);
    } else {
        return false;
    }
    return true;
}

static void s_run_input(const char *parser, const uint8_t *src, size_t n, char **t, int nt) {
    /* exact-size block: malloc(n) (n == 0 gives a unique zero-size block: every byte access is a red-zone hit) */
    uint8_t *blk = malloc(n);
    HC_CHECK(blk != NULL || n == 0);
    if (n) {
        memcpy(blk, src, n);
    }
    s_cur_parser = parser;
    long live0 = hc_live_blocks();
    alarm(s_alarm_secs);
    bool known = s_dispatch(parser, blk, n, "blk", t, nt);
    alarm(0);
    if (!known) {
        printf("bad-op\n");
        free(blk);
        return;
    }
    if (n && memcmp(blk, src, n)) {
        printf("P %s blk input-check ERR chan=ok views=- canary=BAD:input-modified\n", parser);
    }
    if (n == 0) {
        alarm(s_alarm_secs);
        s_dispatch(parser, NULL, 0, "null", t, nt);
        alarm(0);
    }
    if (hc_live_blocks() != live0) {
        printf("W %s leak blocks=%ld\n", parser, hc_live_blocks() - live0);
    }
    free(blk);
    printf("E %s\n", parser);
}

int main(void) {
    static char *t[HC_MAX_TOKS];
    int n;
    setvbuf(stdout, NULL, _IOLBF, 1 << 16); /* whole lines only: sanitizer text on stderr cannot split a P line */
    signal(SIGALRM, s_on_alarm);
    if (getenv("C04_ALARM")) {
        s_alarm_secs = (unsigned)atoi(getenv("C04_ALARM"));
    }
    aws_common_library_init(hc_allocator());
    if (getenv("C04_PREWARM")) {
        /* model stage: UBSan reports each source location once per process; trigger the known, harmless
         * memcpy(copy, NULL, 0) report of aws_host_utils_is_ipv4 before the first case so that it cannot land inside a
         * compared stream (everything printed before the first "case" line is ignored by lib/core.py) */
        struct aws_byte_cursor nul = {.ptr = NULL, .len = 0};
        (void)aws_host_utils_is_ipv4(nul);
    }
    while ((n = hc_next_line(t)) >= 0) {
        if (!strcmp(t[0], "case") && n >= 2) {
            hc_case_begin(t[1]);
        } else if (!strcmp(t[0], "p") && n >= 3 && !strcmp(t[1], "cbor_consume_nested") && n >= 4) {
            /* p cbor_consume_nested <count> <head hex> [tail hex]: <count> copies of head, then tail (default 00) */
            size_t count = hc_parse_size(t[2]), hl = 0, tl = 0;
            uint8_t *head = hc_hex_decode(t[3], &hl);
            uint8_t *tail = hc_hex_decode(n >= 5 ? t[4] : "00", &tl);
            HC_CHECK(count <= ((size_t)1 << 28) && hl >= 1 && hl <= 16);
            size_t total = count * hl + tl;
            uint8_t *buf = malloc(total ? total : 1);
            HC_CHECK(buf);
            for (size_t i = 0; i < count; ++i) {
                memcpy(buf + i * hl, head, hl);
            }
            if (tl) {
                memcpy(buf + count * hl, tail, tl);
            }
            s_run_input("cbor_consume", buf, total, t, 0);
            free(buf);
            free(head);
            free(tail);
        } else if (!strcmp(t[0], "pn") && n >= 6) {
            /* pn <parser> <count> <open hex> <mid hex> <close hex> [options]: <count> copies of open, mid, <count> copies of
             * close ("-" = empty) — nested documents far beyond any limit without megabytes of op text.  The options are
             * looked up from token 3 on, exactly as for `p`. */
            size_t count = hc_parse_size(t[2]), ol = 0, ml = 0, cl = 0;
            uint8_t *op = hc_hex_decode(t[3], &ol), *mid = hc_hex_decode(t[4], &ml), *cls = hc_hex_decode(t[5], &cl);
            HC_CHECK(count <= ((size_t)1 << 24) && ol <= 64 && cl <= 64 && ml <= 4096);
            size_t total = count * ol + ml + count * cl;
            uint8_t *buf = malloc(total ? total : 1);
            HC_CHECK(buf);
            for (size_t i = 0; i < count; ++i) {
                memcpy(buf + i * ol, op, ol);
            }
            if (ml) {
                memcpy(buf + count * ol, mid, ml);
            }
            for (size_t i = 0; i < count; ++i) {
                memcpy(buf + count * ol + ml + i * cl, cls, cl);
            }
            s_run_input(t[1], buf, total, t, n);
            free(buf);
            free(op);
            free(mid);
            free(cls);
        } else if (!strcmp(t[0], "p") && n >= 3) {
            size_t len = 0;
            uint8_t *src = hc_hex_decode(t[2], &len);
            s_run_input(t[1], src, len, t, n);
            free(src);
        } else {
            printf("bad-op\n");
        }
    }
    return 0;
}
