/* Force-included (-include) when compiling a library source whose atomic accesses must be
 * schedule points (DESIGN.md 4.4).  A function-like macro is not re-expanded inside its own
 * expansion, so the builtin of the same name is what finally runs. */
#ifndef VERIF_ATOMICS_H
#define VERIF_ATOMICS_H
enum { VSP_LOAD = 0, VSP_STORE = 1, VSP_RMW = 2, VSP_CAS = 3, VSP_XCHG = 4 };
void verif_sched_point(int kind, const volatile void *addr);
#define __atomic_load_n(p, o) (verif_sched_point(VSP_LOAD, (p)), __atomic_load_n((p), (o)))
#define __atomic_store_n(p, v, o) (verif_sched_point(VSP_STORE, (p)), __atomic_store_n((p), (v), (o)))
#define __atomic_exchange_n(p, v, o) (verif_sched_point(VSP_XCHG, (p)), __atomic_exchange_n((p), (v), (o)))
#define __atomic_fetch_add(p, v, o) (verif_sched_point(VSP_RMW, (p)), __atomic_fetch_add((p), (v), (o)))
#define __atomic_fetch_sub(p, v, o) (verif_sched_point(VSP_RMW, (p)), __atomic_fetch_sub((p), (v), (o)))
#define __atomic_fetch_or(p, v, o) (verif_sched_point(VSP_RMW, (p)), __atomic_fetch_or((p), (v), (o)))
#define __atomic_fetch_and(p, v, o) (verif_sched_point(VSP_RMW, (p)), __atomic_fetch_and((p), (v), (o)))
#define __atomic_fetch_xor(p, v, o) (verif_sched_point(VSP_RMW, (p)), __atomic_fetch_xor((p), (v), (o)))
#define __atomic_compare_exchange_n(p, e, d, w, so, fo)                                                                \
    (verif_sched_point(VSP_CAS, (p)), __atomic_compare_exchange_n((p), (e), (d), (w), (so), (fo)))
#endif
