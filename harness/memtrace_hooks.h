/* Force-included (after verif_atomics.h) when memtrace.c is compiled for the C17 harness.
 * - every atomic access of the tracer is a schedule point (verif_atomics.h);
 * - aws_mutex_lock / aws_mutex_unlock on the tracer's mutex are schedule points (before the lock,
 *   after the unlock), so the harness can run another operation exactly where another thread could;
 * - the tracer's bookkeeping allocator (aws_default_allocator() in memtrace.c) is replaced by a
 *   counting pass-through, so that "every alloc_info / table / stack record is given back" is
 *   observable at destroy.
 * Nothing in /repo is edited: these are macros in front of an unmodified source file. */
#ifndef VERIF_MEMTRACE_HOOKS_H
#define VERIF_MEMTRACE_HOOKS_H
#include "verif_atomics.h"
#include <aws/common/common.h>
#include <aws/common/mutex.h>
#include <aws/common/system_info.h>
#include <aws/common/clock.h>

enum { VSP_LOCK = 5, VSP_UNLOCK = 6 };

struct aws_allocator *verif_mt_default_allocator(void);
void verif_mt_foreign_block(void *p);

static inline int verif_mt_lock(struct aws_mutex *m) {
    verif_sched_point(VSP_LOCK, m);
    return aws_mutex_lock(m);
}
static inline int verif_mt_unlock(struct aws_mutex *m) {
    int r = aws_mutex_unlock(m);
    verif_sched_point(VSP_UNLOCK, m);
    return r;
}
/* the symbol array comes from the real default allocator and is released through the tracer's one */
static inline char **verif_mt_bt_symbols(void *const *frames, size_t n) {
    char **r = aws_backtrace_symbols(frames, n);
    verif_mt_foreign_block(r);
    return r;
}
#define aws_mutex_lock(m) verif_mt_lock(m)
#define aws_mutex_unlock(m) verif_mt_unlock(m)
#define aws_backtrace_symbols(f, n) verif_mt_bt_symbols((f), (n))
/* the timestamp read of s_alloc_tracer_track can be made to fail on command (op `clock_fail k`) */
int verif_mt_clock_ticks(uint64_t *timestamp);
#define aws_high_res_clock_get_ticks(t) verif_mt_clock_ticks(t)
#define aws_default_allocator verif_mt_default_allocator
#endif
