/* C16 harness: every implementation variant of the checked-arithmetic helpers compiled side by side
 * (mathv_gen.h is generated from /repo's headers by gen/math_gen.py on every run). */
#include "mathv_gen.h"
#include "h_common.h"
#include <stdlib.h>

int main(void) {
    char *t[HC_MAX_TOKS];
    int n;
    aws_common_library_init(hc_allocator());
    while ((n = hc_next_line(t)) >= 0) {
        if (!strcmp(t[0], "case")) {
            hc_case_begin(t[1]);
        } else if (!strcmp(t[0], "m") && n >= 3) {
            unsigned long long a[8];
            int na = n - 3;
            if (na > 8) {
                printf("bad-op\n");
                continue;
            }
            for (int i = 0; i < na; ++i) {
                a[i] = hc_parse_u64(t[3 + i]);
            }
            if (!mathv_dispatch(t[1], t[2], na, a)) {
                printf("bad-op\n");
            }
        } else if (!strcmp(t[0], "addv") && n >= 2) {
            /* addv <num> <a1> ... : aws_add_size_checked_varargs(num, &r, a1, ...) from source/math.c; every listed
             * argument is passed (there may be more than num: the surplus must not contribute) */
            unsigned long long a[10];
            int na = n - 2;
            unsigned long long num = hc_parse_u64(t[1]);
            if (na > 10 || num > (unsigned long long)na) {
                printf("bad-op\n");
                continue;
            }
            for (int i = 0; i < na; ++i) {
                a[i] = hc_parse_u64(t[2 + i]);
            }
            size_t out = (size_t)0xDEADBEEFDEADBEEFULL;
            int rc = 0;
            aws_reset_error();
#define A(i) ((size_t)a[i])
            switch (na) {
                case 0: rc = aws_add_size_checked_varargs((size_t)num, &out); break;
                case 1: rc = aws_add_size_checked_varargs((size_t)num, &out, A(0)); break;
                case 2: rc = aws_add_size_checked_varargs((size_t)num, &out, A(0), A(1)); break;
                case 3: rc = aws_add_size_checked_varargs((size_t)num, &out, A(0), A(1), A(2)); break;
                case 4: rc = aws_add_size_checked_varargs((size_t)num, &out, A(0), A(1), A(2), A(3)); break;
                case 5: rc = aws_add_size_checked_varargs((size_t)num, &out, A(0), A(1), A(2), A(3), A(4)); break;
                case 6: rc = aws_add_size_checked_varargs((size_t)num, &out, A(0), A(1), A(2), A(3), A(4), A(5)); break;
                case 7: rc = aws_add_size_checked_varargs((size_t)num, &out, A(0), A(1), A(2), A(3), A(4), A(5), A(6)); break;
                case 8:
                    rc = aws_add_size_checked_varargs((size_t)num, &out, A(0), A(1), A(2), A(3), A(4), A(5), A(6), A(7));
                    break;
                case 9:
                    rc = aws_add_size_checked_varargs(
                        (size_t)num, &out, A(0), A(1), A(2), A(3), A(4), A(5), A(6), A(7), A(8));
                    break;
                default:
                    rc = aws_add_size_checked_varargs(
                        (size_t)num, &out, A(0), A(1), A(2), A(3), A(4), A(5), A(6), A(7), A(8), A(9));
                    break;
            }
#undef A
            if (rc == 0) {
                printf("P ok %llu\n", (unsigned long long)out);
            } else {
                printf("P err %d\n", aws_last_error());
            }
        } else {
            printf("bad-op\n");
        }
    }
    return 0;
}
