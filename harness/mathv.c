/* C16 harness: every implementation variant of the checked-arithmetic helpers compiled side by side
 * (mathv_gen.h is generated from /repo's headers by gen/math_gen.py on every run). */
#include "mathv_gen.h"
#include "h_common.h"
#include <stdlib.h>

int main(void) {
    char *t[HC_MAX_TOKS];
    int n;
    aws_common_library_init(hc_allocator());
    while ((n = hc_next_line(t)) >= 0) {
        if (!strcmp(t[0], "case")) {
            hc_case_begin(t[1]);
        } else if (!strcmp(t[0], "m") && n >= 3) {
            unsigned long long a[8];
            int na = n - 3;
            if (na > 8) {
                printf("bad-op\n");
                continue;
            }
            for (int i = 0; i < na; ++i) {
                a[i] = hc_parse_u64(t[3 + i]);
            }
            if (!mathv_dispatch(t[1], t[2], na, a)) {
                printf("bad-op\n");
            }
        } else {
            printf("bad-op\n");
        }
    }
    return 0;
}
