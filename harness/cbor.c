/* C10 harness: drives aws_cbor_encoder_* / aws_cbor_decoder_* through an op file (same op language
 * as lean/Driver/Cbor.lean).  The decoder always reads from an exact-size heap copy of its input,
 * so any read past the end is an ASan report. */
#include "h_common.h"
#include <aws/common/byte_buf.h>
#include <aws/common/cbor.h>
#include <inttypes.h>
#include <stdlib.h>
#include <string.h>
#include <unistd.h>

static struct aws_cbor_encoder *s_enc;
static struct aws_cbor_decoder *s_dec;
static uint8_t *s_dec_src; /* exact-size copy the decoder reads */
static bool s_raw;         /* decoder over raw bytes: every line is W */
static bool s_big;         /* bigmode: multi-MiB encoder, `enc` prints a digest, no decoder ops */
static bool s_used;        /* an op has been executed in this case */
static bool s_cached;      /* the decoder holds a peeked element (tracked from the API results) */
static bool s_sticky;      /* a call failed with anything but UNEXPECTED_TYPE: the decoder's error is sticky */

/* white-box: capacity of the encoder's buffer (struct layout as in source/cbor.c) */
struct enc_view {
    struct aws_allocator *allocator;
    struct aws_byte_buf encoded_buf;
};

static void s_drop_decoder(void) {
    if (s_dec) {
        aws_cbor_decoder_destroy(s_dec);
        s_dec = NULL;
    }
    free(s_dec_src);
    s_dec_src = NULL;
    s_cached = false;
    s_sticky = false;
}

static void s_reset(void) {
    s_drop_decoder();
    if (s_enc) {
        aws_cbor_encoder_destroy(s_enc);
    }
    s_enc = aws_cbor_encoder_new(hc_allocator());
    s_raw = false;
    s_big = false;
    s_used = false;
}

static void s_new_decoder(const uint8_t *p, size_t n, bool raw, bool null_src) {
    s_drop_decoder();
    s_dec_src = malloc(n ? n : 1);
    if (n) {
        memcpy(s_dec_src, p, n);
    }
    /* n == 0: either a {NULL, 0} cursor (what a zero-initialised cursor is) or a zero-length cursor whose pointer is the
     * one-past-the-end address of a live block: any read through it is an ASan report */
    struct aws_byte_cursor c = {.len = n, .ptr = n ? s_dec_src : (null_src ? NULL : s_dec_src + 1)};
    s_dec = aws_cbor_decoder_new(hc_allocator(), c);
    s_raw = raw;
}

static const char *s_cls(void) {
    return s_raw ? "W" : "P";
}

static uint64_t s_fnv1a(const uint8_t *p, size_t n) {
    uint64_t h = 0xcbf29ce484222325ULL;
    for (size_t i = 0; i < n; ++i) {
        h ^= p[i];
        h *= 0x100000001b3ULL;
    }
    return h;
}

static void s_put_bytes(struct aws_byte_cursor c) {
    /* the returned view must lie inside the decoder's source */
    printf("%zu ", c.len);
    if (c.len <= 64) {
        hc_put_hex(c.ptr, c.len);
    } else {
        printf("fnv=%016" PRIx64, s_fnv1a(c.ptr, c.len));
    }
}

static size_t s_rem(void) {
    return aws_cbor_decoder_get_remaining_length(s_dec);
}

/* every decoder entry point goes through this: a stale aws_last_error() from an earlier call must not pass for the
 * error of this one */
#define DEC_CALL(expr) (aws_reset_error(), (expr))

static void s_err(void) {
    if (aws_last_error() != AWS_ERROR_CBOR_UNEXPECTED_TYPE) {
        s_sticky = true;
    }
    printf("W err %s rem=%zu\n", hc_last_error_name(), s_rem());
}

static const char *s_ty_name(enum aws_cbor_type t) {
    switch (t) {
        case AWS_CBOR_TYPE_UINT: return "uint";
        case AWS_CBOR_TYPE_NEGINT: return "negint";
        case AWS_CBOR_TYPE_FLOAT: return "float";
        case AWS_CBOR_TYPE_BYTES: return "bytes";
        case AWS_CBOR_TYPE_TEXT: return "text";
        case AWS_CBOR_TYPE_ARRAY_START: return "array";
        case AWS_CBOR_TYPE_MAP_START: return "map";
        case AWS_CBOR_TYPE_TAG: return "tag";
        case AWS_CBOR_TYPE_BOOL: return "bool";
        case AWS_CBOR_TYPE_NULL: return "null";
        case AWS_CBOR_TYPE_UNDEFINED: return "undef";
        case AWS_CBOR_TYPE_BREAK: return "break";
        case AWS_CBOR_TYPE_INDEF_BYTES_START: return "indef_bytes";
        case AWS_CBOR_TYPE_INDEF_TEXT_START: return "indef_text";
        case AWS_CBOR_TYPE_INDEF_ARRAY_START: return "indef_arr";
        case AWS_CBOR_TYPE_INDEF_MAP_START: return "indef_map";
        default: return "UNKNOWN";
    }
}

/* typed pop of the given kind; prints the item line or the error line; returns false on error */
static bool s_pop(enum aws_cbor_type t) {
    int rc = AWS_OP_SUCCESS;
    uint64_t v = 0;
    double dv = 0;
    bool bv = false;
    struct aws_byte_cursor c = {0};
    switch (t) {
        case AWS_CBOR_TYPE_UINT: rc = DEC_CALL(aws_cbor_decoder_pop_next_unsigned_int_val(s_dec, &v)); break;
        case AWS_CBOR_TYPE_NEGINT: rc = DEC_CALL(aws_cbor_decoder_pop_next_negative_int_val(s_dec, &v)); break;
        case AWS_CBOR_TYPE_FLOAT: rc = DEC_CALL(aws_cbor_decoder_pop_next_float_val(s_dec, &dv)); break;
        case AWS_CBOR_TYPE_BYTES: rc = DEC_CALL(aws_cbor_decoder_pop_next_bytes_val(s_dec, &c)); break;
        case AWS_CBOR_TYPE_TEXT: rc = DEC_CALL(aws_cbor_decoder_pop_next_text_val(s_dec, &c)); break;
        case AWS_CBOR_TYPE_ARRAY_START: rc = DEC_CALL(aws_cbor_decoder_pop_next_array_start(s_dec, &v)); break;
        case AWS_CBOR_TYPE_MAP_START: rc = DEC_CALL(aws_cbor_decoder_pop_next_map_start(s_dec, &v)); break;
        case AWS_CBOR_TYPE_TAG: rc = DEC_CALL(aws_cbor_decoder_pop_next_tag_val(s_dec, &v)); break;
        case AWS_CBOR_TYPE_BOOL: rc = DEC_CALL(aws_cbor_decoder_pop_next_boolean_val(s_dec, &bv)); break;
        default: rc = DEC_CALL(aws_cbor_decoder_consume_next_single_element(s_dec)); break;
    }
    if (rc != AWS_OP_SUCCESS) {
        if (aws_last_error() == AWS_ERROR_CBOR_UNEXPECTED_TYPE) {
            s_cached = true; /* the element stays cached */
        }
        s_err();
        return false;
    }
    s_cached = false;
    printf("%s item %s", s_cls(), s_ty_name(t));
    switch (t) {
        case AWS_CBOR_TYPE_UINT:
        case AWS_CBOR_TYPE_NEGINT:
        case AWS_CBOR_TYPE_ARRAY_START:
        case AWS_CBOR_TYPE_MAP_START:
        case AWS_CBOR_TYPE_TAG: printf(" %" PRIu64, v); break;
        case AWS_CBOR_TYPE_FLOAT: {
            uint64_t bits;
            memcpy(&bits, &dv, 8);
            printf(" %016" PRIx64, bits);
            break;
        }
        case AWS_CBOR_TYPE_BOOL: printf(" %d", bv ? 1 : 0); break;
        case AWS_CBOR_TYPE_BYTES:
        case AWS_CBOR_TYPE_TEXT:
            putchar(' ');
            s_put_bytes(c);
            break;
        default: break;
    }
    printf(" rem=%zu\n", s_rem());
    return true;
}

static void s_all(void) {
    /* every pop takes at least one byte (or the cached element): more rounds than that means the
     * decoder stopped advancing */
    size_t budget = s_rem() + 2;
    for (;;) {
        if (budget-- == 0) {
            printf("P MONITOR decode loop does not advance rem=%zu\n", s_rem());
            return;
        }
        if (!s_sticky && s_rem() == 0 && !s_cached) {
            printf("%s end rem=0\n", s_cls());
            return;
        }
        enum aws_cbor_type t = AWS_CBOR_TYPE_UNKNOWN;
        if (DEC_CALL(aws_cbor_decoder_peek_type(s_dec, &t))) {
            s_err();
            return;
        }
        s_cached = true;
        if (!s_pop(t)) {
            return;
        }
    }
}

static bool s_kind(const char *k, enum aws_cbor_type *t) {
    static const struct {
        const char *n;
        enum aws_cbor_type t;
    } tab[] = {{"uint", AWS_CBOR_TYPE_UINT},
               {"negint", AWS_CBOR_TYPE_NEGINT},
               {"float", AWS_CBOR_TYPE_FLOAT},
               {"bytes", AWS_CBOR_TYPE_BYTES},
               {"text", AWS_CBOR_TYPE_TEXT},
               {"array", AWS_CBOR_TYPE_ARRAY_START},
               {"map", AWS_CBOR_TYPE_MAP_START},
               {"tag", AWS_CBOR_TYPE_TAG},
               {"bool", AWS_CBOR_TYPE_BOOL}};
    for (size_t i = 0; i < sizeof(tab) / sizeof(tab[0]); ++i) {
        if (!strcmp(k, tab[i].n)) {
            *t = tab[i].t;
            return true;
        }
    }
    return false;
}

static bool s_is_hex(const char *s, size_t want) {
    if (strlen(s) != want) {
        return false;
    }
    for (; *s; ++s) {
        if (!((*s >= '0' && *s <= '9') || (*s >= 'a' && *s <= 'f') || (*s >= 'A' && *s <= 'F'))) {
            return false;
        }
    }
    return true;
}

static void s_write_str(bool text, const uint8_t *p, size_t n) {
    struct aws_byte_cursor c = {.len = n, .ptr = (uint8_t *)p};
    if (text) {
        aws_cbor_encoder_write_text(s_enc, c);
    } else {
        aws_cbor_encoder_write_bytes(s_enc, c);
    }
}

int main(void) {
    char *t[HC_MAX_TOKS];
    int n;
    aws_common_library_init(hc_allocator());
    s_reset();
    while ((n = hc_next_line(t)) >= 0) {
        const char *op = t[0];
        bool was_used = s_used;
        if (strcmp(op, "case")) {
            s_used = true;
        }
        (void)was_used;
        if (!strcmp(op, "case")) {
            s_reset();
            hc_case_begin(t[1]);
            alarm(20); /* watchdog per case: a decoder loop that never ends is a crash of this case */
        } else if (!strcmp(op, "u") && n == 2) {
            aws_cbor_encoder_write_uint(s_enc, hc_parse_u64(t[1]));
        } else if (!strcmp(op, "n") && n == 2) {
            aws_cbor_encoder_write_negint(s_enc, hc_parse_u64(t[1]));
        } else if (!strcmp(op, "f") && n == 2 && s_is_hex(t[1], 16)) {
            uint64_t bits = strtoull(t[1], NULL, 16);
            double d;
            memcpy(&d, &bits, 8);
            aws_cbor_encoder_write_float(s_enc, d);
        } else if ((!strcmp(op, "text") || !strcmp(op, "bytes")) && n == 2 && !strcmp(t[1], "NULL")) {
            /* the empty string as a zero-initialised cursor {NULL, 0}: a valid aws_byte_cursor */
            s_write_str(op[0] == 't', NULL, 0);
        } else if ((!strcmp(op, "text") || !strcmp(op, "bytes")) && n == 2) {
            size_t len;
            uint8_t *p = hc_hex_decode(t[1], &len);
            s_write_str(op[0] == 't', p, len);
            free(p);
        } else if ((!strcmp(op, "textr") || !strcmp(op, "bytesr")) && n == 3 && s_is_hex(t[1], strlen(t[1])) &&
                   strtoul(t[1], NULL, 16) < 256) {
            size_t len = hc_parse_size(t[2]);
            uint8_t *p = malloc(len ? len : 1);
            memset(p, (int)strtoul(t[1], NULL, 16), len);
            s_write_str(op[0] == 't', p, len);
            free(p);
        } else if (!strcmp(op, "arr") && n == 2) {
            aws_cbor_encoder_write_array_start(s_enc, (size_t)hc_parse_u64(t[1]));
        } else if (!strcmp(op, "map") && n == 2) {
            aws_cbor_encoder_write_map_start(s_enc, (size_t)hc_parse_u64(t[1]));
        } else if (!strcmp(op, "tag") && n == 2) {
            aws_cbor_encoder_write_tag(s_enc, hc_parse_u64(t[1]));
        } else if (!strcmp(op, "bool") && n == 2 && (!strcmp(t[1], "0") || !strcmp(t[1], "1"))) {
            aws_cbor_encoder_write_bool(s_enc, t[1][0] == '1');
        } else if (!strcmp(op, "null") && n == 1) {
            aws_cbor_encoder_write_null(s_enc);
        } else if (!strcmp(op, "undef") && n == 1) {
            aws_cbor_encoder_write_undefined(s_enc);
        } else if (!strcmp(op, "indef_bytes") && n == 1) {
            aws_cbor_encoder_write_indef_bytes_start(s_enc);
        } else if (!strcmp(op, "indef_text") && n == 1) {
            aws_cbor_encoder_write_indef_text_start(s_enc);
        } else if (!strcmp(op, "indef_arr") && n == 1) {
            aws_cbor_encoder_write_indef_array_start(s_enc);
        } else if (!strcmp(op, "indef_map") && n == 1) {
            aws_cbor_encoder_write_indef_map_start(s_enc);
        } else if (!strcmp(op, "brk") && n == 1) {
            aws_cbor_encoder_write_break(s_enc);
        } else if (!strcmp(op, "reset") && n == 1) {
            aws_cbor_encoder_reset(s_enc);
        } else if (!strcmp(op, "bigmode") && n == 1) {
            if (was_used || s_big) {
                printf("bad-op\n");
            } else {
                s_big = true;
            }
        } else if (s_big && !strcmp(op, "enc") && n == 1) {
            struct aws_byte_cursor c = aws_cbor_encoder_get_encoded_data(s_enc);
            printf("W encsum len=%zu fnv=%016" PRIx64 "\nW cap %zu\n", c.len, s_fnv1a(c.ptr, c.len),
                   ((struct enc_view *)s_enc)->encoded_buf.capacity);
        } else if (s_big && (!strcmp(op, "load") || !strcmp(op, "dec") || !strcmp(op, "decode_all") || !strcmp(op, "all") ||
                             !strcmp(op, "peek") || !strcmp(op, "pop") || !strcmp(op, "consume") || !strcmp(op, "skip") ||
                             !strcmp(op, "rem"))) {
            printf("bad-op\n");
        } else if (!strcmp(op, "enc") && n == 1) {
            struct aws_byte_cursor c = aws_cbor_encoder_get_encoded_data(s_enc);
            printf("W enc ");
            hc_put_hex(c.ptr, c.len);
            printf("\nW cap %zu\n", ((struct enc_view *)s_enc)->encoded_buf.capacity);
        } else if (!strcmp(op, "load") && n == 1) {
            struct aws_byte_cursor c = aws_cbor_encoder_get_encoded_data(s_enc);
            s_new_decoder(c.ptr, c.len, false, true);
        } else if (!strcmp(op, "dec") && n == 2 && !strcmp(t[1], "NULL")) {
            s_new_decoder(NULL, 0, true, true);
        } else if (!strcmp(op, "dec") && n == 2) {
            size_t len;
            uint8_t *p = hc_hex_decode(t[1], &len);
            s_new_decoder(p, len, true, false);
            free(p);
        } else if (!strcmp(op, "decode_all") && n == 1) {
            struct aws_byte_cursor c = aws_cbor_encoder_get_encoded_data(s_enc);
            s_new_decoder(c.ptr, c.len, false, true);
            s_all();
        } else if (!s_dec) {
            printf("bad-op\n");
        } else if (!strcmp(op, "all") && n == 1) {
            s_all();
        } else if (!strcmp(op, "peek") && n == 1) {
            enum aws_cbor_type ty = AWS_CBOR_TYPE_UNKNOWN;
            if (DEC_CALL(aws_cbor_decoder_peek_type(s_dec, &ty))) {
                s_err();
            } else {
                s_cached = true;
                printf("%s peek %s rem=%zu\n", s_cls(), s_ty_name(ty), s_rem());
            }
        } else if (!strcmp(op, "pop") && n == 2) {
            enum aws_cbor_type ty;
            if (s_kind(t[1], &ty)) {
                s_pop(ty);
            } else {
                printf("bad-op\n");
            }
        } else if (!strcmp(op, "consume") && n == 1) {
            if (DEC_CALL(aws_cbor_decoder_consume_next_whole_data_item(s_dec))) {
                s_err();
            } else {
                s_cached = false;
                printf("%s consume OK rem=%zu\n", s_cls(), s_rem());
            }
        } else if (!strcmp(op, "skip") && n == 1) {
            if (DEC_CALL(aws_cbor_decoder_consume_next_single_element(s_dec))) {
                s_err();
            } else {
                s_cached = false;
                printf("%s skip OK rem=%zu\n", s_cls(), s_rem());
            }
        } else if (!strcmp(op, "rem") && n == 1) {
            printf("%s rem=%zu\n", s_cls(), s_rem());
        } else {
            printf("bad-op\n");
        }
    }
    s_drop_decoder();
    if (s_enc) {
        aws_cbor_encoder_destroy(s_enc);
    }
    return 0;
}
