/* C20 harness: runs a small thread program against the real aws_thread API (thread.c / thread_shared.c
 * from /repo) under the deterministic scheduler (detsched.h), with the schedule given in the op file.
 *
 * op language (one case):
 *   slot <k> <M|U|U@h> <actions...> thread function of slot k (1..7): managed / manual, its actions.  U@h: a manual
 *                                   thread launched on the aws_thread handle of slot h WITHOUT re-initialising it (the
 *                                   handle went through a launch/join cycle before: state JOIN_COMPLETED); J/D on such
 *                                   a slot act on that handle
 *   main <actions...>               actions of thread 0 (not an aws thread)
 *   once <id> [<c1> [<c2>]]        callback of once-flag id: registers at-exit callbacks c1, c2 on the calling thread
 *   fail <n> <errno>                the n-th (0-based) pthread_create of the run fails with errno
 *   tick <ns>                       every clock read advances virtual time by ns (spin-waits on the clock end)
 *   clock <ns>                      virtual time at the start of the run (default 1 s)
 *   run choices <c...> | run sched <t...> | run seed <s> [spurious-permille]
 * actions: L<k> launch slot k | J<k> aws_thread_join on slot k's handle (J<own slot> = self-join: EDEADLK;
 *   after D<k>: EINVAL; never launched / already joined: no-op) | P<k> launch with cpu_id 0 | Q<k> launch with cpu_id 1000, its first pthread_create
 *   fails with EINVAL (library retries unpinned) | R<k> same, the retry fails too | a trailing 'n' on a launch
 *   (L3n, Q1n ...) gives the thread a name (options->name) | J<k> aws_thread_join | D<k> aws_thread_clean_up | A<i> register at-exit
 *   callback i | C print managed count | W aws_thread_join_all_managed | T<ns> set managed join timeout
 *   | Y yield (schedule point) | S<ns> aws_thread_current_sleep | O<id> aws_thread_call_once on flag id
 *   | E<k> / F<k> / G<k> launch in which pthread_attr_init (ENOMEM) / pthread_attr_setstacksize (stack_size 256 KiB,
 *   EINVAL) / pthread_attr_getstacksize (EINVAL) fails: the launch fails | H<k> launch with cpu_id 0 in which
 *   pthread_attr_setaffinity_np fails (EINVAL): the library retries unpinned
 *   | N aws_thread_current_name (prints whether it is the launch name) | X aws_common_library_clean_up (joins all managed threads, within the
 *   configured timeout) + aws_common_library_init + print managed count | I aws_common_library_init again (the library is initialised once before the first case)
 * output: P lines in execution order (see printf's below), then "P end ...", "W sched ...", "W ev ..." */
#include "detsched.h"
#include "h_common.h"
#include <aws/common/private/thread_shared.h>
#include <aws/common/byte_buf.h>
#include <aws/common/string.h>
#include <aws/common/thread.h>
#include <errno.h>
#include <fcntl.h>
#include <signal.h>
#include <limits.h>
#include <stdlib.h>
#include <string.h>
#include <unistd.h>

#define MAXSLOT 8
#define MAXACT 64
#define MAXCB 16
#define SLOT_MAGIC 0x51075107u

struct act {
    char op;
    long a;
    uint64_t u; /* the argument as an unsigned 64-bit number (timeouts at the type limits) */
    int named; /* launch with a non-empty thread name (options->name) */
};

struct cbrec {
    int slot;
    int id;
};

struct slot {
    unsigned magic;
    int id;
    int defined;
    int managed;
    int alias; /* >0: this slot's thread is launched on the handle of slot `alias` (handle reuse after a completed join) */
    int nacts;
    struct act acts[MAXACT];
    struct aws_thread handle;
    int handle_init;
    aws_thread_id_t tid;
    int started;
    int ord; /* scheduler ordinal of the thread running this slot */
    struct cbrec cbs[MAXCB];
    int ncbs;
};

static struct slot s_slots[MAXSLOT];
#define MAXONCE 8
static aws_thread_once s_once_flag[MAXONCE];
static int s_once_regs[MAXONCE][2];
static int s_once_nregs[MAXONCE];
static long s_fail_n = -1;
static int s_fail_err;
static uint64_t s_tick;
static uint64_t s_clock_start;
static int s_lib_cycled; /* X was used in this case: put the library into a known initialised state afterwards */
static long s_baseline_blocks;

static void s_reset(void) {
    memset(s_slots, 0, sizeof(s_slots));
    for (int i = 0; i < MAXSLOT; ++i) {
        s_slots[i].id = i;
        s_slots[i].magic = SLOT_MAGIC;
        /* every handle is an initialised aws_thread from the start: joining a never-launched one is a no-op */
        aws_thread_init(&s_slots[i].handle, hc_allocator());
        s_slots[i].handle_init = 1;
    }
    s_fail_n = -1;
    s_tick = 0;
    s_clock_start = 0;
    aws_thread_set_managed_join_timeout_ns(0); /* a case may leave its timeout configured */
    for (int i = 0; i < MAXONCE; ++i) {
        aws_thread_once f = AWS_THREAD_ONCE_STATIC_INIT;
        s_once_flag[i] = f;
        s_once_nregs[i] = 0;
    }
}

/* Wall-clock watchdog per case: a hang that never reaches a schedule point (an endless loop inside the library, a
 * thread left spinning after the run) is invisible to detsched.  A case takes milliseconds; after WATCHDOG_S seconds
 * the handler reports and leaves.  Every such exit is recorded in the file named by C20_HANG_FILE (one byte per hang);
 * once HANG_LIMIT hangs are on record the remaining cases are not run (each would cost WATCHDOG_S more seconds). */
#define WATCHDOG_S 8
#define HANG_LIMIT 3
static void s_on_alarm(int sig) {
    (void)sig;
    static const char msg[] = "\nP MONITOR wall-clock watchdog: no progress for 8 s (hang outside any schedule point)\n";
    ssize_t r = write(1, msg, sizeof(msg) - 1);
    (void)r;
    const char *f = getenv("C20_HANG_FILE");
    if (f) {
        int fd = open(f, O_WRONLY | O_CREAT | O_APPEND, 0644);
        if (fd >= 0) {
            r = write(fd, "h", 1);
            close(fd);
        }
    }
    _exit(3);
}

static int s_hangs_on_record(void) {
    const char *f = getenv("C20_HANG_FILE");
    if (!f) {
        return 0;
    }
    int fd = open(f, O_RDONLY);
    if (fd < 0) {
        return 0;
    }
    char buf[64];
    ssize_t n = read(fd, buf, sizeof(buf));
    close(fd);
    return n > 0 ? (int)n : 0;
}

static struct aws_thread *s_handle(struct slot *k) {
    return k->alias ? &s_slots[k->alias].handle : &k->handle;
}

static int s_current_slot(void) {
    aws_thread_id_t me = aws_thread_current_thread_id();
    for (int i = 0; i < MAXSLOT; ++i) {
        if (s_slots[i].started && aws_thread_thread_id_equal(s_slots[i].tid, me)) {
            return i;
        }
    }
    return -1;
}

static void s_atexit_cb(void *user_data) {
    struct cbrec *r = user_data;
    printf("P cb s%d cb%d on=s%d\n", r->slot, r->id, s_current_slot());
}

static void s_run_actions(struct slot *s);

static const char *s_dstate(enum aws_thread_detach_state d) {
    switch (d) {
        case AWS_THREAD_NOT_CREATED:
            return "NOT_CREATED";
        case AWS_THREAD_JOINABLE:
            return "JOINABLE";
        case AWS_THREAD_JOIN_COMPLETED:
            return "JOIN_COMPLETED";
        case AWS_THREAD_MANAGED:
            return "MANAGED";
        default:
            return "?";
    }
}

/* the at-exit record of (thread slot, callback id): registering the same id again on a thread passes the SAME
 * (callback, user_data) pair to aws_thread_current_at_exit - every registration must still get its own run */
static struct cbrec *s_rec(int slot, int id) {
    HC_CHECK(slot >= 0 && slot < MAXSLOT);
    struct slot *s = &s_slots[slot];
    for (int i = 0; i < s->ncbs; ++i) {
        if (s->cbs[i].id == id) {
            return &s->cbs[i];
        }
    }
    HC_CHECK(s->ncbs < MAXCB);
    struct cbrec *r = &s->cbs[s->ncbs++];
    r->slot = slot;
    r->id = id;
    return r;
}

/* once-callback: registers the configured at-exit callbacks on whichever thread runs it */
static void s_once_cb(void *user_data) {
    int id = (int)(intptr_t)user_data;
    int me = s_current_slot();
    for (int i = 0; i < s_once_nregs[id]; ++i) {
        struct cbrec *r = s_rec(me < 0 ? 0 : me, s_once_regs[id][i]);
        int rc = aws_thread_current_at_exit(s_atexit_cb, r);
        printf("P reg s%d cb%d rc=%s\n", me, r->id, hc_err(rc));
    }
}

static void s_thread_fn(void *arg) {
    struct slot *s = arg;
    HC_CHECK(s->magic == SLOT_MAGIC);
    s->tid = aws_thread_current_thread_id();
    s->ord = ds_self_ordinal();
    s->started++;
    printf("P run s%d arg=%d\n", s_current_slot(), s->id);
    s_run_actions(s);
    printf("P done s%d\n", s->id);
}

static void s_run_actions(struct slot *s) {
    for (int i = 0; i < s->nacts; ++i) {
        struct act *a = &s->acts[i];
        switch (a->op) {
            case 'L':
            case 'P':
            case 'Q':
            case 'R':
            case 'E':
            case 'F':
            case 'G':
            case 'H': {
                struct slot *k = &s_slots[a->a];
                struct aws_thread_options o = *aws_default_thread_options();
                if (k->managed) {
                    o.join_strategy = AWS_TJS_MANAGED;
                }
                if (a->named) {
                    o.name = aws_byte_cursor_from_c_str("c20-thread");
                }
                if (a->op == 'E') {
                    ds_fail_next_attr(DS_ATTR_INIT, ENOMEM);
                } else if (a->op == 'F') {
                    o.stack_size = 256 * 1024; /* > PTHREAD_STACK_MIN: the library calls pthread_attr_setstacksize */
                    ds_fail_next_attr(DS_ATTR_SETSTACKSIZE, EINVAL);
                } else if (a->op == 'G') {
                    ds_fail_next_attr(DS_ATTR_GETSTACKSIZE, EINVAL);
                } else if (a->op == 'H') {
                    o.cpu_id = 0;
                    ds_fail_next_attr(DS_ATTR_SETAFFINITY, EINVAL);
                } else if (a->op == 'P') {
                    o.cpu_id = 0;
                } else if (a->op != 'L') {
                    o.cpu_id = 1000; /* a cpu that does not exist: pthread_create answers EINVAL */
                    ds_fail_next_create(a->op == 'Q' ? 1 : 2, EINVAL);
                }
                if (!k->alias) {
                    aws_thread_init(&k->handle, hc_allocator());
                    k->handle_init = 1;
                }
                int faults = ds_attr_fault_count();
                int rc = aws_thread_launch(
                    s_handle(k), s_thread_fn, k, (a->op != 'L' || a->named || k->managed || (k->id & 1)) ? &o : NULL);
                HC_CHECK(!strchr("EFGH", a->op) || ds_attr_fault_count() == faults + 1); /* the fault point was reached */
                printf("P launch s%d by=s%d rc=%s\n", k->id, s->id, hc_err(rc));
                break;
            }
            case 'J': {
                struct slot *k = &s_slots[a->a];
                enum aws_thread_detach_state pre = aws_thread_get_detach_state(s_handle(k));
                int rc = aws_thread_join(s_handle(k));
                const char *rcn = hc_err(rc);
                enum aws_thread_detach_state post = aws_thread_get_detach_state(s_handle(k));
                /* aws_thread_get_id of the handle must be the id the thread saw itself ("-": the thread has not started) */
                const char *idc = !k->started ? "-"
                                  : aws_thread_thread_id_equal(aws_thread_get_id(s_handle(k)), k->tid) ? "ok" : "BAD";
                printf(
                    "P join s%d by=s%d rc=%s pre=%s post=%s id=%s\n", k->id, s->id, rcn, s_dstate(pre), s_dstate(post), idc);
                break;
            }
            case 'D': {
                struct slot *k = &s_slots[a->a];
                if (k->handle_init) {
                    aws_thread_clean_up(s_handle(k));
                }
                break;
            }
            case 'A': {
                struct cbrec *r = s_rec(s->id, (int)a->a);
                int rc = aws_thread_current_at_exit(s_atexit_cb, r);
                printf("P reg s%d cb%d rc=%s\n", s->id, r->id, hc_err(rc));
                break;
            }
            case 'C':
                printf("P count s%d %zu\n", s->id, aws_thread_get_managed_thread_count());
                break;
            case 'W': {
                printf("P joinall begin s%d t=%llu\n", s->id, (unsigned long long)ds_now());
                int rc = aws_thread_join_all_managed();
                printf("P joinall rc=%s t=%llu\n", rc == AWS_OP_SUCCESS ? "OK" : "ERR", (unsigned long long)ds_now());
                break;
            }
            case 'T':
                aws_thread_set_managed_join_timeout_ns(a->u);
                break;
            case 'Y':
                ds_yield(0);
                break;
            case 'O':
                HC_CHECK(a->a >= 0 && a->a < MAXONCE);
                aws_thread_call_once(&s_once_flag[a->a], s_once_cb, (void *)(intptr_t)a->a);
                break;
            case 'I':
                aws_common_library_init(hc_allocator());
                break;
            case 'N': {
                struct aws_string *nm = NULL;
                int rc = aws_thread_current_name(hc_allocator(), &nm);
                printf("P name s%d %s\n", s->id, (rc == AWS_OP_SUCCESS && nm && !strcmp(aws_string_c_str(nm), "c20-thread")) ? "c20-thread" : "other");
                aws_string_destroy(nm);
                break;
            }
            case 'X':
                /* library shut-down (joins all managed threads, within the configured timeout; there is no result)
                 * and start-up again; then the managed count: what the clean-up left unjoined must still be counted */
                printf("P joinall begin s%d t=%llu\n", s->id, (unsigned long long)ds_now());
                aws_common_library_clean_up();
                printf("P joinall rc=VOID t=%llu\n", (unsigned long long)ds_now());
                aws_common_library_init(hc_allocator());
                s_lib_cycled = 1;
                printf("P count s%d %zu\n", s->id, aws_thread_get_managed_thread_count());
                break;
            case 'S':
                aws_thread_current_sleep((uint64_t)a->a);
                break;
            default:
                HC_CHECK(!"unknown action");
        }
    }
}

static void s_main_fn(void *arg) {
    (void)arg;
    s_run_actions(&s_slots[0]);
}

static int s_parse_actions(struct slot *s, char **t, int from, int n) {
    s->nacts = 0;
    for (int i = from; i < n; ++i) {
        if (s->nacts == MAXACT || !strchr("LPQREFGHJDACWTYSOINX", t[i][0]) || t[i][0] == 0) {
            return 0;
        }
        struct act *a = &s->acts[s->nacts++];
        a->op = t[i][0];
        a->u = t[i][1] ? strtoull(t[i] + 1, NULL, 10) : 0;
        a->a = a->u > (uint64_t)LONG_MAX ? LONG_MAX : (long)a->u;
        a->named = strchr("LPQREFGH", a->op) && t[i][strlen(t[i]) - 1] == 'n';
        if (strchr("LPQREFGHJD", a->op) && (a->a < 1 || a->a >= MAXSLOT)) {
            return 0;
        }
    }
    return 1;
}

int main(void) {
    char *t[HC_MAX_TOKS];
    int n;
    static int list[HC_MAX_TOKS];
    aws_common_library_init(hc_allocator());
    s_baseline_blocks = hc_live_blocks();
    s_reset();
    while ((n = hc_next_line(t)) >= 0) {
        if (!strcmp(t[0], "case")) {
            s_reset();
            s_baseline_blocks = hc_live_blocks(); /* a leak is charged to the case that caused it */
            hc_case_begin(t[1]);
        } else if (!strcmp(t[0], "slot") && n >= 3) {
            int k = atoi(t[1]);
            int alias = (t[2][0] == 'U' && t[2][1] == '@') ? atoi(t[2] + 2) : 0;
            if (k < 1 || k >= MAXSLOT || (t[2][0] != 'M' && t[2][0] != 'U') || alias < 0 || alias >= MAXSLOT || alias == k ||
                (alias && s_slots[alias].alias) || !s_parse_actions(&s_slots[k], t, 3, n)) {
                printf("bad-op\n");
                continue;
            }
            s_slots[k].defined = 1;
            s_slots[k].managed = t[2][0] == 'M';
            s_slots[k].alias = alias;
        } else if (!strcmp(t[0], "main")) {
            if (!s_parse_actions(&s_slots[0], t, 1, n)) {
                printf("bad-op\n");
            }
        } else if (!strcmp(t[0], "once") && n >= 2 && n <= 4) {
            int id = atoi(t[1]);
            if (id < 0 || id >= MAXONCE) {
                printf("bad-op\n");
                continue;
            }
            s_once_nregs[id] = n - 2;
            for (int i = 2; i < n; ++i) {
                s_once_regs[id][i - 2] = atoi(t[i]);
            }
        } else if (!strcmp(t[0], "fail") && n == 3) {
            s_fail_n = atol(t[1]);
            s_fail_err = atoi(t[2]);
        } else if (!strcmp(t[0], "tick") && n == 2) {
            s_tick = hc_parse_u64(t[1]);
        } else if (!strcmp(t[0], "clock") && n == 2) {
            s_clock_start = hc_parse_u64(t[1]);
        } else if (!strcmp(t[0], "run") && n >= 2) {
            struct ds_config cfg;
            memset(&cfg, 0, sizeof(cfg));
            int len = 0;
            for (int i = 2; i < n; ++i) {
                list[len++] = atoi(t[i]);
            }
            if (!strcmp(t[1], "choices")) {
                cfg.mode = DS_CHOICES;
                cfg.list = list;
                cfg.list_len = (size_t)len;
            } else if (!strcmp(t[1], "sched")) {
                cfg.mode = DS_EXPLICIT;
                cfg.list = list;
                cfg.list_len = (size_t)len;
            } else if (!strcmp(t[1], "seed") && n >= 3) {
                cfg.mode = DS_SEED;
                cfg.seed = hc_parse_u64(t[2]);
                cfg.spurious_permille = n >= 4 ? (unsigned)atoi(t[3]) : 0;
            } else {
                printf("bad-op\n");
                continue;
            }
            if (s_hangs_on_record() >= HANG_LIMIT) {
                printf("P MONITOR not run: %d earlier cases of this run hung\n", HANG_LIMIT);
                fflush(stdout);
                continue;
            }
            fflush(stdout);
            signal(SIGALRM, s_on_alarm);
            alarm(WATCHDOG_S);
            cfg.max_steps = 20000;
            cfg.create_return_point = 1;
            cfg.clock_tick_ns = s_tick;
            cfg.start_ns = s_clock_start;
            ds_init(&cfg);
            if (s_fail_n >= 0) {
                ds_inject_create_failure(s_fail_n, s_fail_err);
            }
            s_slots[0].tid = aws_thread_current_thread_id();
            s_slots[0].started = 1;
            int rc = ds_run(s_main_fn, NULL);
            if (s_lib_cycled && rc == 0) {
                /* an init racing with the clean-up may have left the registration tables half done */
                aws_common_library_clean_up();
                aws_common_library_init(hc_allocator());
                s_lib_cycled = 0;
            }
            int over = 0;
            for (int i = 1; i < MAXSLOT; ++i) {
                over += s_slots[i].started > 1;
            }
            size_t count = rc == 0 ? aws_thread_get_managed_thread_count() : 0;
            int unjoined = 0; /* managed threads that ran but were never the target of a pthread_join */
            for (int i = 1; i < MAXSLOT; ++i) {
                if (s_slots[i].managed && s_slots[i].started && !(ds_thread_state(s_slots[i].ord) & DS_TS_JOINED)) {
                    unjoined++;
                }
            }
            printf(
                "P end deadlock=%d livelock=%d misuse=%d rerun=%d count=%zu live=%ld unjoined=%d\n", ds_deadlocked(),
                ds_livelocked(), ds_misuse_count(), over, count, hc_live_blocks() - s_baseline_blocks, unjoined);
            if (rc != 0) {
                char who[512];
                ds_describe_blocked(who, sizeof(who));
                printf("P blocked %s\n", who);
            }
            if (ds_diverged()) {
                printf("W diverged\n");
            }
            const int *sch;
            size_t ns = ds_schedule(&sch);
            printf("W sched");
            for (size_t i = 0; i < ns; ++i) {
                printf(" %d", sch[i]);
            }
            printf("\n");
            for (size_t i = 0; i < ds_event_count(); ++i) {
                char buf[96];
                const struct ds_event *e = ds_event_at(i);
                if (e->obj_type == 'o') {
                    /* once flags are named by their id in the op file, not by the scheduler's ordinal */
                    const aws_thread_once *f = ds_object_addr('o', e->obj);
                    long id = (f >= s_once_flag && f < s_once_flag + MAXONCE) ? (long)(f - s_once_flag) : -1;
                    printf("W ev t%d %s f%ld %d\n", e->thread, ds_kind_name(e->kind), id, e->aux);
                    continue;
                }
                ds_format_event(e, buf, sizeof(buf));
                printf("W ev %s\n", buf);
            }
            fflush(stdout);
            alarm(0);
            if (rc != 0) {
                /* the library's global state is not reusable after a deadlock: report as a crash of this case */
                _exit(3);
            }
        } else {
            printf("bad-op\n");
        }
    }
    return 0;
}
