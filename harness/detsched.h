/* detsched — deterministic, serialising scheduler for real pthread code (DESIGN.md 4.4).
 *
 * WHAT IT DOES
 *   The code under test (library objects + harness) is linked with
 *       -Wl,--wrap=<f>   for every f in DS_WRAPPED_FUNCTIONS below  (lib/detsched.py: LDFLAGS)
 *   so that every pthread_create/join/detach, mutex lock/trylock/unlock/destroy, condvar
 *   wait/timedwait/signal/broadcast/destroy, pthread_once, clock_gettime and nanosleep call made by the
 *   library or the harness lands in detsched.c.  Outside ds_run() (and on threads detsched did not
 *   create) the wrappers pass straight through to the real functions.
 *
 *   Inside ds_run() execution is serialised: every thread is a real pthread (so thread-locals,
 *   stacks, pthread_self() work) but exactly one holds the *baton*.  A thread that reaches a wrapped
 *   call *posts* the operation and gives up the baton; the scheduler computes the set of threads whose
 *   posted operation is enabled in the SIMULATED state of the sync objects (mutex owner, condvar
 *   waiters, exited threads, once flags, virtual time), asks the schedule source for one of them,
 *   and that thread performs its operation atomically (event appended to the log) and runs on to
 *   its next wrapped call.  One pick = one step = one event.  The real pthread mutexes/condvars are
 *   never touched while the scheduler is active.
 *
 *   STEP STRUCTURE (what a model has to mirror).  A step of thread t is: the effect of t's posted
 *   operation, then t's thread-local code up to (not including) its next wrapped call.
 *     start     first step of a thread (thread 0: the main function given to ds_run)
 *     created   only with cfg.create_return_point: second step of a successful pthread_create (the call returns)
 *     create    pthread_create; new thread gets the next ordinal, its first posted op is `start`
 *               (an injected failure returns the error code and creates nothing; aux = error)
 *     join      enabled iff the target has performed `exit`; obj = target ordinal
 *     detach    always enabled
 *     lock      enabled iff the mutex is free;  trylock always enabled (aux = 0 got it / EBUSY)
 *     unlock    always enabled (EPERM + misuse flag if not the owner)
 *     wait      pthread_cond_[timed]wait part 1: release the mutex, become a waiter (always enabled)
 *     wake      part 2: enabled iff (signalled | spuriously woken | timed out) and the mutex is free;
 *               re-acquires the mutex; aux = 0 or ETIMEDOUT
 *     signal    wakes the longest-waiting not-yet-woken waiter (FIFO; lost when there is none)
 *     broadcast wakes all current waiters
 *     once      enabled iff no other thread is inside the init routine of that once-flag
 *     sleep     nanosleep: enabled iff virtual time >= wake-up time
 *     atomic    verif_sched_point(kind, addr) from verif_atomics.h: always enabled; aux = VSP_* kind
 *     yield     ds_yield(): explicit schedule point for harness code, always enabled; aux = tag
 *     exit      last step of a thread (its start routine returned)
 *     spurious  not a thread step: a schedule entry DS_SPURIOUS(t) marks waiter t as woken
 *   clock_gettime is NOT a schedule point (virtual time only changes at picks, so it reads the same
 *   value it would have read at the previous one).
 *
 *   TIME is virtual (ns).  clock_gettime(any clock) returns it; timed waits and nanosleep register
 *   deadlines.  Time moves only (a) when no thread is enabled: it jumps to the earliest deadline, a
 *   timed waiter whose deadline is reached becomes enabled with ETIMEDOUT (once the mutex is free);
 *   (b) by ds_advance_time(); (c) by cfg.clock_tick_ns per clock_gettime call (for polling loops).
 *   If no thread is enabled and there is no deadline the run is a DEADLOCK: ds_run() unwinds
 *   (thread 0 by longjmp, the others by pthread_exit) and returns; ds_deadlocked() is then true and
 *   ds_schedule() holds the picks that led there.  The library's own global state is garbage after
 *   a deadlock — report and exit the process.
 *
 *   SCHEDULE SOURCES
 *     DS_SEED      xorshift PRNG: uniformly one of the enabled threads (cfg.stay_pct: chance of keeping
 *                  the running thread if enabled; cfg.spurious_permille: spurious wake-ups)
 *     DS_EXPLICIT  list of thread ordinals (a replay: ds_schedule() of an earlier run); an entry
 *                  DS_SPURIOUS(t) is a spurious wake-up of waiter t.  An entry that names a thread
 *                  that is not enabled sets ds_diverged() and the default policy picks instead.
 *     DS_CHOICES   list of ints: 0 = default policy; k > 0 = enabled[(k-1) mod |enabled|] (enabled
 *                  set in ascending thread ordinal); k < 0 = spurious wake-up of the
 *                  ((-k-1) mod n)-th not-yet-woken condvar waiter (ignored if there is none), then
 *                  the next entry picks.  Lets a generator write schedules without knowing the
 *                  enabled sets.
 *     When a list is exhausted the DEFAULT POLICY continues: keep the running thread while it is
 *     enabled and has taken fewer than cfg.quantum (default 16) consecutive default-policy steps,
 *     otherwise the next enabled thread in cyclic ordinal order.  (Fair, so spin-waits terminate.)
 *
 * NOT SUPPORTED / LIMITS: pthread_exit / pthread_cancel in the code under test; recursive or
 *   error-checking mutex types (all mutexes behave as PTHREAD_MUTEX_NORMAL: relock = deadlock);
 *   rwlocks, semaphores, sleep()/usleep() (not wrapped: they would really block); at most
 *   DS_MAX_THREADS threads per run.  Sync objects are identified by address: wrap *_destroy (in the
 *   list) so that a reused address gets a fresh ordinal.  Interleavings are sequentially consistent
 *   and only switch at the schedule points above.
 *
 * USE
 *     struct ds_config c = {.mode = DS_SEED, .seed = 7};   ds_init(&c);
 *     ds_run(main_fn, arg);          // main_fn is thread 0; returns when all threads exited or deadlock
 *     if (ds_deadlocked()) ...;  ds_dump_events(stdout);  n = ds_schedule(&list);
 */
#ifndef DETSCHED_H
#define DETSCHED_H
#include <stddef.h>
#include <stdint.h>
#include <stdio.h>

/* every one of these must be wrapped at link time (lib/detsched.py builds the flag list) */
#define DS_WRAPPED_FUNCTIONS                                                                                           \
    "pthread_create pthread_join pthread_detach pthread_mutex_lock pthread_mutex_trylock pthread_mutex_unlock "       \
    "pthread_mutex_destroy pthread_cond_wait pthread_cond_timedwait pthread_cond_signal pthread_cond_broadcast "      \
    "pthread_cond_destroy pthread_once clock_gettime nanosleep "                                                      \
    "pthread_attr_init pthread_attr_setstacksize pthread_attr_getstacksize pthread_attr_setaffinity_np"

#define DS_MAX_THREADS 64
#define DS_SPURIOUS_FLAG 0x4000
#define DS_SPURIOUS(t) ((t) | DS_SPURIOUS_FLAG)

enum ds_mode { DS_SEED = 0, DS_EXPLICIT = 1, DS_CHOICES = 2 };

enum ds_kind {
    DS_START = 0,
    DS_EXIT,
    DS_CREATE,
    DS_JOIN,
    DS_DETACH,
    DS_LOCK,
    DS_TRYLOCK,
    DS_UNLOCK,
    DS_WAIT,
    DS_WAKE,
    DS_SIGNAL,
    DS_BROADCAST,
    DS_ONCE,
    DS_SLEEP,
    DS_ATOMIC,
    DS_YIELD,
    DS_SPURIOUS_EV,
    DS_CREATE_RET,
    DS_KIND_COUNT
};

struct ds_config {
    enum ds_mode mode;
    uint64_t seed;              /* DS_SEED */
    const int *list;            /* DS_EXPLICIT / DS_CHOICES (copied by ds_init) */
    size_t list_len;
    unsigned stay_pct;          /* DS_SEED: 0..100 */
    unsigned spurious_permille; /* DS_SEED: 0..1000 */
    unsigned quantum;           /* default policy, 0 = 16 */
    uint64_t start_ns;          /* virtual time at start, 0 = 1 000 000 000 */
    uint64_t clock_tick_ns;     /* added by every clock_gettime, 0 = off */
    int create_return_point;    /* 1: a successful pthread_create is two steps, `create` then `created` (return to
                                   the caller), so that the new thread can run before the creator continues; 0 = off */
    long max_steps;             /* watchdog: run aborted as livelock after this many steps, 0 = 1 000 000 */
};

struct ds_event {
    int thread;    /* thread ordinal (order of creation, main = 0) */
    int kind;      /* enum ds_kind */
    char obj_type; /* 't' thread, 'm' mutex, 'c' condvar, 'o' once flag, 'a' atomic address, '-' none */
    int obj;       /* ordinal of the object among objects of its type, by first appearance; -1 none */
    int aux;       /* kind-specific (see above) */
    uint64_t time; /* virtual ns */
};

void ds_init(const struct ds_config *cfg);
/* runs main_fn(arg) as thread 0 under the scheduler; returns 0 when every thread has exited,
 * 1 on deadlock, 2 on livelock watchdog */
int ds_run(void (*main_fn)(void *), void *arg);

int ds_deadlocked(void);    /* last run ended in deadlock */
int ds_livelocked(void);    /* last run hit max_steps */
int ds_diverged(void);      /* an explicit schedule entry named a thread that was not enabled */
int ds_misuse_count(void);  /* unlock by non-owner, join of an unknown id / of a detached or joined thread (a self-join just returns EDEADLK), wait without the mutex */
enum { DS_TS_EXITED = 1, DS_TS_JOINED = 2, DS_TS_DETACHED = 4 };
int ds_thread_state(int ord); /* DS_TS_* bits of thread `ord` after/during a run, -1 if no such thread */
/* address of the sync object with ordinal `ord` among objects of `type` ('m' 'c' 'o' 'a'); ordinals are given when
 * a thread first POSTS an operation on the object, which can precede the event that executes it */
const void *ds_object_addr(char type, int ord);
int ds_thread_count(void);  /* threads created in the last run, including thread 0 */
int ds_self_ordinal(void);  /* ordinal of the calling thread, -1 if not a scheduled thread */

uint64_t ds_now(void);
void ds_advance_time(uint64_t ns);
void ds_yield(int tag); /* explicit schedule point */
/* the n-th (0-based, counted from the start of the run) pthread_create returns err and creates nothing; n<0: off */
void ds_inject_create_failure(long n, int err);
/* the next `count` pthread_create calls made by the CALLING thread fail with err (ties a failure to one launch) */
void ds_fail_next_create(int count, int err);

/* the next call of pthread_attr_<which> made by the CALLING thread returns err without touching the attribute object
 * (one-shot; the pthread_attr_* wrappers are not schedule points and produce no event) */
enum { DS_ATTR_INIT = 0, DS_ATTR_SETSTACKSIZE, DS_ATTR_GETSTACKSIZE, DS_ATTR_SETAFFINITY, DS_ATTR_COUNT };
void ds_fail_next_attr(int which, int err);
int ds_attr_fault_count(void); /* injected pthread_attr_* failures actually hit: by the calling thread (inside ds_run), in the last run (outside) */

size_t ds_event_count(void);
const struct ds_event *ds_event_at(size_t i);
const char *ds_kind_name(int kind);
/* "t<k> <kind> <type><obj> <aux>" without the time, into buf */
void ds_format_event(const struct ds_event *e, char *buf, size_t n);
void ds_dump_events(FILE *f); /* one line per event: "E <i> t<k> <kind> <type><obj> aux=<aux> @<time>" */
/* picks taken (thread ordinals, DS_SPURIOUS(t) entries): a DS_EXPLICIT list that replays the run */
size_t ds_schedule(const int **list);
/* blocked threads at the deadlock: writes "t1:lock m0 t2:wake c0 ..." */
void ds_describe_blocked(char *buf, size_t n);

#endif
