/* C09 harness: drives aws_array_list (`al …`) and aws_linked_list (`ll …`) through an op file.
 *
 * al ops (lists l0..l3):
 *   init_dyn L n isz | init_static L count isz | clean L
 *   push_back L val | push_front L val | set L idx val | pop_back L | pop_front L | pop_front_n L n
 *   erase L idx | clear L | shrink L | sort L | swap L a b | ensure L idx | calc L idx
 *   front L | back L | get L idx | dump L | copy FROM TO | swapc A B
 *   forged L len (push_back val | push_front val | shrink)     -- length forged for the one call
 *   init_full L count isz k0 (init_static_from_initialized over v<k0>, v<k0+1>, …) | clean_secure L | valid L
 *   get_ptr L idx | fvalid len cs isz datanull (aws_array_list_is_valid on a forged structure)
 *   balance     -- cleans up every list, prints "P live=<blocks still live that the lists acquired>" (must be 0)
 *   val = hex of item_size bytes, or v<k>: byte i = (k*131 + i*29 + (i/128)*3) mod 256
 * output: "P rc=<OK|error name>", then for every list touched "P len L n", "W cs L current_size fnv=<hash of
 *   the whole backing store>", "P guard L ok|BROKEN" (static storage: canaries on both sides).  Elements are
 *   printed as hex (<= 32 bytes) or "#<n>:<fnv64>".  "P skip" = the call would violate a fatal precondition
 *   of the API or ask the allocator for more than LIMIT bytes (aws_mem_acquire aborts on failure).
 *   Fresh memory (allocations, static raw arrays) is filled with 0xCD so that reads of never-written bytes
 *   are deterministic.
 *
 * ll ops (lists L0..L2, nodes n0..n7; X = n<k> | L<j>.h | L<j>.t):
 *   init L | push_back L n | push_front L n | pop_back L | pop_front L | insert_before X n | insert_after X n
 *   remove n | swap_nodes a b | swapc A B | move_back DST SRC | move_front DST SRC
 *   empty L | front L | back L | next X | prev X
 * output after every mutating op: for every initialised list "P fwd L <names>" (walk next from head.next to
 *   tail) and "P rev L <names>" (walk prev from tail.prev to head); for every node the harness believes
 *   detached "P det n<k> <next> <prev>".
 */
#include "h_common.h"
#include <aws/common/array_list.h>
#include <aws/common/linked_list.h>
#include <stdlib.h>
#include <string.h>

#define LIMIT ((size_t)65536)
#define NLISTS 4
#define NLL 3
#define NNODES 8
#define CANARY 16
#define FILL 0xCD

/* With -DDEBUG_BUILD (cbuild flavour "debug") the library's AWS_PRECONDITION / AWS_POSTCONDITION abort, so calls that
 * are tolerated by the NDEBUG code but violate a documented precondition are skipped (the driver does the same after
 * the op "mode debug"): forged lengths, front/back of an empty linked list, next(tail), prev(head), swap_nodes(n, n)
 * on a detached node. */
#ifdef DEBUG_BUILD
#    define STRICT 1
#else
#    define STRICT 0
#endif

/* ---- allocator that fills fresh blocks ---- */
static void *s_fill_acquire(struct aws_allocator *a, size_t size) {
    (void)a;
    void *p = aws_mem_acquire(hc_allocator(), size);
    memset(p, FILL, size);
    return p;
}
/* clean_up_secure: the block handed back must be all zero over its whole size (size from hc_allocator's header) */
static int s_secure_expect; /* 1 while inside clean_up_secure */
static int s_secure_result; /* 0 nothing released, 1 released all-zero, 2 released with non-zero bytes */
static void s_fill_release(struct aws_allocator *a, void *p) {
    (void)a;
    if (s_secure_expect && p) {
        size_t size = ((const size_t *)p)[-2];
        s_secure_result = 1;
        for (size_t i = 0; i < size; ++i) {
            if (((const uint8_t *)p)[i]) {
                s_secure_result = 2;
            }
        }
    }
    aws_mem_release(hc_allocator(), p);
}
static struct aws_allocator s_fill_alloc = {
    .mem_acquire = s_fill_acquire,
    .mem_release = s_fill_release,
    .mem_realloc = NULL,
    .mem_calloc = NULL,
};

/* ---- array lists ---- */
struct slot {
    struct aws_array_list list;
    bool have;
    bool is_static;
    uint8_t *block; /* static: CANARY + raw + CANARY */
    size_t raw_size;
};
static struct slot s_al[NLISTS];
static long s_base_blocks; /* hc_live_blocks() when the case began (all slots empty) */

static uint64_t s_fnv(const uint8_t *p, size_t n) {
    uint64_t h = 0xcbf29ce484222325ULL;
    for (size_t i = 0; i < n; ++i) {
        h ^= p[i];
        h *= 0x100000001b3ULL;
    }
    return h;
}

static void s_render(const uint8_t *p, size_t n) {
    if (n <= 32) {
        hc_put_hex(p, n);
    } else {
        printf("#%zu:%016llx", n, (unsigned long long)s_fnv(p, n));
    }
}

static void s_slot_clean(struct slot *s) {
    if (s->have) {
        aws_array_list_clean_up(&s->list);
    }
    if (s->block) {
        free(s->block);
    }
    memset(s, 0, sizeof(*s));
}

static bool s_guard_ok(const struct slot *s) {
    for (size_t i = 0; i < CANARY; ++i) {
        if (s->block[i] != 0xA5 || s->block[CANARY + s->raw_size + i] != 0xA5) {
            return false;
        }
    }
    return true;
}

static void s_state(int k) {
    struct slot *s = &s_al[k];
    printf("P len l%d %zu\n", k, aws_array_list_length(&s->list));
    printf(
        "W cs l%d %zu fnv=%016llx\n",
        k,
        s->list.current_size,
        (unsigned long long)s_fnv(s->list.data, s->list.current_size));
    if (s->is_static) {
        printf("P guard l%d %s\n", k, s_guard_ok(s) ? "ok" : "BROKEN");
    }
}

static void s_rc(int rc) {
    printf("P rc=%s\n", hc_err(rc));
}

static int s_parse_l(const char *t) {
    if (t[0] != 'l' || t[1] < '0' || t[1] >= '0' + NLISTS || t[2]) {
        return -1;
    }
    return t[1] - '0';
}

/* returns malloc'ed exact-size value or NULL if malformed */
static uint8_t *s_parse_val(const char *t, size_t isz) {
    if (t[0] == 'v') {
        char *end = NULL;
        unsigned long long k = strtoull(t + 1, &end, 10);
        if (!t[1] || *end) {
            return NULL;
        }
        uint8_t *v = malloc(isz);
        for (size_t i = 0; i < isz; ++i) {
            v[i] = (uint8_t)((k * 131 + i * 29 + (i / 128) * 3) % 256);
        }
        return v;
    }
    size_t n = strlen(t);
    if (n % 2 != 0 && strcmp(t, "-")) {
        return NULL;
    }
    for (const char *p = t; *p && strcmp(t, "-"); ++p) {
        bool hex = (*p >= '0' && *p <= '9') || (*p >= 'a' && *p <= 'f') || (*p >= 'A' && *p <= 'F');
        if (!hex) {
            return NULL;
        }
    }
    uint8_t *v = hc_hex_decode(t, &n);
    if (!v || n != isz) {
        free(v);
        return NULL;
    }
    return v;
}

static bool s_is_size(const char *t) {
    if (!strncmp(t, "MAX", 3) || !strncmp(t, "HALF", 4)) {
        return true;
    }
    if (!*t) {
        return false;
    }
    for (const char *p = t; *p; ++p) {
        if (*p < '0' || *p > '9') {
            return false;
        }
    }
    return true;
}

static bool s_huge(const struct aws_array_list *l, size_t index) {
    size_t inc, nec;
    if (!l->alloc || aws_add_size_checked(index, 1, &inc) || aws_mul_size_checked(inc, l->item_size, &nec)) {
        return false;
    }
    return nec > l->current_size && nec > LIMIT;
}

static size_t s_cmp_size;
static int s_cmp(const void *a, const void *b) {
    return memcmp(a, b, s_cmp_size);
}

static void s_val_out(int rc, const uint8_t *buf, size_t isz) {
    s_rc(rc);
    if (rc == AWS_OP_SUCCESS) {
        printf("P val ");
        s_render(buf, isz);
        printf("\n");
    }
}

static void s_val_short(int rc, const uint8_t *buf, size_t isz) {
    if (rc == AWS_OP_SUCCESS) {
        s_render(buf, isz);
    } else {
        printf("%s", hc_last_error_name());
    }
}

static void s_al_op(char **t, int n) {
    /* t[0] = op */
    const char *op = t[0];
    if (!strcmp(op, "balance") && n == 1) {
        /* allocator balance: after cleaning up every list nothing the lists acquired may still be live */
        for (int k = 0; k < NLISTS; ++k) {
            s_slot_clean(&s_al[k]);
        }
        printf("P live=%ld\n", hc_live_blocks() - s_base_blocks);
        s_base_blocks = hc_live_blocks();
        return;
    }
    if ((!strcmp(op, "init_dyn") || !strcmp(op, "init_static")) && n == 4) {
        int k = s_parse_l(t[1]);
        if (k < 0 || !s_is_size(t[2]) || !s_is_size(t[3])) {
            printf("bad-op\n");
            return;
        }
        size_t cnt = hc_parse_size(t[2]), isz = hc_parse_size(t[3]), total = 0;
        bool ovf = aws_mul_size_checked(cnt, isz, &total) != AWS_OP_SUCCESS;
        if (!strcmp(op, "init_dyn")) {
            if (isz == 0 || (!ovf && total > LIMIT)) {
                printf("P skip\n");
                return;
            }
            s_slot_clean(&s_al[k]);
            int rc = aws_array_list_init_dynamic(&s_al[k].list, &s_fill_alloc, cnt, isz);
            s_rc(rc);
            if (rc == AWS_OP_SUCCESS) {
                s_al[k].have = true;
                s_state(k);
            }
        } else {
            if (isz == 0 || cnt == 0 || cnt > LIMIT || isz > LIMIT || ovf || total > LIMIT) {
                printf("P skip\n");
                return;
            }
            s_slot_clean(&s_al[k]);
            struct slot *s = &s_al[k];
            s->block = malloc(total + 2 * CANARY); /* exact size: ASan red zones right behind the canaries */
            memset(s->block, 0xA5, total + 2 * CANARY);
            memset(s->block + CANARY, FILL, total);
            s->raw_size = total;
            s->is_static = true;
            aws_array_list_init_static(&s->list, s->block + CANARY, cnt, isz);
            s->have = true;
            s_rc(AWS_OP_SUCCESS);
            s_state(k);
        }
        return;
    }
    if (!strcmp(op, "fcap") && n == 3) {
        /* aws_array_list_capacity of a (valid, empty) structure whose current_size need not be a multiple of item_size */
        if (!s_is_size(t[1]) || !s_is_size(t[2])) {
            printf("bad-op\n");
            return;
        }
        static uint8_t dummy2[8];
        struct aws_array_list f;
        AWS_ZERO_STRUCT(f);
        f.alloc = &s_fill_alloc;
        f.current_size = hc_parse_size(t[1]);
        f.item_size = hc_parse_size(t[2]);
        f.data = f.current_size ? dummy2 : NULL;
        if (f.item_size == 0) {
            printf("P skip\n");
            return;
        }
        printf("P cap=%zu\n", aws_array_list_capacity(&f));
        return;
    }
    if (!strcmp(op, "fvalid") && n == 5) {
        if (!s_is_size(t[1]) || !s_is_size(t[2]) || !s_is_size(t[3]) || (strcmp(t[4], "0") && strcmp(t[4], "1"))) {
            printf("bad-op\n");
            return;
        }
        static uint8_t dummy[8];
        struct aws_array_list f;
        AWS_ZERO_STRUCT(f);
        f.alloc = &s_fill_alloc;
        f.length = hc_parse_size(t[1]);
        f.current_size = hc_parse_size(t[2]);
        f.item_size = hc_parse_size(t[3]);
        f.data = t[4][0] == '1' ? NULL : dummy;
        printf("P valid %d\n", aws_array_list_is_valid(&f) ? 1 : 0);
        return;
    }
    if (!strcmp(op, "init_full") && n == 5) {
        int k = s_parse_l(t[1]);
        if (k < 0 || !s_is_size(t[2]) || !s_is_size(t[3]) || !s_is_size(t[4])) {
            printf("bad-op\n");
            return;
        }
        size_t cnt = hc_parse_size(t[2]), isz = hc_parse_size(t[3]), k0 = hc_parse_size(t[4]), total = 0;
        bool ovf = aws_mul_size_checked(cnt, isz, &total) != AWS_OP_SUCCESS;
        if (isz == 0 || cnt == 0 || cnt > LIMIT || isz > LIMIT || ovf || total > LIMIT || k0 > LIMIT) {
            printf("P skip\n");
            return;
        }
        s_slot_clean(&s_al[k]);
        struct slot *s = &s_al[k];
        s->block = malloc(total + 2 * CANARY);
        memset(s->block, 0xA5, total + 2 * CANARY);
        for (size_t e = 0; e < cnt; ++e) {
            for (size_t i = 0; i < isz; ++i) {
                s->block[CANARY + e * isz + i] = (uint8_t)(((k0 + e) * 131 + i * 29 + (i / 128) * 3) % 256);
            }
        }
        s->raw_size = total;
        s->is_static = true;
        aws_array_list_init_static_from_initialized(&s->list, s->block + CANARY, cnt, isz);
        s->have = true;
        s_rc(AWS_OP_SUCCESS);
        s_state(k);
        return;
    }
    if ((!strcmp(op, "copy") || !strcmp(op, "swapc")) && n == 3) {
        int a = s_parse_l(t[1]), b = s_parse_l(t[2]);
        if (a < 0 || b < 0) {
            printf("bad-op\n");
            return;
        }
        struct slot *sa = &s_al[a], *sb = &s_al[b];
        if (!sa->have || !sb->have || a == b || sa->list.item_size != sb->list.item_size) {
            printf("P skip\n");
            return;
        }
        if (!strcmp(op, "copy")) {
            if (sa->list.current_size == 0) {
                printf("P skip\n");
                return;
            }
            int rc = aws_array_list_copy(&sa->list, &sb->list);
            s_rc(rc);
            s_state(b);
        } else {
            if (sa->is_static || sb->is_static) {
                printf("P skip\n");
                return;
            }
            aws_array_list_swap_contents(&sa->list, &sb->list);
            s_rc(AWS_OP_SUCCESS);
            s_state(a);
            s_state(b);
        }
        return;
    }
    if (n < 2) {
        printf("bad-op\n");
        return;
    }
    int k = s_parse_l(t[1]);
    if (k < 0) {
        printf("bad-op\n");
        return;
    }
    struct slot *s = &s_al[k];
    if ((!strcmp(op, "clean") || !strcmp(op, "clean_secure")) && n == 2) {
        bool secure = !strcmp(op, "clean_secure");
        bool zeroed = true;
        bool was_static = s->have && s->is_static;
        if (s->have) {
            if (secure) {
                s_secure_expect = 1;
                s_secure_result = 0;
                aws_array_list_clean_up_secure(&s->list);
                s_secure_expect = 0;
            } else {
                aws_array_list_clean_up(&s->list);
            }
            zeroed = AWS_IS_ZEROED(s->list);
            s->have = false;
        } else {
            s_secure_result = 0;
        }
        s_rc(AWS_OP_SUCCESS);
        printf("P zeroed %d\n", zeroed ? 1 : 0);
        if (secure) {
            if (was_static) {
                printf("W raw fnv=%016llx\n", (unsigned long long)s_fnv(s->block + CANARY, s->raw_size));
            } else {
                printf("P secure %s\n", s_secure_result == 0 ? "none" : s_secure_result == 1 ? "ok" : "NOT-ZEROED");
            }
        }
        s_slot_clean(s);
        return;
    }
    static const char *known[] = {"push_back", "push_front", "set",   "pop_back", "pop_front", "pop_front_n",
                                  "erase",     "clear",      "shrink", "sort",     "swap",      "ensure",
                                  "calc",      "front",      "back",   "get",      "dump",      "forged",
                                  "valid",     "get_ptr"};
    if (!s->have) {
        for (size_t i = 0; i < sizeof(known) / sizeof(known[0]); ++i) {
            if (!strcmp(op, known[i])) {
                printf("P skip\n");
                return;
            }
        }
        printf("bad-op\n");
        return;
    }
    struct aws_array_list *l = &s->list;
    size_t isz = l->item_size;
    if ((!strcmp(op, "push_back") || !strcmp(op, "push_front")) && n == 3) {
        uint8_t *v = s_parse_val(t[2], isz);
        if (!v) {
            printf("bad-op\n");
            return;
        }
        if (s_huge(l, l->length)) {
            printf("P skip\n");
        } else {
            int rc = !strcmp(op, "push_back") ? aws_array_list_push_back(l, v) : aws_array_list_push_front(l, v);
            s_rc(rc);
            s_state(k);
        }
        free(v);
    } else if (!strcmp(op, "set") && n == 4) {
        uint8_t *v = s_is_size(t[2]) ? s_parse_val(t[3], isz) : NULL;
        if (!v) {
            printf("bad-op\n");
            return;
        }
        size_t idx = hc_parse_size(t[2]);
        if (s_huge(l, idx)) {
            printf("P skip\n");
        } else {
            s_rc(aws_array_list_set_at(l, v, idx));
            s_state(k);
        }
        free(v);
    } else if (!strcmp(op, "pop_back") && n == 2) {
        s_rc(aws_array_list_pop_back(l));
        s_state(k);
    } else if (!strcmp(op, "pop_front") && n == 2) {
        s_rc(aws_array_list_pop_front(l));
        s_state(k);
    } else if (!strcmp(op, "pop_front_n") && n == 3 && s_is_size(t[2])) {
        aws_array_list_pop_front_n(l, hc_parse_size(t[2]));
        s_rc(AWS_OP_SUCCESS);
        s_state(k);
    } else if (!strcmp(op, "erase") && n == 3 && s_is_size(t[2])) {
        s_rc(aws_array_list_erase(l, hc_parse_size(t[2])));
        s_state(k);
    } else if (!strcmp(op, "clear") && n == 2) {
        aws_array_list_clear(l);
        s_rc(AWS_OP_SUCCESS);
        s_state(k);
    } else if (!strcmp(op, "shrink") && n == 2) {
        s_rc(aws_array_list_shrink_to_fit(l));
        s_state(k);
    } else if (!strcmp(op, "sort") && n == 2) {
        s_cmp_size = isz;
        aws_array_list_sort(l, s_cmp);
        s_rc(AWS_OP_SUCCESS);
        s_state(k);
    } else if (!strcmp(op, "swap") && n == 4 && s_is_size(t[2]) && s_is_size(t[3])) {
        size_t a = hc_parse_size(t[2]), b = hc_parse_size(t[3]);
        if (a < l->length && b < l->length) {
            aws_array_list_swap(l, a, b);
            s_rc(AWS_OP_SUCCESS);
            s_state(k);
        } else {
            printf("P skip\n");
        }
    } else if (!strcmp(op, "ensure") && n == 3 && s_is_size(t[2])) {
        size_t idx = hc_parse_size(t[2]);
        if (s_huge(l, idx)) {
            printf("P skip\n");
        } else {
            s_rc(aws_array_list_ensure_capacity(l, idx));
            s_state(k);
        }
    } else if (!strcmp(op, "calc") && n == 3 && s_is_size(t[2])) {
        size_t nec = 0;
        int rc = aws_array_list_calc_necessary_size(l, hc_parse_size(t[2]), &nec);
        s_rc(rc);
        if (rc == AWS_OP_SUCCESS) {
            printf("P nec=%zu\n", nec);
        }
    } else if ((!strcmp(op, "front") || !strcmp(op, "back")) && n == 2) {
        uint8_t *buf = malloc(isz);
        memset(buf, 0xEE, isz);
        int rc = !strcmp(op, "front") ? aws_array_list_front(l, buf) : aws_array_list_back(l, buf);
        s_val_out(rc, buf, isz);
        free(buf);
    } else if (!strcmp(op, "get") && n == 3 && s_is_size(t[2])) {
        uint8_t *buf = malloc(isz);
        memset(buf, 0xEE, isz);
        int rc = aws_array_list_get_at(l, buf, hc_parse_size(t[2]));
        s_val_out(rc, buf, isz);
        free(buf);
    } else if (!strcmp(op, "valid") && n == 2) {
        printf("P valid %d\n", aws_array_list_is_valid(l) ? 1 : 0);
    } else if (!strcmp(op, "get_ptr") && n == 3 && s_is_size(t[2])) {
        void *ptr = NULL;
        int rc = aws_array_list_get_at_ptr(l, &ptr, hc_parse_size(t[2]));
        s_rc(rc);
        if (rc == AWS_OP_SUCCESS) {
            printf("P off=%zu\n", (size_t)((uint8_t *)ptr - (uint8_t *)l->data));
            printf("P val ");
            s_render(ptr, isz);
            printf("\n");
        }
    } else if (!strcmp(op, "dump") && n == 2) {
        uint8_t *buf = malloc(isz);
        size_t len = aws_array_list_length(l);
        printf("P len l%d %zu\n", k, len);
        printf("W cap l%d %zu\n", k, aws_array_list_capacity(l));
        for (size_t i = 0; i < len; ++i) {
            int rc = aws_array_list_get_at(l, buf, i);
            printf("P e %zu ", i);
            s_val_short(rc, buf, isz);
            printf("\n");
        }
        int rc = aws_array_list_front(l, buf);
        printf("P front ");
        s_val_short(rc, buf, isz);
        rc = aws_array_list_back(l, buf);
        printf("\nP back ");
        s_val_short(rc, buf, isz);
        printf("\n");
        free(buf);
    } else if (!strcmp(op, "forged") && n >= 4 && s_is_size(t[2])) {
        size_t flen = hc_parse_size(t[2]);
        size_t real = l->length;
        bool pb = !strcmp(t[3], "push_back") && n == 5, pf = !strcmp(t[3], "push_front") && n == 5;
        bool sh = !strcmp(t[3], "shrink") && n == 4;
        if (!pb && !pf && !sh) {
            printf("bad-op\n");
            return;
        }
        if (flen < ((size_t)1 << 32) || l->current_size == 0 || STRICT) { /* length != 0 with data == NULL is a fatal assert */
            printf("P skip\n");
            return;
        }
        if (sh) {
            l->length = flen;
            int rc = aws_array_list_shrink_to_fit(l);
            s_rc(rc);
            l->length = real;
            s_state(k);
        } else {
            uint8_t *v = s_parse_val(t[4], isz);
            if (!v) {
                printf("bad-op\n");
                return;
            }
            l->length = flen;
            if (s_huge(l, flen)) {
                l->length = real;
                printf("P skip\n");
            } else {
                int rc = pb ? aws_array_list_push_back(l, v) : aws_array_list_push_front(l, v);
                s_rc(rc);
                l->length = real;
                s_state(k);
            }
            free(v);
        }
    } else {
        printf("bad-op\n");
    }
}

/* ---- linked lists ---- */
static struct aws_linked_list s_ll[NLL];
static bool s_ll_init[NLL];
static struct aws_linked_list_node s_node[NNODES];
static int s_where[NNODES]; /* -1 = detached (harness bookkeeping) */

static void s_name(const struct aws_linked_list_node *p, char *out) {
    if (!p) {
        strcpy(out, "null");
        return;
    }
    for (int k = 0; k < NNODES; ++k) {
        if (p == &s_node[k]) {
            sprintf(out, "n%d", k);
            return;
        }
    }
    for (int j = 0; j < NLL; ++j) {
        if (p == &s_ll[j].head) {
            sprintf(out, "L%d.h", j);
            return;
        }
        if (p == &s_ll[j].tail) {
            sprintf(out, "L%d.t", j);
            return;
        }
    }
    strcpy(out, "?");
}

static bool s_known_node(const struct aws_linked_list_node *p) {
    return p >= &s_node[0] && p < &s_node[NNODES];
}

static void s_walk(int j, bool fwd) {
    char buf[16 * 16];
    char nm[16];
    buf[0] = 0;
    const struct aws_linked_list_node *stop = fwd ? &s_ll[j].tail : &s_ll[j].head;
    const struct aws_linked_list_node *cur = fwd ? s_ll[j].head.next : s_ll[j].tail.prev;
    int fuel = 12;
    bool ok = cur != NULL;
    while (ok) {
        if (fuel-- == 0) {
            ok = false;
            break;
        }
        if (cur == stop) {
            break;
        }
        /* only step through memory the harness owns */
        bool mine = s_known_node(cur);
        for (int q = 0; q < NLL; ++q) {
            mine = mine || cur == &s_ll[q].head || cur == &s_ll[q].tail;
        }
        if (!mine) {
            ok = false;
            break;
        }
        const struct aws_linked_list_node *nx = fwd ? cur->next : cur->prev;
        if (!nx) {
            ok = false;
            break;
        }
        s_name(cur, nm);
        strcat(buf, " ");
        strcat(buf, nm);
        cur = nx;
    }
    printf("P %s L%d%s\n", fwd ? "fwd" : "rev", j, ok ? buf : " !broken");
}

static void s_ll_state(void) {
    char a[16], b[16];
    for (int j = 0; j < NLL; ++j) {
        if (s_ll_init[j]) {
            s_walk(j, true);
            s_walk(j, false);
            printf(
                "P valid L%d %d %d %d %d\n",
                j,
                aws_linked_list_is_valid(&s_ll[j]) ? 1 : 0,
                aws_linked_list_is_valid_deep(&s_ll[j]) ? 1 : 0,
                aws_linked_list_node_is_in_list(&s_ll[j].head) ? 1 : 0, /* sentinels are not "in the list" */
                aws_linked_list_node_is_in_list(&s_ll[j].tail) ? 1 : 0);
        }
    }
    printf("P inl ");
    for (int k = 0; k < NNODES; ++k) {
        putchar(aws_linked_list_node_is_in_list(&s_node[k]) ? '1' : '0');
    }
    printf("\n");
    for (int k = 0; k < NNODES; ++k) {
        if (s_where[k] < 0) {
            s_name(s_node[k].next, a);
            s_name(s_node[k].prev, b);
            printf("P det n%d %s %s\n", k, a, b);
        }
    }
}

static int s_parse_list(const char *t) {
    if (t[0] != 'L' || t[1] < '0' || t[1] >= '0' + NLL || t[2]) {
        return -1;
    }
    return t[1] - '0';
}
static int s_parse_node(const char *t) {
    if (t[0] != 'n' || t[1] < '0' || t[1] >= '0' + NNODES || t[2]) {
        return -1;
    }
    return t[1] - '0';
}
/* X reference: returns 0 = malformed; 1 = node, 2 = head, 3 = tail; *idx */
static int s_parse_ref(const char *t, int *idx) {
    int k = s_parse_node(t);
    if (k >= 0) {
        *idx = k;
        return 1;
    }
    if (t[0] == 'L' && t[1] >= '0' && t[1] < '0' + NLL && t[2] == '.' && (t[3] == 'h' || t[3] == 't') && !t[4]) {
        *idx = t[1] - '0';
        return t[3] == 'h' ? 2 : 3;
    }
    return 0;
}
static int s_count_in(int j) {
    int c = 0;
    for (int k = 0; k < NNODES; ++k) {
        c += s_where[k] == j;
    }
    return c;
}

static void s_ll_op(char **t, int n) {
    const char *op = t[0];
    char nm[16];
    if (!strcmp(op, "init") && n == 2) {
        int j = s_parse_list(t[1]);
        if (j < 0) {
            printf("bad-op\n");
            return;
        }
        if (s_ll_init[j] && s_count_in(j) != 0) {
            printf("P skip\n");
            return;
        }
        if (!s_ll_init[j]) {
            memset(&s_ll[j], 0x5A, sizeof(s_ll[j])); /* init must not rely on zeroed memory */
        }
        aws_linked_list_init(&s_ll[j]);
        s_ll_init[j] = true;
        printf("P ok\n");
        s_ll_state();
        return;
    }
    if (n == 3 && (!strcmp(op, "push_back") || !strcmp(op, "push_front"))) {
        int j = s_parse_list(t[1]), k = s_parse_node(t[2]);
        if (j < 0 || k < 0) {
            printf("bad-op\n");
            return;
        }
        if (!s_ll_init[j] || s_where[k] >= 0) {
            printf("P skip\n");
            return;
        }
        if (!strcmp(op, "push_back")) {
            aws_linked_list_push_back(&s_ll[j], &s_node[k]);
        } else {
            aws_linked_list_push_front(&s_ll[j], &s_node[k]);
        }
        s_where[k] = j;
        printf("P ok\n");
        s_ll_state();
        return;
    }
    if (n == 3 && (!strcmp(op, "insert_before") || !strcmp(op, "insert_after"))) {
        int idx = 0, kind = s_parse_ref(t[1], &idx), k = s_parse_node(t[2]);
        if (!kind || k < 0) {
            printf("bad-op\n");
            return;
        }
        bool before = !strcmp(op, "insert_before");
        struct aws_linked_list_node *x = NULL;
        int j = -1;
        if (kind == 1) {
            if (s_where[idx] >= 0) {
                x = &s_node[idx];
                j = s_where[idx];
            }
        } else if (s_ll_init[idx]) {
            x = kind == 2 ? &s_ll[idx].head : &s_ll[idx].tail;
            j = idx;
        }
        if (!x || (kind == 2 && before) || (kind == 3 && !before) || s_where[k] >= 0) {
            printf("P skip\n");
            return;
        }
        if (before) {
            aws_linked_list_insert_before(x, &s_node[k]);
        } else {
            aws_linked_list_insert_after(x, &s_node[k]);
        }
        s_where[k] = j;
        printf("P ok\n");
        s_ll_state();
        return;
    }
    if (n == 3 && !strcmp(op, "swap_nodes")) {
        int a = s_parse_node(t[1]), b = s_parse_node(t[2]);
        if (a < 0 || b < 0) {
            printf("bad-op\n");
            return;
        }
        if ((a != b && (s_where[a] < 0 || s_where[b] < 0)) || (a == b && STRICT && s_where[a] < 0)) {
            printf("P skip\n");
            return;
        }
        aws_linked_list_swap_nodes(&s_node[a], &s_node[b]);
        int w = s_where[a];
        s_where[a] = s_where[b];
        s_where[b] = w;
        printf("P ok\n");
        s_ll_state();
        return;
    }
    if (n == 3 && (!strcmp(op, "swapc") || !strcmp(op, "move_back") || !strcmp(op, "move_front"))) {
        int a = s_parse_list(t[1]), b = s_parse_list(t[2]);
        if (a < 0 || b < 0) {
            printf("bad-op\n");
            return;
        }
        if (a == b || !s_ll_init[a] || !s_ll_init[b]) {
            printf("P skip\n");
            return;
        }
        if (!strcmp(op, "swapc")) {
            aws_linked_list_swap_contents(&s_ll[a], &s_ll[b]);
            for (int k = 0; k < NNODES; ++k) {
                s_where[k] = s_where[k] == a ? b : s_where[k] == b ? a : s_where[k];
            }
        } else {
            if (!strcmp(op, "move_back")) {
                aws_linked_list_move_all_back(&s_ll[a], &s_ll[b]);
            } else {
                aws_linked_list_move_all_front(&s_ll[a], &s_ll[b]);
            }
            for (int k = 0; k < NNODES; ++k) {
                s_where[k] = s_where[k] == b ? a : s_where[k];
            }
        }
        printf("P ok\n");
        s_ll_state();
        return;
    }
    if (n == 2 && (!strcmp(op, "pop_back") || !strcmp(op, "pop_front"))) {
        int j = s_parse_list(t[1]);
        if (j < 0) {
            printf("bad-op\n");
            return;
        }
        if (!s_ll_init[j] || s_count_in(j) == 0) {
            printf("P skip\n");
            return;
        }
        struct aws_linked_list_node *p =
            !strcmp(op, "pop_back") ? aws_linked_list_pop_back(&s_ll[j]) : aws_linked_list_pop_front(&s_ll[j]);
        s_name(p, nm);
        if (s_known_node(p)) {
            s_where[p - s_node] = -1;
        }
        printf("P pop %s\n", nm);
        s_ll_state();
        return;
    }
    if (n == 2 && (!strcmp(op, "begin") || !strcmp(op, "end") || !strcmp(op, "rbegin") || !strcmp(op, "rend"))) {
        int j = s_parse_list(t[1]);
        if (j < 0) {
            printf("bad-op\n");
            return;
        }
        if (!s_ll_init[j]) {
            printf("P skip\n");
            return;
        }
        const struct aws_linked_list_node *p = !strcmp(op, "begin")    ? aws_linked_list_begin(&s_ll[j])
                                               : !strcmp(op, "end")    ? aws_linked_list_end(&s_ll[j])
                                               : !strcmp(op, "rbegin") ? aws_linked_list_rbegin(&s_ll[j])
                                                                       : aws_linked_list_rend(&s_ll[j]);
        s_name(p, nm);
        printf("P %s %s\n", op, nm);
        return;
    }
    if (n == 3 && !strcmp(op, "fvalid")) {
        int j = s_parse_list(t[1]);
        if (j < 0) {
            printf("bad-op\n");
            return;
        }
        if (!s_ll_init[j]) {
            printf("P skip\n");
            return;
        }
        struct aws_linked_list saved = s_ll[j];
        if (!strcmp(t[2], "hn")) {
            s_ll[j].head.next = NULL;
        } else if (!strcmp(t[2], "hp")) {
            s_ll[j].head.prev = &s_ll[j].tail;
        } else if (!strcmp(t[2], "tp")) {
            s_ll[j].tail.prev = NULL;
        } else if (!strcmp(t[2], "tn")) {
            s_ll[j].tail.next = &s_ll[j].head;
        } else {
            printf("bad-op\n");
            return;
        }
        int v = aws_linked_list_is_valid(&s_ll[j]) ? 1 : 0;
        s_ll[j] = saved;
        printf("P fvalid %d\n", v);
        return;
    }
    if (n == 2 && !strcmp(op, "fempty")) {
        /* aws_linked_list_empty looks at head.next only: with tail.prev forged to &head a non-empty list is still non-empty */
        int j = s_parse_list(t[1]);
        if (j < 0) {
            printf("bad-op\n");
            return;
        }
        if (!s_ll_init[j]) {
            printf("P skip\n");
            return;
        }
        struct aws_linked_list_node *saved = s_ll[j].tail.prev;
        s_ll[j].tail.prev = &s_ll[j].head;
        int v = aws_linked_list_empty(&s_ll[j]) ? 1 : 0;
        s_ll[j].tail.prev = saved;
        printf("P fempty %d\n", v);
        return;
    }
    if (n == 3 && !strcmp(op, "fdeep")) {
        int j = s_parse_list(t[1]), k = s_parse_node(t[2]);
        if (j < 0 || k < 0) {
            printf("bad-op\n");
            return;
        }
        if (!s_ll_init[j] || s_where[k] != j) {
            printf("P skip\n");
            return;
        }
        struct aws_linked_list_node *saved = s_node[k].prev;
        s_node[k].prev = NULL;
        int v = aws_linked_list_is_valid_deep(&s_ll[j]) ? 1 : 0;
        s_node[k].prev = saved;
        printf("P fdeep %d\n", v);
        return;
    }
    if (n == 4 && !strcmp(op, "probe")) {
        int k = s_parse_node(t[1]);
        struct aws_linked_list_node *lk[2] = {NULL, NULL};
        bool ok = k >= 0;
        for (int q = 0; q < 2 && ok; ++q) {
            int idx = 0, kind = 0;
            if (!strcmp(t[2 + q], "null")) {
                lk[q] = NULL;
            } else if ((kind = s_parse_ref(t[2 + q], &idx)) != 0) {
                lk[q] = kind == 1 ? &s_node[idx] : kind == 2 ? &s_ll[idx].head : &s_ll[idx].tail;
            } else {
                ok = false;
            }
        }
        if (!ok) {
            printf("bad-op\n");
            return;
        }
        if (s_where[k] >= 0) {
            printf("P skip\n");
            return;
        }
        s_node[k].next = lk[0];
        s_node[k].prev = lk[1];
        int a = aws_linked_list_node_next_is_valid(&s_node[k]) ? 1 : 0;
        int b = aws_linked_list_node_prev_is_valid(&s_node[k]) ? 1 : 0;
        int c = aws_linked_list_node_is_in_list(&s_node[k]) ? 1 : 0;
        AWS_ZERO_STRUCT(s_node[k]);
        printf("P probe %d %d %d\n", a, b, c);
        return;
    }
    if (n == 2 && !strcmp(op, "remove")) {
        int k = s_parse_node(t[1]);
        if (k < 0) {
            printf("bad-op\n");
            return;
        }
        if (s_where[k] < 0) {
            printf("P skip\n");
            return;
        }
        aws_linked_list_remove(&s_node[k]);
        s_where[k] = -1;
        printf("P ok\n");
        s_ll_state();
        return;
    }
    if (n == 2 && (!strcmp(op, "empty") || !strcmp(op, "front") || !strcmp(op, "back"))) {
        int j = s_parse_list(t[1]);
        if (j < 0) {
            printf("bad-op\n");
            return;
        }
        if (!s_ll_init[j] || (STRICT && strcmp(op, "empty") && s_count_in(j) == 0)) {
            printf("P skip\n");
            return;
        }
        if (!strcmp(op, "empty")) {
            printf("P empty %d\n", aws_linked_list_empty(&s_ll[j]) ? 1 : 0);
        } else if (!strcmp(op, "front")) {
            s_name(aws_linked_list_front(&s_ll[j]), nm);
            printf("P front %s\n", nm);
        } else {
            s_name(aws_linked_list_back(&s_ll[j]), nm);
            printf("P back %s\n", nm);
        }
        return;
    }
    if (n == 2 && (!strcmp(op, "next") || !strcmp(op, "prev"))) {
        int idx = 0, kind = s_parse_ref(t[1], &idx);
        if (!kind) {
            printf("bad-op\n");
            return;
        }
        struct aws_linked_list_node *x = NULL;
        if (kind == 1) {
            x = s_where[idx] >= 0 ? &s_node[idx] : NULL;
        } else if (s_ll_init[idx]) {
            x = kind == 2 ? &s_ll[idx].head : &s_ll[idx].tail;
        }
        if (!x || (STRICT && ((kind == 3 && !strcmp(op, "next")) || (kind == 2 && !strcmp(op, "prev"))))) {
            printf("P skip\n");
            return;
        }
        if (!strcmp(op, "next")) {
            s_name(aws_linked_list_next(x), nm);
            printf("P next %s\n", nm);
        } else {
            s_name(aws_linked_list_prev(x), nm);
            printf("P prev %s\n", nm);
        }
        return;
    }
    printf("bad-op\n");
}

static void s_reset(void) {
    for (int k = 0; k < NLISTS; ++k) {
        s_slot_clean(&s_al[k]);
    }
    memset(s_ll, 0, sizeof(s_ll));
    memset(s_ll_init, 0, sizeof(s_ll_init));
    memset(s_node, 0, sizeof(s_node));
    for (int k = 0; k < NNODES; ++k) {
        s_where[k] = -1;
    }
    s_base_blocks = hc_live_blocks();
}

int main(void) {
    char *t[HC_MAX_TOKS];
    int n;
    aws_common_library_init(hc_allocator());
    s_reset();
    while ((n = hc_next_line(t)) >= 0) {
        if (!strcmp(t[0], "case")) {
            s_reset();
            hc_case_begin(n > 1 ? t[1] : "?");
        } else if (!strcmp(t[0], "al") && n >= 2) {
            s_al_op(t + 1, n - 1);
        } else if (!strcmp(t[0], "ll") && n >= 2) {
            s_ll_op(t + 1, n - 1);
        } else if (!strcmp(t[0], "mode") && n == 2 && !strcmp(t[1], "debug")) {
            printf(STRICT ? "P mode debug\n" : "P mode-unavailable (library not built with DEBUG_BUILD)\n");
        } else {
            printf("bad-op\n");
        }
    }
    s_reset();
    return 0;
}
