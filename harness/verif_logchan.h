/* Force-included (-include) when source/log_channel.c is compiled again for harness/logbg.c: the two array-list
 * operations the background channel performs on its shared queue become schedule points, so that a queue access
 * that has slipped out of the mutex (e.g. the swap after the unlock, with line_count read before it) interleaves with
 * the senders under harness/detsched.c.  A function-like macro is not re-expanded inside its own expansion. */
#ifndef VERIF_LOGCHAN_H
#define VERIF_LOGCHAN_H
#include <aws/common/array_list.h>
void verif_sched_point(int kind, const volatile void *addr);
/* a schedule point right AFTER every unlock in log_channel.c: code that has slipped behind the unlock (a flag set after
 * it, a swap after it) then really runs outside the lock as far as the scheduler is concerned */
#include <aws/common/mutex.h>
static inline int verif_unlock_then_point(struct aws_mutex *m) {
    int r = aws_mutex_unlock(m);
    verif_sched_point(2, m);
    return r;
}
#define aws_mutex_unlock(m) verif_unlock_then_point(m)
#define aws_array_list_swap_contents(a, b) (verif_sched_point(2, (a)), aws_array_list_swap_contents((a), (b)))
#define aws_array_list_push_back(l, v) (verif_sched_point(2, (l)), aws_array_list_push_back((l), (v)))
#endif
