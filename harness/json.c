/* C11 harness: drives the aws_json_* API (source/json.c over source/external/cJSON.c) through an
 * op file.  Values live in named slots; `add`/`arr_add` move a slot into a container.  Every
 * observation goes through the public API only (type tests, getters, iterate, compare).
 * `hint_*` lines belong to the model side (libc number formatting is not modelled there). */
#include "h_common.h"
#include <aws/common/byte_buf.h>
#include <aws/common/error.h>
#include <aws/common/json.h>
#include <stdlib.h>
#include <string.h>

#define MAXSLOT 256
static struct {
    char name[24];
    struct aws_json_value *v;
} s_slot[MAXSLOT];
static long s_base_blocks;

#define MAXBUF 16
#define MAXSEG 64
static struct {
    char name[24];
    bool used;
    struct aws_byte_buf buf;
    size_t nseg;
    size_t off[MAXSEG], len[MAXSEG];
} s_buf[MAXBUF];

static int s_buf_find(const char *name) {
    for (int i = 0; i < MAXBUF; ++i) {
        if (s_buf[i].used && !strcmp(s_buf[i].name, name)) {
            return i;
        }
    }
    return -1;
}

static void s_buf_reset(void) {
    for (int i = 0; i < MAXBUF; ++i) {
        if (s_buf[i].used) {
            aws_byte_buf_clean_up(&s_buf[i].buf);
            s_buf[i].used = false;
        }
    }
}

static int s_find(const char *name) {
    for (int i = 0; i < MAXSLOT; ++i) {
        if (s_slot[i].v && !strcmp(s_slot[i].name, name)) {
            return i;
        }
    }
    return -1;
}

static struct aws_json_value *s_get(const char *name) {
    int i = s_find(name);
    return i < 0 ? NULL : s_slot[i].v;
}

/* "name/k<hex>/i<n>/...": a slot and a path of getter steps into it (a borrowed pointer) */
static bool s_root_is(const char *ref, const char *name) {
    size_t n = strcspn(ref, "/");
    return strlen(name) == n && !strncmp(ref, name, n);
}

static bool s_plain(const char *name) {
    return strchr(name, '/') == NULL;
}

static struct aws_json_value *s_ref(const char *ref) {
    char buf[4096];
    if (strlen(ref) >= sizeof(buf) || ref[0] == '/') {
        return NULL;
    }
    strcpy(buf, ref);
    char *save = NULL;
    char *tok = strtok_r(buf, "/", &save);
    if (!tok) {
        return NULL;
    }
    struct aws_json_value *v = s_get(tok);
    while (v && (tok = strtok_r(NULL, "/", &save))) {
        if (tok[0] == 'k') {
            size_t n = 0;
            uint8_t *k = hc_hex_decode(tok + 1, &n);
            v = aws_json_value_is_object(v) ? aws_json_value_get_from_object(v, aws_byte_cursor_from_array(k, n)) : NULL;
            free(k);
        } else if (tok[0] == 'i') {
            v = aws_json_value_is_array(v) ? aws_json_get_array_element(v, hc_parse_size(tok + 1)) : NULL;
        } else {
            v = NULL;
        }
    }
    aws_reset_error();
    return v;
}

static void s_del(const char *name, bool destroy) {
    int i = s_find(name);
    if (i >= 0) {
        if (destroy) {
            aws_json_value_destroy(s_slot[i].v);
        }
        s_slot[i].v = NULL;
    }
}

static void s_set(const char *name, struct aws_json_value *v) {
    HC_CHECK(v != NULL);
    HC_CHECK(strlen(name) < sizeof(s_slot[0].name));
    s_del(name, true);
    for (int i = 0; i < MAXSLOT; ++i) {
        if (!s_slot[i].v) {
            strcpy(s_slot[i].name, name);
            s_slot[i].v = v;
            return;
        }
    }
    HC_CHECK(!"out of slots");
}

static void s_reset(void) {
    s_buf_reset();
    for (int i = 0; i < MAXSLOT; ++i) {
        if (s_slot[i].v) {
            aws_json_value_destroy(s_slot[i].v);
            s_slot[i].v = NULL;
        }
    }
}

/* name of the error raised by the last call ("NONE" when the call did not raise one) */
static const char *s_raised(void) {
    int e = aws_last_error();
    return e == 0 ? "NONE" : aws_error_name(e);
}

static uint64_t s_bits(double d) {
    uint64_t b;
    memcpy(&b, &d, 8);
    return b;
}

/* ---- canonical dump through the public API ---- */
static void s_dump(const struct aws_json_value *v);
struct dump_ctx {
    size_t n;
};

static int s_on_member(const struct aws_byte_cursor *key, const struct aws_json_value *value, bool *out_continue, void *ud) {
    struct dump_ctx *c = ud;
    (void)out_continue;
    if (c->n++) {
        putchar(',');
    }
    hc_put_hex(key->ptr, key->len);
    putchar(':');
    s_dump(value);
    return AWS_OP_SUCCESS;
}

static int s_on_value(size_t idx, const struct aws_json_value *value, bool *out_continue, void *ud) {
    struct dump_ctx *c = ud;
    (void)out_continue;
    HC_CHECK(idx == c->n);
    if (c->n++) {
        putchar(',');
    }
    s_dump(value);
    return AWS_OP_SUCCESS;
}

static void s_dump(const struct aws_json_value *v) {
    int kinds = aws_json_value_is_null(v) + aws_json_value_is_boolean(v) + aws_json_value_is_number(v) +
                aws_json_value_is_string(v) + aws_json_value_is_array(v) + aws_json_value_is_object(v);
    if (kinds != 1) {
        printf("?kinds=%d", kinds);
        return;
    }
    if (aws_json_value_is_null(v)) {
        putchar('z');
    } else if (aws_json_value_is_boolean(v)) {
        bool b = false;
        HC_CHECK(aws_json_value_get_boolean(v, &b) == AWS_OP_SUCCESS);
        putchar(b ? 't' : 'f');
    } else if (aws_json_value_is_number(v)) {
        double d = 0;
        HC_CHECK(aws_json_value_get_number(v, &d) == AWS_OP_SUCCESS);
        printf("n%016llx", (unsigned long long)s_bits(d));
    } else if (aws_json_value_is_string(v)) {
        struct aws_byte_cursor c;
        HC_CHECK(aws_json_value_get_string(v, &c) == AWS_OP_SUCCESS);
        putchar('s');
        hc_put_hex(c.ptr, c.len);
    } else if (aws_json_value_is_array(v)) {
        struct dump_ctx c = {0};
        putchar('[');
        HC_CHECK(aws_json_const_iterate_array(v, s_on_value, &c) == AWS_OP_SUCCESS);
        HC_CHECK(c.n == aws_json_get_array_size(v));
        putchar(']');
    } else {
        struct dump_ctx c = {0};
        putchar('{');
        HC_CHECK(aws_json_const_iterate_object(v, s_on_member, &c) == AWS_OP_SUCCESS);
        putchar('}');
    }
}

/* ---- iteration with a callback that can stop or fail at a given invocation ---- */
struct iter_ctx {
    long stop, fail;
    size_t n;
};

static int s_iter_member(const struct aws_byte_cursor *key, const struct aws_json_value *value, bool *out_continue, void *ud) {
    struct iter_ctx *c = ud;
    if (c->n) {
        putchar(',');
    }
    hc_put_hex(key->ptr, key->len);
    putchar(':');
    s_dump(value);
    size_t i = c->n++;
    if (c->fail >= 0 && (size_t)c->fail == i) {
        return AWS_OP_ERR;
    }
    if (c->stop >= 0 && (size_t)c->stop == i) {
        *out_continue = false;
    }
    return AWS_OP_SUCCESS;
}

static int s_iter_value(size_t idx, const struct aws_json_value *value, bool *out_continue, void *ud) {
    struct iter_ctx *c = ud;
    if (idx != c->n) {
        printf("?idx=%zu", idx);
    }
    if (c->n) {
        putchar(',');
    }
    s_dump(value);
    size_t i = c->n++;
    if (c->fail >= 0 && (size_t)c->fail == i) {
        return AWS_OP_ERR;
    }
    if (c->stop >= 0 && (size_t)c->stop == i) {
        *out_continue = false;
    }
    return AWS_OP_SUCCESS;
}

static struct aws_byte_cursor s_cur(const char *hex, uint8_t **owned) {
    size_t n = 0;
    *owned = hc_hex_decode(hex, &n);
    return aws_byte_cursor_from_array(*owned, n);
}

static bool s_fmt(const char *s, bool *fmt) {
    if (!strcmp(s, "compact")) {
        *fmt = false;
        return true;
    }
    if (!strcmp(s, "formatted")) {
        *fmt = true;
        return true;
    }
    return false;
}

static void s_print_to(const struct aws_json_value *v, bool fmt, struct aws_byte_buf *out) {
    HC_CHECK(aws_byte_buf_init(out, hc_allocator(), 0) == AWS_OP_SUCCESS);
    int rc = fmt ? aws_byte_buf_append_json_string_formatted(v, out) : aws_byte_buf_append_json_string(v, out);
    HC_CHECK(rc == AWS_OP_SUCCESS);
}

int main(void) {
    char *t[HC_MAX_TOKS];
    int n;
    aws_common_library_init(hc_allocator());
    s_base_blocks = hc_live_blocks();
    while ((n = hc_next_line(t)) >= 0) {
        struct aws_allocator *al = hc_allocator();
        uint8_t *own = NULL;
        aws_reset_error();
        if (!strcmp(t[0], "case")) {
            s_reset();
            s_base_blocks = hc_live_blocks(); /* a leak is charged to the case that leaks, not to the ones after it */
            hc_case_begin(t[1]);
        } else if (!strncmp(t[0], "hint_", 5) && n == 3) {
            /* model side only */
        } else if (!strcmp(t[0], "new_obj") && n == 2) {
            s_set(t[1], aws_json_value_new_object(al));
        } else if (!strcmp(t[0], "new_arr") && n == 2) {
            s_set(t[1], aws_json_value_new_array(al));
        } else if (!strcmp(t[0], "null") && n == 2) {
            s_set(t[1], aws_json_value_new_null(al));
        } else if (!strcmp(t[0], "bool") && n == 3 && (!strcmp(t[2], "0") || !strcmp(t[2], "1"))) {
            s_set(t[1], aws_json_value_new_boolean(al, t[2][0] == '1'));
        } else if (!strcmp(t[0], "str") && n == 3) {
            s_set(t[1], aws_json_value_new_string(al, s_cur(t[2], &own)));
        } else if (!strcmp(t[0], "num_i") && n == 3) {
            s_set(t[1], aws_json_value_new_number(al, (double)hc_parse_i64(t[2])));
        } else if (!strcmp(t[0], "num_bits") && n == 3 && strlen(t[2]) == 16) {
            uint64_t b = strtoull(t[2], NULL, 16);
            double d;
            memcpy(&d, &b, 8);
            s_set(t[1], aws_json_value_new_number(al, d));
        } else if (!strcmp(t[0], "add") && n == 4 && s_ref(t[1]) && s_get(t[3]) && !s_root_is(t[1], t[3])) {
            int rc = aws_json_value_add_to_object(s_ref(t[1]), s_cur(t[2], &own), s_get(t[3]));
            if (rc == AWS_OP_SUCCESS) {
                printf("P add OK\n");
                s_del(t[3], false); /* now owned by the object */
            } else {
                printf("P add ERR %s\n", s_raised());
            }
        } else if (!strcmp(t[0], "arr_add") && n == 3 && s_ref(t[1]) && s_get(t[2]) && !s_root_is(t[1], t[2])) {
            int rc = aws_json_value_add_array_element(s_ref(t[1]), s_get(t[2]));
            if (rc == AWS_OP_SUCCESS) {
                printf("P arr_add OK\n");
                s_del(t[2], false);
            } else {
                printf("P arr_add ERR %s\n", s_raised());
            }
        } else if (!strcmp(t[0], "get") && n == 3 && s_ref(t[1])) {
            struct aws_json_value *r = aws_json_value_get_from_object(s_ref(t[1]), s_cur(t[2], &own));
            if (r) {
                printf("P get ");
                s_dump(r);
                printf("\n");
            } else {
                printf("P get NULL %s\n", s_raised());
            }
        } else if (!strcmp(t[0], "dupget") && n == 4 && s_ref(t[1]) && !s_root_is(t[1], t[3]) && s_plain(t[3])) {
            struct aws_json_value *r = aws_json_value_get_from_object(s_ref(t[1]), s_cur(t[2], &own));
            if (r) {
                s_set(t[3], aws_json_value_duplicate(r));
                printf("P dupget OK\n");
            } else {
                printf("P dupget NULL %s\n", s_raised());
            }
        } else if (!strcmp(t[0], "has") && n == 3 && s_ref(t[1])) {
            printf("P has %d\n", (int)aws_json_value_has_key(s_ref(t[1]), s_cur(t[2], &own)));
        } else if (!strcmp(t[0], "remove") && n == 3 && s_ref(t[1])) {
            int rc = aws_json_value_remove_from_object(s_ref(t[1]), s_cur(t[2], &own));
            if (rc == AWS_OP_SUCCESS) {
                printf("P remove OK\n");
            } else {
                printf("P remove ERR %s\n", s_raised());
            }
        } else if (!strcmp(t[0], "arr_get") && n == 3 && s_ref(t[1])) {
            struct aws_json_value *r = aws_json_get_array_element(s_ref(t[1]), hc_parse_size(t[2]));
            if (r) {
                printf("P arr_get ");
                s_dump(r);
                printf("\n");
            } else {
                printf("P arr_get NULL %s\n", s_raised());
            }
        } else if (!strcmp(t[0], "dupat") && n == 4 && s_ref(t[1]) && !s_root_is(t[1], t[3]) && s_plain(t[3])) {
            struct aws_json_value *r = aws_json_get_array_element(s_ref(t[1]), hc_parse_size(t[2]));
            if (r) {
                s_set(t[3], aws_json_value_duplicate(r));
                printf("P dupat OK\n");
            } else {
                printf("P dupat NULL %s\n", s_raised());
            }
        } else if (!strcmp(t[0], "arr_remove") && n == 3 && s_ref(t[1])) {
            int rc = aws_json_value_remove_array_element(s_ref(t[1]), hc_parse_size(t[2]));
            if (rc == AWS_OP_SUCCESS) {
                printf("P arr_remove OK\n");
            } else {
                printf("P arr_remove ERR %s\n", s_raised());
            }
        } else if (!strcmp(t[0], "arr_size") && n == 2 && s_ref(t[1])) {
            size_t sz = aws_json_get_array_size(s_ref(t[1]));
            printf("P arr_size %zu %s\n", sz, s_raised());
        } else if (!strcmp(t[0], "dup") && n == 3 && s_ref(t[1]) && !s_root_is(t[1], t[2]) && s_plain(t[2])) {
            s_set(t[2], aws_json_value_duplicate(s_ref(t[1])));
            printf("P dup OK\n");
        } else if (!strcmp(t[0], "cmp") && n == 4 && s_ref(t[1]) && s_ref(t[2]) && (!strcmp(t[3], "0") || !strcmp(t[3], "1"))) {
            printf("P cmp %d\n", (int)aws_json_value_compare(s_ref(t[1]), s_ref(t[2]), t[3][0] == '1'));
        } else if (!strcmp(t[0], "print") && n == 3 && s_ref(t[1]) && s_fmt(t[2], &(bool){0})) {
            bool fmt = false;
            struct aws_byte_buf out;
            s_fmt(t[2], &fmt);
            s_print_to(s_ref(t[1]), fmt, &out);
            HC_CHECK(memchr(out.buffer, 0, out.len) == NULL);
            printf("W text ");
            hc_put_hex(out.buffer, out.len);
            printf("\n");
            aws_byte_buf_clean_up(&out);
        } else if (!strcmp(t[0], "reparse") && n == 4 && s_ref(t[1]) && s_fmt(t[2], &(bool){0}) && !s_root_is(t[1], t[3]) && s_plain(t[3])) {
            bool fmt = false;
            struct aws_byte_buf out;
            s_fmt(t[2], &fmt);
            s_print_to(s_ref(t[1]), fmt, &out);
            /* exact-size copy without terminator: reading past the cursor is an ASan error */
            uint8_t *copy = malloc(out.len ? out.len : 1);
            memcpy(copy, out.buffer, out.len);
            struct aws_json_value *r = aws_json_value_new_from_string(al, aws_byte_cursor_from_array(copy, out.len));
            free(copy);
            aws_byte_buf_clean_up(&out);
            if (r) {
                s_set(t[3], r);
                printf("P reparse OK\n");
            } else {
                s_del(t[3], true);
                printf("P reparse NULL\n");
            }
        } else if (!strcmp(t[0], "parse") && n == 3 && s_plain(t[1])) {
            struct aws_json_value *r = aws_json_value_new_from_string(al, s_cur(t[2], &own));
            if (r) {
                s_set(t[1], r);
                printf("P parse OK\n");
            } else {
                s_del(t[1], true);
                printf("P parse NULL\n");
            }
        } else if (!strcmp(t[0], "dump") && n == 2 && s_ref(t[1])) {
            printf("P dump ");
            s_dump(s_ref(t[1]));
            printf("\n");
        } else if (!strcmp(t[0], "type") && n == 2 && s_ref(t[1])) {
            struct aws_json_value *v = s_ref(t[1]);
            struct aws_byte_cursor c;
            double d = 0;
            bool b = false;
            printf(
                "P type s=%d n=%d a=%d b=%d z=%d o=%d gs=",
                aws_json_value_is_string(v),
                aws_json_value_is_number(v),
                aws_json_value_is_array(v),
                aws_json_value_is_boolean(v),
                aws_json_value_is_null(v),
                aws_json_value_is_object(v));
            aws_reset_error();
            if (aws_json_value_get_string(v, &c) == AWS_OP_SUCCESS) {
                hc_put_hex(c.ptr, c.len);
            } else {
                printf("%s", s_raised());
            }
            aws_reset_error();
            if (aws_json_value_get_number(v, &d) == AWS_OP_SUCCESS) {
                printf(" gn=%016llx", (unsigned long long)s_bits(d));
            } else {
                printf(" gn=%s", s_raised());
            }
            aws_reset_error();
            if (aws_json_value_get_boolean(v, &b) == AWS_OP_SUCCESS) {
                printf(" gb=%d\n", (int)b);
            } else {
                printf(" gb=%s\n", s_raised());
            }
        } else if (!strcmp(t[0], "destroy") && n == 2 && s_get(t[1])) {
            s_del(t[1], true);
        } else if (!strcmp(t[0], "cstr_str") && n == 3) {
            /* aws_json_value_new_string_from_c_str on a temporary that is released right away: the value must own a copy */
            struct aws_byte_cursor c = s_cur(t[2], &own);
            size_t len = 0;
            while (len < c.len && c.ptr[len] != 0) {
                ++len;
            }
            char *tmp = malloc(len + 1);
            memcpy(tmp, c.ptr, len);
            tmp[len] = 0;
            struct aws_json_value *v = aws_json_value_new_string_from_c_str(al, tmp);
            memset(tmp, 0x5A, len + 1);
            free(tmp);
            s_set(t[1], v);
        } else if (!strcmp(t[0], "reinit") && n == 1) {
            bool any = false;
            for (int i = 0; i < MAXSLOT; ++i) {
                any = any || s_slot[i].v;
            }
            for (int i = 0; i < MAXBUF; ++i) {
                any = any || s_buf[i].used;
            }
            if (any) {
                printf("bad-op\n");
            } else {
                /* module shut down and brought up again: values created afterwards must work and be accounted */
                aws_json_module_cleanup();
                aws_json_module_init(al);
            }
        } else if (!strcmp(t[0], "iter") && n == 4 && s_ref(t[1]) && (!strcmp(t[2], "-") || (t[2][0] >= '0' && t[2][0] <= '9')) &&
                   (!strcmp(t[3], "-") || (t[3][0] >= '0' && t[3][0] <= '9'))) {
            struct aws_json_value *v = s_ref(t[1]);
            struct iter_ctx c = {.stop = strcmp(t[2], "-") ? atol(t[2]) : -1, .fail = strcmp(t[3], "-") ? atol(t[3]) : -1, .n = 0};
            /* items are printed by the callback while iterating; the header needs rc and count, so buffer via a second pass */
            char *mem = NULL;
            size_t memlen = 0;
            FILE *real = stdout;
            FILE *ms = open_memstream(&mem, &memlen);
            HC_CHECK(ms != NULL);
            fflush(stdout);
            stdout = ms;
            aws_reset_error();
            int rc = aws_json_value_is_array(v) ? aws_json_const_iterate_array(v, s_iter_value, &c)
                                                : aws_json_const_iterate_object(v, s_iter_member, &c);
            const char *raised = s_raised();
            fflush(ms);
            stdout = real;
            fclose(ms);
            if (rc == AWS_OP_SUCCESS) {
                printf("P iter OK n=%zu %s\n", c.n, mem ? mem : "");
            } else {
                printf("P iter ERR %s n=%zu %s\n", raised, c.n, mem ? mem : "");
            }
            free(mem);
        } else if (!strcmp(t[0], "buf") && n == 4 && !strchr(t[1], '/') && strlen(t[1]) < sizeof(s_buf[0].name)) {
            int i = s_buf_find(t[1]);
            if (i >= 0) {
                aws_byte_buf_clean_up(&s_buf[i].buf);
            } else {
                for (i = 0; i < MAXBUF && s_buf[i].used; ++i) {
                }
                HC_CHECK(i < MAXBUF);
            }
            strcpy(s_buf[i].name, t[1]);
            s_buf[i].used = true;
            s_buf[i].nseg = 0;
            HC_CHECK(aws_byte_buf_init(&s_buf[i].buf, al, hc_parse_size(t[2])) == AWS_OP_SUCCESS);
            struct aws_byte_cursor c = s_cur(t[3], &own);
            HC_CHECK(aws_byte_buf_append_dynamic(&s_buf[i].buf, &c) == AWS_OP_SUCCESS);
        } else if (!strcmp(t[0], "bufappend") && n == 3 && s_buf_find(t[1]) >= 0) {
            struct aws_byte_cursor c = s_cur(t[2], &own);
            HC_CHECK(aws_byte_buf_append_dynamic(&s_buf[s_buf_find(t[1])].buf, &c) == AWS_OP_SUCCESS);
        } else if (!strcmp(t[0], "printinto") && n == 4 && s_buf_find(t[1]) >= 0 && s_ref(t[2]) && s_fmt(t[3], &(bool){0})) {
            /* serialise into a buffer that already holds content (the API appends) */
            int i = s_buf_find(t[1]);
            bool fmt = false;
            s_fmt(t[3], &fmt);
            size_t before = s_buf[i].buf.len;
            int rc = fmt ? aws_byte_buf_append_json_string_formatted(s_ref(t[2]), &s_buf[i].buf)
                         : aws_byte_buf_append_json_string(s_ref(t[2]), &s_buf[i].buf);
            HC_CHECK(rc == AWS_OP_SUCCESS);
            HC_CHECK(s_buf[i].nseg < MAXSEG);
            s_buf[i].off[s_buf[i].nseg] = before;
            s_buf[i].len[s_buf[i].nseg++] = s_buf[i].buf.len - before;
            printf("P appended %zu %zu\n", before, s_buf[i].buf.len);
        } else if (!strcmp(t[0], "bufdump") && n == 2 && s_buf_find(t[1]) >= 0) {
            int i = s_buf_find(t[1]);
            printf("P buf ");
            hc_put_hex(s_buf[i].buf.buffer, s_buf[i].buf.len);
            printf("\n");
        } else if (!strcmp(t[0], "parseseg") && n == 4 && s_buf_find(t[1]) >= 0 && s_plain(t[3]) &&
                   (size_t)atol(t[2]) < s_buf[s_buf_find(t[1])].nseg && t[2][0] >= '0' && t[2][0] <= '9') {
            int i = s_buf_find(t[1]);
            size_t k = (size_t)atol(t[2]);
            /* exact-size copy of the document: reading past it is an ASan error */
            uint8_t *copy = malloc(s_buf[i].len[k] ? s_buf[i].len[k] : 1);
            memcpy(copy, s_buf[i].buf.buffer + s_buf[i].off[k], s_buf[i].len[k]);
            struct aws_json_value *r = aws_json_value_new_from_string(al, aws_byte_cursor_from_array(copy, s_buf[i].len[k]));
            free(copy);
            if (r) {
                s_set(t[3], r);
                printf("P parseseg OK\n");
            } else {
                s_del(t[3], true);
                printf("P parseseg NULL\n");
            }
        } else if (!strcmp(t[0], "end") && n == 1) {
            s_reset();
            printf("P balance %ld\n", hc_live_blocks() - s_base_blocks);
        } else {
            printf("bad-op\n");
        }
        free(own);
    }
    s_reset();
    aws_common_library_clean_up();
    return 0;
}
