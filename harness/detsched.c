/* detsched — deterministic serialising scheduler; interface and semantics: see detsched.h. */
#ifndef _GNU_SOURCE
#    define _GNU_SOURCE
#endif
#include "detsched.h"
#include <errno.h>
#include <pthread.h>
#include <sched.h>
#include <semaphore.h>
#include <setjmp.h>
#include <stdlib.h>
#include <string.h>
#include <time.h>

int __real_pthread_create(pthread_t *, const pthread_attr_t *, void *(*)(void *), void *);
int __real_pthread_join(pthread_t, void **);
int __real_pthread_detach(pthread_t);
int __real_pthread_mutex_lock(pthread_mutex_t *);
int __real_pthread_mutex_trylock(pthread_mutex_t *);
int __real_pthread_mutex_unlock(pthread_mutex_t *);
int __real_pthread_mutex_destroy(pthread_mutex_t *);
int __real_pthread_cond_wait(pthread_cond_t *, pthread_mutex_t *);
int __real_pthread_cond_timedwait(pthread_cond_t *, pthread_mutex_t *, const struct timespec *);
int __real_pthread_cond_signal(pthread_cond_t *);
int __real_pthread_cond_broadcast(pthread_cond_t *);
int __real_pthread_cond_destroy(pthread_cond_t *);
int __real_pthread_once(pthread_once_t *, void (*)(void));
int __real_clock_gettime(clockid_t, struct timespec *);
int __real_nanosleep(const struct timespec *, struct timespec *);
int __real_pthread_attr_init(pthread_attr_t *);
int __real_pthread_attr_setstacksize(pthread_attr_t *, size_t);
int __real_pthread_attr_getstacksize(const pthread_attr_t *, size_t *);
int __real_pthread_attr_setaffinity_np(pthread_attr_t *, size_t, const cpu_set_t *);

/* ------------------------------------------------------------------ state */
struct dobj {
    const void *addr;
    int live;
    int owner;      /* mutex: owning thread ordinal or -1; once: thread inside init or -1 */
    int once_state; /* 0 new, 1 in progress, 2 done */
};

struct dtab {
    struct dobj *v;
    int n, cap;
};

struct dthread {
    int ord;
    pthread_t tid;
    int real_created;
    sem_t sem;
    void *(*fn)(void *);
    void *arg;
    void *ret;
    int exited, detached, joined;
    /* posted operation */
    int has_op;
    int kind;
    int obj;  /* object ordinal (mutex for lock/unlock/wait/wake, cond for signal, thread for join...) */
    int obj2; /* wait/wake: condvar ordinal */
    int aux;
    int has_deadline;
    uint64_t deadline;
    /* condvar waiting */
    int woken, timedout;
    uint64_t wait_seq;
    int result;
    int fail_creates, fail_err; /* ds_fail_next_create */
    int fail_attr[DS_ATTR_COUNT]; /* ds_fail_next_attr: errno for the next call of that kind, 0 = none */
    int attr_faults;              /* injected pthread_attr_* failures this thread ran into */
};

static struct {
    int active;
    struct ds_config cfg;
    int *list;
    size_t list_len, pos;
    struct dthread *th[DS_MAX_THREADS];
    int nth;
    int cur;
    unsigned consec;
    struct dtab tab[4]; /* m c o a */
    struct ds_event *ev;
    size_t nev, capev;
    int *sched;
    size_t nsched, capsched;
    uint64_t now, rng, wait_seq;
    int deadlock, livelock, diverged, misuse;
    volatile int abort_flag;
    long steps, create_count, fail_at;
    int attr_faults;
    int fail_err;
    sem_t done;
    jmp_buf main_jmp;
} G = {.fail_at = -1};

static __thread struct dthread *ds_self_ptr;

static const char TAB_TYPES[4] = {'m', 'c', 'o', 'a'};
enum { T_MUTEX = 0, T_COND = 1, T_ONCE = 2, T_ATOM = 3 };

static void die(const char *msg) {
    fprintf(stderr, "detsched: %s\n", msg);
    fflush(NULL);
    abort();
}

static int obj_index(int type, const void *addr) {
    struct dtab *t = &G.tab[type];
    for (int i = t->n - 1; i >= 0; --i) {
        if (t->v[i].addr == addr && t->v[i].live) {
            return i;
        }
    }
    if (t->n == t->cap) {
        t->cap = t->cap ? t->cap * 2 : 16;
        t->v = realloc(t->v, (size_t)t->cap * sizeof(struct dobj));
        if (!t->v) {
            die("out of memory");
        }
    }
    t->v[t->n] = (struct dobj){.addr = addr, .live = 1, .owner = -1, .once_state = 0};
    return t->n++;
}

static void obj_forget(int type, const void *addr) {
    struct dtab *t = &G.tab[type];
    for (int i = t->n - 1; i >= 0; --i) {
        if (t->v[i].addr == addr && t->v[i].live) {
            t->v[i].live = 0;
            return;
        }
    }
}

static void log_event(int thread, int kind, char ot, int obj, int aux) {
    if (G.nev == G.capev) {
        G.capev = G.capev ? G.capev * 2 : 256;
        G.ev = realloc(G.ev, G.capev * sizeof(struct ds_event));
        if (!G.ev) {
            die("out of memory");
        }
    }
    G.ev[G.nev++] = (struct ds_event){.thread = thread, .kind = kind, .obj_type = ot, .obj = obj, .aux = aux, .time = G.now};
}

static void log_pick(int v) {
    if (G.nsched == G.capsched) {
        G.capsched = G.capsched ? G.capsched * 2 : 256;
        G.sched = realloc(G.sched, G.capsched * sizeof(int));
        if (!G.sched) {
            die("out of memory");
        }
    }
    G.sched[G.nsched++] = v;
}

static uint64_t rnd(void) {
    uint64_t x = G.rng;
    x ^= x >> 12;
    x ^= x << 25;
    x ^= x >> 27;
    G.rng = x;
    return x * 0x2545F4914F6CDD1DULL;
}

/* ------------------------------------------------------------------ enabledness, picking */
static int is_waiter(const struct dthread *t) {
    return t->has_op && t->kind == DS_WAKE && !t->woken && !t->timedout;
}

static int enabled(const struct dthread *t) {
    if (!t->has_op || t->exited) {
        return 0;
    }
    switch (t->kind) {
        case DS_LOCK:
            return G.tab[T_MUTEX].v[t->obj].owner == -1;
        case DS_WAKE:
            return (t->woken || t->timedout) && G.tab[T_MUTEX].v[t->obj].owner == -1;
        case DS_JOIN: {
            if (t->obj < 0 || t->obj == t->ord) {
                return 1; /* immediate error */
            }
            const struct dthread *x = G.th[t->obj];
            if (x->detached || x->joined) {
                return 1; /* immediate error */
            }
            return x->exited;
        }
        case DS_ONCE:
            return G.tab[T_ONCE].v[t->obj].once_state != 1;
        case DS_SLEEP:
            return G.now >= t->deadline;
        default:
            return 1;
    }
}

static void spurious_wake(int ord) {
    if (ord < 0 || ord >= G.nth || !is_waiter(G.th[ord])) {
        if (!G.diverged) {
            G.diverged = 1;
        }
        return;
    }
    G.th[ord]->woken = 1;
    log_pick(DS_SPURIOUS(ord));
    log_event(ord, DS_SPURIOUS_EV, 'c', G.th[ord]->obj2, 0);
}

static int nth_waiter(int k) { /* k-th (mod count) not-yet-woken waiter in ordinal order, -1 if none */
    int w[DS_MAX_THREADS], n = 0;
    for (int i = 0; i < G.nth; ++i) {
        if (is_waiter(G.th[i])) {
            w[n++] = i;
        }
    }
    return n ? w[k % n] : -1;
}

static void pre_entries(void) {
    if (G.cfg.mode == DS_EXPLICIT) {
        while (G.pos < G.list_len && (G.list[G.pos] & DS_SPURIOUS_FLAG)) {
            spurious_wake(G.list[G.pos] & ~DS_SPURIOUS_FLAG);
            G.pos++;
        }
    } else if (G.cfg.mode == DS_CHOICES) {
        while (G.pos < G.list_len && G.list[G.pos] < 0) {
            int w = nth_waiter(-G.list[G.pos] - 1);
            if (w >= 0) {
                spurious_wake(w);
            }
            G.pos++;
        }
    } else if (G.cfg.spurious_permille && rnd() % 1000 < G.cfg.spurious_permille) {
        int w = nth_waiter((int)(rnd() % 1024));
        if (w >= 0) {
            spurious_wake(w);
        }
    }
}

static int default_policy(const int *en, int n) {
    unsigned q = G.cfg.quantum ? G.cfg.quantum : 16;
    int first_after = -1, cur_enabled = 0;
    for (int i = 0; i < n; ++i) {
        if (en[i] == G.cur) {
            cur_enabled = 1;
        }
        if (first_after < 0 && en[i] > G.cur) {
            first_after = en[i];
        }
    }
    if (cur_enabled && G.consec < q) {
        G.consec++;
        return G.cur;
    }
    G.consec = 0;
    return first_after >= 0 ? first_after : en[0];
}

static void abort_run(struct dthread *self);

/* Returns the thread that makes the next step, or NULL when every thread has exited (or the run was
 * aborted by thread 0 after its own exit). */
static struct dthread *pick(struct dthread *self) {
    long maxs = G.cfg.max_steps ? G.cfg.max_steps : 1000000;
    if (++G.steps > maxs) {
        G.livelock = 1;
        abort_run(self);
        return NULL;
    }
    pre_entries();
    int en[DS_MAX_THREADS], n;
    for (;;) {
        int alive = 0;
        n = 0;
        for (int i = 0; i < G.nth; ++i) {
            struct dthread *t = G.th[i];
            if (t->exited) {
                continue;
            }
            alive++;
            if (t->has_op && t->kind == DS_WAKE && !t->woken && !t->timedout && t->has_deadline && t->deadline <= G.now) {
                t->timedout = 1;
            }
            if (enabled(t)) {
                en[n++] = i;
            }
        }
        if (n > 0) {
            break;
        }
        if (alive == 0) {
            return NULL;
        }
        int have = 0;
        uint64_t best = 0;
        for (int i = 0; i < G.nth; ++i) {
            struct dthread *t = G.th[i];
            if (t->exited || !t->has_op) {
                continue;
            }
            int d = (t->kind == DS_SLEEP) || (is_waiter(t) && t->has_deadline);
            if (d && (!have || t->deadline < best)) {
                have = 1;
                best = t->deadline;
            }
        }
        if (!have) {
            G.deadlock = 1;
            abort_run(self);
            return NULL;
        }
        if (best > G.now) {
            G.now = best;
        }
    }
    int c = -1;
    if (G.cfg.mode == DS_SEED) {
        int self_en = 0;
        for (int i = 0; i < n; ++i) {
            self_en |= (en[i] == G.cur);
        }
        if (G.cfg.stay_pct && self_en && rnd() % 100 < G.cfg.stay_pct) {
            c = G.cur;
        } else {
            c = en[rnd() % (uint64_t)n];
        }
        G.consec = 0;
    } else if (G.pos < G.list_len) {
        int k = G.list[G.pos++];
        if (G.cfg.mode == DS_EXPLICIT) {
            for (int i = 0; i < n; ++i) {
                if (en[i] == k) {
                    c = k;
                }
            }
            if (c < 0) {
                G.diverged = 1;
            }
        } else if (k > 0) {
            c = en[(k - 1) % n];
        }
        if (c >= 0) {
            G.consec = 0;
        }
    }
    if (c < 0) {
        c = default_policy(en, n);
    }
    G.cur = c;
    log_pick(c);
    return G.th[c];
}

static void bail(struct dthread *self) {
    if (self->ord == 0) {
        longjmp(G.main_jmp, 1);
    }
    pthread_exit(NULL);
}

static void wait_baton(struct dthread *self) {
    while (sem_wait(&self->sem) != 0) {
    }
    if (G.abort_flag) {
        bail(self);
    }
}

/* deadlock / livelock: wake every parked thread so that it unwinds; unwind ourselves */
static void abort_run(struct dthread *self) {
    G.abort_flag = 1;
    int main_exited = G.th[0]->exited;
    for (int i = 0; i < G.nth; ++i) {
        struct dthread *t = G.th[i];
        if (t != self && !t->exited) {
            sem_post(&t->sem);
        }
    }
    if (self->ord == 0) {
        if (!self->exited) {
            longjmp(G.main_jmp, 1);
        }
        return; /* thread 0 in its final hand-off: ds_run continues with the clean-up */
    }
    if (main_exited) {
        sem_post(&G.done);
    }
    pthread_exit(NULL);
}

/* ------------------------------------------------------------------ effects */
static int apply(struct dthread *t) {
    struct dobj *m;
    int r = 0;
    t->has_op = 0;
    switch (t->kind) {
        case DS_START:
            log_event(t->ord, DS_START, '-', -1, 0);
            break;
        case DS_EXIT:
            t->exited = 1;
            log_event(t->ord, DS_EXIT, '-', -1, 0);
            break;
        case DS_CREATE:
            if (t->fail_creates > 0 || G.create_count == G.fail_at) {
                r = t->fail_creates > 0 ? t->fail_err : G.fail_err;
                if (t->fail_creates > 0) {
                    t->fail_creates--;
                }
                G.create_count++;
                t->obj = -1;
                log_event(t->ord, DS_CREATE, 't', -1, r);
            } else {
                G.create_count++;
                if (G.nth == DS_MAX_THREADS) {
                    die("too many threads");
                }
                struct dthread *n = calloc(1, sizeof(*n));
                if (!n) {
                    die("out of memory");
                }
                n->ord = G.nth;
                sem_init(&n->sem, 0, 0);
                n->has_op = 1;
                n->kind = DS_START;
                n->obj = n->obj2 = -1;
                G.th[G.nth++] = n;
                t->obj = n->ord;
                log_event(t->ord, DS_CREATE, 't', n->ord, 0);
            }
            break;
        case DS_JOIN:
            if (t->obj < 0) {
                r = ESRCH; /* not the id of a thread created under the scheduler (e.g. an unset pthread_t) */
                G.misuse++;
            } else if (t->obj == t->ord) {
                r = EDEADLK; /* as glibc: an error code for the caller to handle, not a misuse of the scheduler */
            } else if (G.th[t->obj]->detached || G.th[t->obj]->joined) {
                r = EINVAL;
                G.misuse++;
            } else {
                G.th[t->obj]->joined = 1;
            }
            log_event(t->ord, DS_JOIN, 't', t->obj, r);
            break;
        case DS_DETACH:
            if (t->obj < 0) {
                r = ESRCH;
            } else if (G.th[t->obj]->detached || G.th[t->obj]->joined) {
                r = EINVAL;
                G.misuse++;
            } else {
                G.th[t->obj]->detached = 1;
            }
            log_event(t->ord, DS_DETACH, 't', t->obj, r);
            break;
        case DS_LOCK:
            G.tab[T_MUTEX].v[t->obj].owner = t->ord;
            log_event(t->ord, DS_LOCK, 'm', t->obj, 0);
            break;
        case DS_TRYLOCK:
            m = &G.tab[T_MUTEX].v[t->obj];
            if (m->owner == -1) {
                m->owner = t->ord;
            } else {
                r = EBUSY;
            }
            log_event(t->ord, DS_TRYLOCK, 'm', t->obj, r);
            break;
        case DS_UNLOCK:
            m = &G.tab[T_MUTEX].v[t->obj];
            if (m->owner != t->ord) {
                r = EPERM;
                G.misuse++;
            } else {
                m->owner = -1;
            }
            log_event(t->ord, DS_UNLOCK, 'm', t->obj, r);
            break;
        case DS_WAIT:
            m = &G.tab[T_MUTEX].v[t->obj];
            if (m->owner != t->ord) {
                r = EPERM;
                G.misuse++;
            } else {
                m->owner = -1;
                t->woken = t->timedout = 0;
                t->wait_seq = ++G.wait_seq;
            }
            log_event(t->ord, DS_WAIT, 'c', t->obj2, r);
            break;
        case DS_WAKE:
            G.tab[T_MUTEX].v[t->obj].owner = t->ord;
            r = t->woken ? 0 : ETIMEDOUT;
            t->woken = t->timedout = 0;
            log_event(t->ord, DS_WAKE, 'c', t->obj2, r);
            break;
        case DS_SIGNAL: {
            struct dthread *best = NULL;
            for (int i = 0; i < G.nth; ++i) {
                struct dthread *w = G.th[i];
                if (is_waiter(w) && w->obj2 == t->obj && (!best || w->wait_seq < best->wait_seq)) {
                    best = w;
                }
            }
            if (best) {
                best->woken = 1;
            }
            log_event(t->ord, DS_SIGNAL, 'c', t->obj, best ? best->ord : -1);
            break;
        }
        case DS_BROADCAST: {
            int k = 0;
            for (int i = 0; i < G.nth; ++i) {
                struct dthread *w = G.th[i];
                if (is_waiter(w) && w->obj2 == t->obj) {
                    w->woken = 1;
                    k++;
                }
            }
            log_event(t->ord, DS_BROADCAST, 'c', t->obj, k);
            break;
        }
        case DS_ONCE:
            m = &G.tab[T_ONCE].v[t->obj];
            if (m->once_state == 0) {
                m->once_state = 1;
                m->owner = t->ord;
                r = 1; /* the caller runs the init routine */
            }
            log_event(t->ord, DS_ONCE, 'o', t->obj, r);
            break;
        case DS_SLEEP:
            log_event(t->ord, DS_SLEEP, '-', -1, 0);
            break;
        case DS_ATOMIC:
            log_event(t->ord, DS_ATOMIC, 'a', t->obj, t->aux);
            break;
        case DS_YIELD:
            log_event(t->ord, DS_YIELD, '-', -1, t->aux);
            break;
        case DS_CREATE_RET:
            log_event(t->ord, DS_CREATE_RET, 't', t->obj, 0);
            break;
        default:
            die("bad op");
    }
    t->result = r;
    return r;
}

/* post the operation already filled into self, give up the baton, perform the op when chosen */
static int ds_point(struct dthread *self) {
    self->has_op = 1;
    struct dthread *n = pick(self);
    if (n != self) {
        if (!n) {
            die("no thread to run although the caller is alive");
        }
        sem_post(&n->sem);
        wait_baton(self);
    }
    return apply(self);
}

static void post(struct dthread *t, int kind, int obj, int obj2, int aux) {
    t->kind = kind;
    t->obj = obj;
    t->obj2 = obj2;
    t->aux = aux;
    t->has_deadline = 0;
    t->deadline = 0;
}

static void final_handoff(struct dthread *self) {
    struct dthread *n = pick(self);
    if (G.abort_flag) {
        return;
    }
    if (n) {
        sem_post(&n->sem);
    } else {
        sem_post(&G.done);
    }
}

static struct dthread *scheduled_self(void) {
    return G.active ? ds_self_ptr : NULL;
}

static int find_thread(pthread_t tid) {
    for (int i = 0; i < G.nth; ++i) {
        if (G.th[i]->real_created && pthread_equal(G.th[i]->tid, tid)) {
            return i;
        }
    }
    return -1;
}

static void *trampoline(void *p) {
    struct dthread *t = p;
    ds_self_ptr = t;
    wait_baton(t);
    apply(t); /* start */
    t->ret = t->fn(t->arg);
    post(t, DS_EXIT, -1, -1, 0);
    ds_point(t);
    final_handoff(t);
    return t->ret;
}

/* ------------------------------------------------------------------ wrappers */
int __wrap_pthread_create(pthread_t *th, const pthread_attr_t *attr, void *(*fn)(void *), void *arg) {
    struct dthread *s = scheduled_self();
    if (!s) {
        return __real_pthread_create(th, attr, fn, arg);
    }
    post(s, DS_CREATE, -1, -1, 0);
    int r = ds_point(s);
    if (r) {
        return r;
    }
    struct dthread *n = G.th[s->obj];
    n->fn = fn;
    n->arg = arg;
    pthread_attr_t a;
    __real_pthread_attr_init(&a);
    if (attr) {
        size_t ss = 0;
        if (__real_pthread_attr_getstacksize(attr, &ss) == 0 && ss >= 65536) {
            __real_pthread_attr_setstacksize(&a, ss);
        }
    }
    int rr = __real_pthread_create(&n->tid, &a, trampoline, n);
    pthread_attr_destroy(&a);
    if (rr) {
        die("real pthread_create failed");
    }
    n->real_created = 1;
    *th = n->tid;
    if (G.cfg.create_return_point) {
        /* the new thread may run (even finish) before pthread_create returns to its caller */
        post(s, DS_CREATE_RET, n->ord, -1, 0);
        ds_point(s);
    }
    return 0;
}

int __wrap_pthread_join(pthread_t tid, void **ret) {
    struct dthread *s = scheduled_self();
    if (!s) {
        return __real_pthread_join(tid, ret);
    }
    int target = find_thread(tid);
    post(s, DS_JOIN, target, -1, 0);
    int r = ds_point(s);
    if (!r && ret) {
        *ret = G.th[target]->ret;
    }
    return r;
}

int __wrap_pthread_detach(pthread_t tid) {
    struct dthread *s = scheduled_self();
    if (!s) {
        return __real_pthread_detach(tid);
    }
    post(s, DS_DETACH, find_thread(tid), -1, 0);
    return ds_point(s);
}

int __wrap_pthread_mutex_lock(pthread_mutex_t *m) {
    struct dthread *s = scheduled_self();
    if (!s) {
        return __real_pthread_mutex_lock(m);
    }
    post(s, DS_LOCK, obj_index(T_MUTEX, m), -1, 0);
    return ds_point(s);
}

int __wrap_pthread_mutex_trylock(pthread_mutex_t *m) {
    struct dthread *s = scheduled_self();
    if (!s) {
        return __real_pthread_mutex_trylock(m);
    }
    post(s, DS_TRYLOCK, obj_index(T_MUTEX, m), -1, 0);
    return ds_point(s);
}

int __wrap_pthread_mutex_unlock(pthread_mutex_t *m) {
    struct dthread *s = scheduled_self();
    if (!s) {
        return __real_pthread_mutex_unlock(m);
    }
    post(s, DS_UNLOCK, obj_index(T_MUTEX, m), -1, 0);
    return ds_point(s);
}

int __wrap_pthread_mutex_destroy(pthread_mutex_t *m) {
    if (!scheduled_self()) {
        return __real_pthread_mutex_destroy(m);
    }
    obj_forget(T_MUTEX, m);
    return 0;
}

static int cond_wait_common(struct dthread *s, pthread_cond_t *c, pthread_mutex_t *m, const struct timespec *abs) {
    int mi = obj_index(T_MUTEX, m), ci = obj_index(T_COND, c);
    post(s, DS_WAIT, mi, ci, 0);
    int r = ds_point(s);
    if (r) {
        return r;
    }
    post(s, DS_WAKE, mi, ci, 0);
    if (abs) {
        s->has_deadline = 1;
        s->deadline = (uint64_t)abs->tv_sec * 1000000000ULL + (uint64_t)abs->tv_nsec;
    }
    return ds_point(s);
}

int __wrap_pthread_cond_wait(pthread_cond_t *c, pthread_mutex_t *m) {
    struct dthread *s = scheduled_self();
    if (!s) {
        return __real_pthread_cond_wait(c, m);
    }
    return cond_wait_common(s, c, m, NULL);
}

int __wrap_pthread_cond_timedwait(pthread_cond_t *c, pthread_mutex_t *m, const struct timespec *abs) {
    struct dthread *s = scheduled_self();
    if (!s) {
        return __real_pthread_cond_timedwait(c, m, abs);
    }
    return cond_wait_common(s, c, m, abs);
}

int __wrap_pthread_cond_signal(pthread_cond_t *c) {
    struct dthread *s = scheduled_self();
    if (!s) {
        return __real_pthread_cond_signal(c);
    }
    post(s, DS_SIGNAL, obj_index(T_COND, c), -1, 0);
    ds_point(s);
    return 0;
}

int __wrap_pthread_cond_broadcast(pthread_cond_t *c) {
    struct dthread *s = scheduled_self();
    if (!s) {
        return __real_pthread_cond_broadcast(c);
    }
    post(s, DS_BROADCAST, obj_index(T_COND, c), -1, 0);
    ds_point(s);
    return 0;
}

int __wrap_pthread_cond_destroy(pthread_cond_t *c) {
    if (!scheduled_self()) {
        return __real_pthread_cond_destroy(c);
    }
    obj_forget(T_COND, c);
    return 0;
}

int __wrap_pthread_once(pthread_once_t *o, void (*init)(void)) {
    struct dthread *s = scheduled_self();
    if (!s) {
        return __real_pthread_once(o, init);
    }
    int oi = obj_index(T_ONCE, o);
    post(s, DS_ONCE, oi, -1, 0);
    if (ds_point(s) == 1) {
        /* no other scheduled thread can be inside the real pthread_once of this flag now, so this does
         * not block; the real flag keeps "already initialised before ds_run" correct */
        __real_pthread_once(o, init);
        G.tab[T_ONCE].v[oi].once_state = 2;
        G.tab[T_ONCE].v[oi].owner = -1;
    }
    return 0;
}

/* pthread_attr_*: no schedule point (purely local calls); only the failure injection of ds_fail_next_attr */
static int attr_fault(int which) {
    struct dthread *s = scheduled_self();
    if (s && s->fail_attr[which]) {
        int e = s->fail_attr[which];
        s->fail_attr[which] = 0;
        G.attr_faults++;
        s->attr_faults++;
        return e;
    }
    return 0;
}
int __wrap_pthread_attr_init(pthread_attr_t *a) {
    int e = attr_fault(DS_ATTR_INIT);
    return e ? e : __real_pthread_attr_init(a);
}
int __wrap_pthread_attr_setstacksize(pthread_attr_t *a, size_t n) {
    int e = attr_fault(DS_ATTR_SETSTACKSIZE);
    return e ? e : __real_pthread_attr_setstacksize(a, n);
}
int __wrap_pthread_attr_getstacksize(const pthread_attr_t *a, size_t *n) {
    int e = attr_fault(DS_ATTR_GETSTACKSIZE);
    return e ? e : __real_pthread_attr_getstacksize(a, n);
}
int __wrap_pthread_attr_setaffinity_np(pthread_attr_t *a, size_t n, const cpu_set_t *c) {
    int e = attr_fault(DS_ATTR_SETAFFINITY);
    return e ? e : __real_pthread_attr_setaffinity_np(a, n, c);
}

int __wrap_clock_gettime(clockid_t id, struct timespec *ts) {
    if (!scheduled_self()) {
        return __real_clock_gettime(id, ts);
    }
    G.now += G.cfg.clock_tick_ns;
    ts->tv_sec = (time_t)(G.now / 1000000000ULL);
    ts->tv_nsec = (long)(G.now % 1000000000ULL);
    return 0;
}

int __wrap_nanosleep(const struct timespec *req, struct timespec *rem) {
    struct dthread *s = scheduled_self();
    if (!s) {
        return __real_nanosleep(req, rem);
    }
    post(s, DS_SLEEP, -1, -1, 0);
    s->deadline = G.now + (uint64_t)req->tv_sec * 1000000000ULL + (uint64_t)req->tv_nsec;
    ds_point(s);
    if (rem) {
        rem->tv_sec = 0;
        rem->tv_nsec = 0;
    }
    return 0;
}

/* schedule point for atomics (verif_atomics.h); weak so that a harness without detsched threads can
 * supply its own (C15 does) */
__attribute__((weak)) void verif_sched_point(int kind, const volatile void *addr) {
    struct dthread *s = scheduled_self();
    if (!s) {
        return;
    }
    post(s, DS_ATOMIC, obj_index(T_ATOM, (const void *)addr), -1, kind);
    ds_point(s);
}

/* ------------------------------------------------------------------ API */
static void free_run_state(void) {
    for (int i = 0; i < G.nth; ++i) {
        sem_destroy(&G.th[i]->sem);
        free(G.th[i]);
        G.th[i] = NULL;
    }
    G.nth = 0;
    for (int k = 0; k < 4; ++k) {
        G.tab[k].n = 0;
    }
    G.nev = 0;
    G.nsched = 0;
}

void ds_init(const struct ds_config *cfg) {
    if (G.active) {
        die("ds_init inside ds_run");
    }
    free_run_state();
    free(G.list);
    G.list = NULL;
    G.cfg = *cfg;
    G.list_len = 0;
    if (cfg->mode != DS_SEED && cfg->list_len) {
        G.list = malloc(cfg->list_len * sizeof(int));
        if (!G.list) {
            die("out of memory");
        }
        memcpy(G.list, cfg->list, cfg->list_len * sizeof(int));
        G.list_len = cfg->list_len;
    }
    G.cfg.list = G.list;
    G.fail_at = -1;
    G.attr_faults = 0;
    G.deadlock = G.livelock = G.diverged = G.misuse = 0;
}

int ds_run(void (*main_fn)(void *), void *arg) {
    if (G.active) {
        die("ds_run is not re-entrant");
    }
    free_run_state();
    G.pos = 0;
    G.cur = 0;
    G.consec = 0;
    G.steps = 0;
    G.create_count = 0;
    G.wait_seq = 0;
    G.abort_flag = 0;
    G.deadlock = G.livelock = G.diverged = G.misuse = 0;
    G.now = G.cfg.start_ns ? G.cfg.start_ns : 1000000000ULL;
    G.rng = (G.cfg.seed + 0x9E3779B97F4A7C15ULL) * 0xBF58476D1CE4E5B9ULL;
    if (!G.rng) {
        G.rng = 1;
    }
    for (int i = 0; i < 4; ++i) {
        rnd();
    }
    sem_init(&G.done, 0, 0);
    struct dthread *t0 = calloc(1, sizeof(*t0));
    if (!t0) {
        die("out of memory");
    }
    sem_init(&t0->sem, 0, 0);
    t0->tid = pthread_self();
    t0->real_created = 1;
    t0->has_op = 1;
    t0->kind = DS_START;
    t0->obj = t0->obj2 = -1;
    G.th[0] = t0;
    G.nth = 1;
    ds_self_ptr = t0;
    G.active = 1;
    if (setjmp(G.main_jmp) == 0) {
        if (pick(t0) != t0) {
            die("thread 0 not picked first");
        }
        apply(t0);
        main_fn(arg);
        post(t0, DS_EXIT, -1, -1, 0);
        ds_point(t0);
        final_handoff(t0);
        if (!G.abort_flag) {
            while (sem_wait(&G.done) != 0) {
            }
        }
    }
    /* every carrier thread either returned from its trampoline or is unwinding through pthread_exit */
    for (int i = 1; i < G.nth; ++i) {
        if (G.th[i]->real_created) {
            __real_pthread_join(G.th[i]->tid, NULL);
        }
    }
    G.active = 0;
    ds_self_ptr = NULL;
    sem_destroy(&G.done);
    return G.deadlock ? 1 : G.livelock ? 2 : 0;
}

int ds_deadlocked(void) {
    return G.deadlock;
}
int ds_livelocked(void) {
    return G.livelock;
}
int ds_diverged(void) {
    return G.diverged;
}
int ds_misuse_count(void) {
    return G.misuse;
}
int ds_thread_state(int ord) {
    if (ord < 0 || ord >= G.nth) {
        return -1;
    }
    return (G.th[ord]->exited ? DS_TS_EXITED : 0) | (G.th[ord]->joined ? DS_TS_JOINED : 0) |
           (G.th[ord]->detached ? DS_TS_DETACHED : 0);
}
const void *ds_object_addr(char type, int ord) {
    for (int k = 0; k < 4; ++k) {
        if (TAB_TYPES[k] == type && ord >= 0 && ord < G.tab[k].n) {
            return G.tab[k].v[ord].addr;
        }
    }
    return NULL;
}
int ds_thread_count(void) {
    return G.nth;
}
int ds_self_ordinal(void) {
    struct dthread *s = scheduled_self();
    return s ? s->ord : -1;
}
uint64_t ds_now(void) {
    return G.now;
}
void ds_advance_time(uint64_t ns) {
    G.now += ns;
}
void ds_yield(int tag) {
    struct dthread *s = scheduled_self();
    if (!s) {
        return;
    }
    post(s, DS_YIELD, -1, -1, tag);
    ds_point(s);
}
void ds_fail_next_create(int count, int err) {
    struct dthread *s = scheduled_self();
    if (s) {
        s->fail_creates = count;
        s->fail_err = err;
    }
}
void ds_fail_next_attr(int which, int err) {
    struct dthread *s = scheduled_self();
    if (s && which >= 0 && which < DS_ATTR_COUNT) {
        s->fail_attr[which] = err;
    }
}
int ds_attr_fault_count(void) {
    struct dthread *s = scheduled_self();
    return s ? s->attr_faults : G.attr_faults;
}
void ds_inject_create_failure(long n, int err) {
    G.fail_at = n;
    G.fail_err = err;
}
size_t ds_event_count(void) {
    return G.nev;
}
const struct ds_event *ds_event_at(size_t i) {
    return i < G.nev ? &G.ev[i] : NULL;
}

static const char *KIND_NAMES[DS_KIND_COUNT] = {"start",  "exit", "create", "join",      "detach", "lock",  "trylock", "unlock", "wait",
                                                "wake",   "signal", "broadcast", "once", "sleep",  "atomic", "yield",  "spurious", "created"};

const char *ds_kind_name(int kind) {
    return (kind >= 0 && kind < DS_KIND_COUNT) ? KIND_NAMES[kind] : "?";
}

void ds_format_event(const struct ds_event *e, char *buf, size_t n) {
    if (e->obj_type == '-') {
        snprintf(buf, n, "t%d %s - %d", e->thread, ds_kind_name(e->kind), e->aux);
    } else {
        snprintf(buf, n, "t%d %s %c%d %d", e->thread, ds_kind_name(e->kind), e->obj_type, e->obj, e->aux);
    }
}

void ds_dump_events(FILE *f) {
    for (size_t i = 0; i < G.nev; ++i) {
        const struct ds_event *e = &G.ev[i];
        if (e->obj_type == '-') {
            fprintf(f, "E %zu t%d %s - aux=%d @%llu\n", i, e->thread, ds_kind_name(e->kind), e->aux, (unsigned long long)e->time);
        } else {
            fprintf(
                f, "E %zu t%d %s %c%d aux=%d @%llu\n", i, e->thread, ds_kind_name(e->kind), e->obj_type, e->obj, e->aux,
                (unsigned long long)e->time);
        }
    }
}

size_t ds_schedule(const int **list) {
    if (list) {
        *list = G.sched;
    }
    return G.nsched;
}

void ds_describe_blocked(char *buf, size_t n) {
    size_t off = 0;
    if (n) {
        buf[0] = 0;
    }
    for (int i = 0; i < G.nth && off + 1 < n; ++i) {
        struct dthread *t = G.th[i];
        if (t->exited || !t->has_op) {
            continue;
        }
        char ot = (t->kind == DS_JOIN) ? 't' : (t->kind == DS_WAKE) ? 'c' : (t->kind == DS_ONCE) ? 'o' : 'm';
        int ob = (t->kind == DS_WAKE) ? t->obj2 : t->obj;
        int w;
        if (t->kind == DS_JOIN || t->kind == DS_WAKE || t->kind == DS_ONCE || t->kind == DS_LOCK) {
            w = snprintf(buf + off, n - off, "%st%d:%s %c%d", off ? " " : "", t->ord, ds_kind_name(t->kind), ot, ob);
        } else {
            w = snprintf(buf + off, n - off, "%st%d:%s", off ? " " : "", t->ord, ds_kind_name(t->kind));
        }
        if (w < 0) {
            break;
        }
        off += (size_t)w;
    }
}
