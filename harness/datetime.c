/* C19 harness: drives aws_date_time formatting / parsing / accessors / epoch views through an op
 * file.  Run with TZ=UTC.  Ops (optional leading token "w": print every line of the op as class W):
 *   fmt <secs> <rfc822|iso8601|iso8601_basic|auto> <full|short> [cap]
 *   parse <hex text> <rfc822|iso8601|iso8601_basic|auto>     (on success: fields, W zone line, epoch views)
 *   rt <secs> <fmt> <full|short> <parse fmt>
 *   acc <secs> <ms>        aws_date_time_init_epoch_secs(secs + ms/1000.0)
 *   accd <16 hex digits>   aws_date_time_init_epoch_secs of the double with this bit pattern
 *   millis <u64>           aws_date_time_init_epoch_millis
 *   lfmt <off> <zone hex> <secs> <fmt> <full|short>   local-time formatters (off / zone describe TZ for the model)
 *   diff <a> <b>           aws_date_time_diff
 *   now                    aws_date_time_init_now checked against the wall clock
 *   fmtb <cap> <prefix hex> (<secs> <fmt> <full|short>)+
 *                          the timestamps are formatted one after the other into ONE aws_byte_buf of capacity cap
 *                          that already holds the prefix (a '/' is pushed between them when there is room); after
 *                          each call: rc, len and the bytes [0,len); then every appended range is parsed back (auto)
 */
#include "h_common.h"
#include <aws/common/byte_buf.h>
#include <aws/common/date_time.h>
#include <stdlib.h>
#include <string.h>
#include <time.h>

static char s_cls = 'P';

static int s_fmt(const char *s) {
    if (!strcmp(s, "rfc822")) return AWS_DATE_FORMAT_RFC822;
    if (!strcmp(s, "iso8601")) return AWS_DATE_FORMAT_ISO_8601;
    if (!strcmp(s, "iso8601_basic")) return AWS_DATE_FORMAT_ISO_8601_BASIC;
    if (!strcmp(s, "auto")) return AWS_DATE_FORMAT_AUTO_DETECT;
    return -1;
}

static int s_short(const char *s) {
    if (!strcmp(s, "full")) return 0;
    if (!strcmp(s, "short")) return 1;
    return -1;
}

static void s_fields(const struct aws_date_time *dt) {
    printf(
        "ts=%lld ms=%u y=%u mon=%d d=%u wd=%d h=%u mi=%u s=%u dst=%d\n",
        (long long)dt->timestamp,
        (unsigned)dt->milliseconds,
        (unsigned)aws_date_time_year(dt, false),
        (int)aws_date_time_month(dt, false),
        (unsigned)aws_date_time_month_day(dt, false),
        (int)aws_date_time_day_of_week(dt, false),
        (unsigned)aws_date_time_hour(dt, false),
        (unsigned)aws_date_time_minute(dt, false),
        (unsigned)aws_date_time_second(dt, false),
        aws_date_time_dst(dt, false) ? 1 : 0);
}

static void s_views(const struct aws_date_time *dt) {
    double d = aws_date_time_as_epoch_secs(dt);
    uint64_t bits;
    memcpy(&bits, &d, 8);
    printf(
        "%c views millis=%llu nanos=%llu secs=%016llx\n",
        s_cls,
        (unsigned long long)aws_date_time_as_millis(dt),
        (unsigned long long)aws_date_time_as_nanos(dt),
        (unsigned long long)bits);
}

/* formats into an exact-size heap block of cap bytes (ASan red zone right behind it); returns the
 * block (caller frees) and the length, or NULL on error (line already printed) */
static uint8_t *s_do_fmt(long long secs, int fmt, int sh, size_t cap, size_t *out_len) {
    struct aws_date_time dt;
    aws_date_time_init_epoch_secs(&dt, (double)secs);
    uint8_t *mem = malloc(cap ? cap : 1);
    HC_CHECK(mem != NULL);
    memset(mem, 0xA5, cap ? cap : 1);
    struct aws_byte_buf buf = aws_byte_buf_from_empty_array(mem, cap);
    int rc = sh ? aws_date_time_to_utc_time_short_str(&dt, (enum aws_date_format)fmt, &buf)
                : aws_date_time_to_utc_time_str(&dt, (enum aws_date_format)fmt, &buf);
    if (rc != AWS_OP_SUCCESS) {
        printf("%c fmt %s\n", s_cls, hc_last_error_name());
        free(mem);
        return NULL;
    }
    HC_CHECK(buf.len <= cap && buf.buffer == mem);
    printf("%c fmt OK ", s_cls);
    hc_put_hex(buf.buffer, buf.len);
    printf("\n");
    *out_len = buf.len;
    return mem;
}

static void s_do_parse(const uint8_t *text, size_t len, int fmt) {
    /* exact-size copy so that any read past the text is an ASan report */
    uint8_t *copy = malloc(len ? len : 1);
    HC_CHECK(copy != NULL);
    memcpy(copy, text, len);
    struct aws_byte_cursor cur = aws_byte_cursor_from_array(copy, len);
    struct aws_date_time dt;
    memset(&dt, 0x5A, sizeof(dt));
    int rc = aws_date_time_init_from_str_cursor(&dt, &cur, (enum aws_date_format)fmt);
    if (rc != AWS_OP_SUCCESS) {
        printf("%c parse %s\n", s_cls, hc_last_error_name());
    } else {
        printf("%c parse OK ", s_cls);
        s_fields(&dt);
        size_t tzl = strnlen(dt.tz, sizeof(dt.tz));
        printf("W utc=%d tz=", dt.utc_assumed ? 1 : 0);
        hc_put_hex((const uint8_t *)dt.tz, tzl);
        printf("\n");
        s_views(&dt); /* epoch views of the parsed instant */
    }
    free(copy);
}

#define FMTB_MAX 16

static void s_do_fmtb(size_t cap, const uint8_t *pre, size_t pre_len, int nsteps, char **st) {
    /* exact-size block: a write past the capacity is an ASan report */
    uint8_t *mem = malloc(cap ? cap : 1);
    HC_CHECK(mem != NULL);
    memset(mem, 0xA5, cap ? cap : 1);
    memcpy(mem, pre, pre_len);
    struct aws_byte_buf buf = aws_byte_buf_from_empty_array(mem, cap);
    buf.len = pre_len;
    size_t starts[FMTB_MAX], ends[FMTB_MAX];
    int nok = 0;
    for (int i = 0; i < nsteps; ++i) {
        int f = s_fmt(st[3 * i + 1]), sh = s_short(st[3 * i + 2]);
        if (i > 0 && buf.len < buf.capacity) {
            buf.buffer[buf.len++] = '/';
        }
        struct aws_date_time dt;
        aws_date_time_init_epoch_secs(&dt, (double)hc_parse_i64(st[3 * i]));
        size_t before = buf.len;
        int rc = sh ? aws_date_time_to_utc_time_short_str(&dt, (enum aws_date_format)f, &buf)
                    : aws_date_time_to_utc_time_str(&dt, (enum aws_date_format)f, &buf);
        HC_CHECK(buf.capacity == cap && (cap == 0 || buf.buffer == mem)); /* a zero-capacity aws_byte_buf has a NULL buffer */
        size_t shown = buf.len <= cap ? buf.len : cap;
        printf("%c fmtb %s len=%zu data=", s_cls, rc == AWS_OP_SUCCESS ? "OK" : hc_last_error_name(), buf.len);
        hc_put_hex(buf.buffer, shown);
        printf("\n");
        if (rc == AWS_OP_SUCCESS) {
            starts[nok] = before;
            ends[nok] = buf.len;
            ++nok;
        }
        if (buf.len > cap) {
            buf.len = cap; /* keep going without leaving the block */
        }
    }
    for (int k = 0; k < nok; ++k) {
        if (starts[k] > ends[k] || ends[k] > cap) {
            printf("%c fmtb bad-range start=%zu end=%zu\n", s_cls, starts[k], ends[k]);
        } else {
            s_do_parse(mem + starts[k], ends[k] - starts[k], AWS_DATE_FORMAT_AUTO_DETECT);
        }
    }
    free(mem);
}

int main(void) {
    char *tt[HC_MAX_TOKS];
    int n;
    aws_common_library_init(hc_allocator());
    while ((n = hc_next_line(tt)) >= 0) {
        char **t = tt;
        s_cls = 'P';
        if (!strcmp(t[0], "case")) {
            hc_case_begin(t[1]);
            continue;
        }
        if (!strcmp(t[0], "w") && n >= 2) {
            s_cls = 'W';
            ++t;
            --n;
        }
        if (!strcmp(t[0], "fmt") && (n == 4 || n == 5)) {
            int f = s_fmt(t[2]), sh = s_short(t[3]);
            if (f < 0 || sh < 0) {
                printf("bad-op\n");
                continue;
            }
            size_t len = 0;
            uint8_t *m = s_do_fmt(hc_parse_i64(t[1]), f, sh, n == 5 ? hc_parse_size(t[4]) : 100, &len);
            free(m);
        } else if (!strcmp(t[0], "parse") && n == 3) {
            int f = s_fmt(t[2]);
            size_t len = 0;
            uint8_t *text = hc_hex_decode(t[1], &len);
            if (f < 0 || text == NULL) {
                printf("bad-op\n");
                free(text);
                continue;
            }
            s_do_parse(text, len, f);
            free(text);
        } else if (!strcmp(t[0], "rt") && n == 5) {
            int f = s_fmt(t[2]), sh = s_short(t[3]), pf = s_fmt(t[4]);
            if (f < 0 || sh < 0 || pf < 0) {
                printf("bad-op\n");
                continue;
            }
            size_t len = 0;
            uint8_t *m = s_do_fmt(hc_parse_i64(t[1]), f, sh, 100, &len);
            if (m) {
                s_do_parse(m, len, pf);
                free(m);
            }
        } else if (!strcmp(t[0], "fmtb") && n >= 6 && (n - 3) % 3 == 0 && (n - 3) / 3 <= FMTB_MAX) {
            size_t cap = hc_parse_size(t[1]), pl = 0;
            uint8_t *pre = hc_hex_decode(t[2], &pl);
            int ns = (n - 3) / 3, bad = pre == NULL || pl > cap;
            for (int i = 0; i < ns && !bad; ++i) {
                bad = s_fmt(t[3 + 3 * i + 1]) < 0 || s_short(t[3 + 3 * i + 2]) < 0;
            }
            if (bad) {
                printf("bad-op\n");
            } else {
                s_do_fmtb(cap, pre, pl, ns, t + 3);
            }
            free(pre);
        } else if (!strcmp(t[0], "lfmt") && n == 6) {
            /* t[1], t[2] describe the process zone for the model; here the real TZ applies */
            int f = s_fmt(t[4]), sh = s_short(t[5]);
            if (f < 0 || sh < 0) {
                printf("bad-op\n");
                continue;
            }
            struct aws_date_time dt;
            aws_date_time_init_epoch_secs(&dt, (double)hc_parse_i64(t[3]));
            uint8_t *mem = malloc(100);
            HC_CHECK(mem != NULL);
            struct aws_byte_buf buf = aws_byte_buf_from_empty_array(mem, 100);
            int rc = sh ? aws_date_time_to_local_time_short_str(&dt, (enum aws_date_format)f, &buf)
                        : aws_date_time_to_local_time_str(&dt, (enum aws_date_format)f, &buf);
            if (rc != AWS_OP_SUCCESS) {
                printf("%c lfmt %s\n", s_cls, hc_last_error_name());
            } else {
                printf("%c lfmt OK ", s_cls);
                hc_put_hex(buf.buffer, buf.len);
                printf("\n");
            }
            free(mem);
        } else if (!strcmp(t[0], "diff") && n == 3) {
            struct aws_date_time a, b;
            aws_date_time_init_epoch_secs(&a, (double)hc_parse_i64(t[1]));
            aws_date_time_init_epoch_secs(&b, (double)hc_parse_i64(t[2]));
            printf("%c diff %lld\n", s_cls, (long long)aws_date_time_diff(&a, &b));
        } else if (!strcmp(t[0], "now") && n == 1) {
            /* aws_date_time_init_now against the wall clock: the instant within a few seconds, ms < 1000, the
             * broken-down UTC time that of the timestamp, the epoch views consistent */
            time_t w0 = time(NULL);
            struct aws_date_time dt;
            aws_date_time_init_now(&dt);
            time_t w1 = time(NULL);
            struct tm g;
            time_t ts = dt.timestamp;
            gmtime_r(&ts, &g);
            bool ok = dt.timestamp >= w0 - 2 && dt.timestamp <= w1 + 2 && dt.milliseconds < 1000 &&
                      aws_date_time_year(&dt, false) == (uint16_t)(g.tm_year + 1900) &&
                      (int)aws_date_time_month(&dt, false) == g.tm_mon && aws_date_time_month_day(&dt, false) == g.tm_mday &&
                      aws_date_time_hour(&dt, false) == g.tm_hour && aws_date_time_minute(&dt, false) == g.tm_min &&
                      aws_date_time_second(&dt, false) == g.tm_sec && (int)aws_date_time_day_of_week(&dt, false) == g.tm_wday &&
                      aws_date_time_as_millis(&dt) == (uint64_t)dt.timestamp * 1000U + dt.milliseconds &&
                      aws_date_time_as_nanos(&dt) == aws_date_time_as_millis(&dt) * 1000000U;
            if (ok) {
                printf("%c now ok\n", s_cls);
            } else {
                printf("%c now BAD ts=%lld ms=%u wall=%lld..%lld\n", s_cls, (long long)dt.timestamp, (unsigned)dt.milliseconds,
                       (long long)w0, (long long)w1);
            }
        } else if (!strcmp(t[0], "acc") && n == 3) {
            long long secs = hc_parse_i64(t[1]);
            unsigned long ms = strtoul(t[2], NULL, 10);
            if (ms >= 1000) {
                printf("bad-op\n");
                continue;
            }
            struct aws_date_time dt;
            memset(&dt, 0x5A, sizeof(dt)); /* stale contents must not show through */
            aws_date_time_init_epoch_secs(&dt, (double)secs + (double)ms / 1000.0);
            printf("%c acc ", s_cls);
            s_fields(&dt);
            s_views(&dt);
        } else if (!strcmp(t[0], "accd") && n == 2) {
            /* the double is given by its bit pattern; only finite, non-negative values below 2^63 */
            char *end = NULL;
            unsigned long long bits = strtoull(t[1], &end, 16);
            unsigned ex = (unsigned)((bits >> 52) & 0x7FF);
            if (strlen(t[1]) != 16 || *end != 0 || (bits >> 63) != 0 || ex == 2047 || ex > 1085) {
                printf("bad-op\n");
                continue;
            }
            double d;
            memcpy(&d, &bits, 8);
            struct aws_date_time dt;
            memset(&dt, 0x5A, sizeof(dt));
            aws_date_time_init_epoch_secs(&dt, d);
            printf("%c acc ", s_cls);
            s_fields(&dt);
            s_views(&dt);
        } else if (!strcmp(t[0], "millis") && n == 2) {
            struct aws_date_time dt;
            memset(&dt, 0x5A, sizeof(dt)); /* stale contents must not show through */
            aws_date_time_init_epoch_millis(&dt, hc_parse_u64(t[1]));
            printf("%c acc ", s_cls);
            s_fields(&dt);
            s_views(&dt);
        } else {
            printf("bad-op\n");
        }
    }
    return 0;
}
