#!/usr/bin/env python3
"""Writes MANIFEST.json from props/*.py metadata (MANIFEST dict in each plug-in) so it is always valid."""
import importlib, json, os, sys, glob
sys.path.insert(0, os.path.dirname(os.path.abspath(__file__)))
ALL = [f"C{i:02d}" for i in range(1, 21)]
checks, na = [], []
for pid in ALL:
    try:
        m = importlib.import_module("props." + pid.lower())
    except ModuleNotFoundError:
        na.append({"property_id": pid, "reason": "not yet claimed: model/check under construction (see DESIGN.md section 5 for the plan)"})
        continue
    if getattr(m, "NOT_CLAIMED", None):
        na.append({"property_id": pid, "reason": m.NOT_CLAIMED}); continue
    mf = m.MANIFEST
    checks.append({
        "property_id": pid,
        "quick_cmd": f"python3 check.py {pid} --tier quick",
        "thorough_cmd": f"python3 check.py {pid} --tier thorough",
        "evidence_file": f"/verif/evidence/{pid}.json",
        "replay_cmd_template": f"python3 check.py {pid} --replay {{path}}",
        "engine": "lean4-proof+correspondence",
        "level_claimed": {"category": mf.get("category", "proof"), "text": mf["text"], "design_ref": mf.get("design_ref", "")},
        "level_note": mf["note"],
        "technique": mf.get("technique", "Lean 4 theorems about an executable model + model-vs-implementation correspondence run"),
    })
man = {
    "version": 1,
    "setup_cmd": "cd /verif && python3 -m lib.regen_all && cd lean && lake build && cd /verif && python3 -m lib.cbuild asan && python3 -m lib.cbuild debug && python3 -m lib.cbuild plain",
    "hooks": {"guard": "AWS_C_COMMON_VERIF", "enable": "no source hooks: harnesses compile /repo sources directly (lib/cbuild.py), with -include harness/verif_atomics.h and -Wl,--wrap where schedule points are needed",
              "baseline_off_cmd": "cmake --build /repo/_build && ctest --test-dir /repo/_build -j8 --timeout 900", "source_commits": [], "add_only": True},
    "engines": [{"name": "lean4-proof+correspondence", "path": "/verif/check.py",
                 "serves_properties": [c["property_id"] for c in checks],
                 "kind_free_text": "Lean 4 (kernel-checked theorems over executable models, axiom audit) + differential correspondence between the compiled Lean model driver and C harnesses built from /repo's working tree"}],
    "checks": checks,
    "not_applicable": na,
    "notes": "See DESIGN.md. One entry point: python3 check.py <id> --tier quick|thorough [--replay file].",
}
json.dump(man, open(os.path.join(os.path.dirname(os.path.abspath(__file__)), "MANIFEST.json"), "w"), indent=1)
print("checks:", [c["property_id"] for c in checks])
