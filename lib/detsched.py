"""Build helpers for harnesses that run under harness/detsched.c (DESIGN.md 4.4).

    from lib import detsched
    HARNESS = dict(name="threads", flavour="asan", extra_srcs=[detsched.SRC], ldflags=detsched.LDFLAGS)

--wrap is applied by the linker to every undefined reference, including those inside libawsc.a's
members, so the library needs no special compilation (checked by harness/detsched_selftest.c, test
`library-calls-are-wrapped`).  Sources that need atomics as schedule points are added to extra_srcs
with ["-include", detsched.ATOMICS_H].

`python3 -m lib.detsched` builds and runs the self-test.
"""
import os, subprocess, sys
from . import cbuild

# must equal DS_WRAPPED_FUNCTIONS in harness/detsched.h
WRAPPED = ("pthread_create pthread_join pthread_detach pthread_mutex_lock pthread_mutex_trylock pthread_mutex_unlock "
           "pthread_mutex_destroy pthread_cond_wait pthread_cond_timedwait pthread_cond_signal pthread_cond_broadcast "
           "pthread_cond_destroy pthread_once clock_gettime nanosleep "
           "pthread_attr_init pthread_attr_setstacksize pthread_attr_getstacksize pthread_attr_setaffinity_np").split()
LDFLAGS = ["-Wl,--wrap=" + f for f in WRAPPED]
SRC = (os.path.join(cbuild.VERIF, "harness", "detsched.c"), [], "detsched")
ATOMICS_H = os.path.join(cbuild.VERIF, "harness", "verif_atomics.h")


def selftest(flavour="asan"):
    """returns (ok, output)"""
    exe = cbuild.build_harness("detsched_selftest", flavour=flavour, extra_srcs=[SRC], ldflags=LDFLAGS)
    env = dict(os.environ)
    env.setdefault("ASAN_OPTIONS", "detect_leaks=1:abort_on_error=0")
    r = subprocess.run([exe], stdout=subprocess.PIPE, stderr=subprocess.STDOUT, text=True, timeout=300, env=env)
    return r.returncode == 0 and "SELFTEST PASS" in r.stdout, r.stdout


if __name__ == "__main__":
    ok, out = selftest(sys.argv[1] if len(sys.argv) > 1 else "asan")
    print(out)
    sys.exit(0 if ok else 1)
