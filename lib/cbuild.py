"""Build /repo's current working tree (and harnesses) into /verif/.cache, keyed by content hash.

Nothing here trusts /repo/_build's objects: every library object is compiled from the source
files found under /repo/source *now*.  Only the cmake-generated config.h is reused (fallback:
harness/config_fallback/aws/common/config.h).
"""
import hashlib, os, subprocess, sys, glob, shutil
from concurrent.futures import ThreadPoolExecutor

VERIF = os.path.dirname(os.path.dirname(os.path.abspath(__file__)))
REPO = os.environ.get("VERIF_REPO", "/repo")
CACHE = os.path.join(VERIF, ".cache")
GUARD = "AWS_C_COMMON_VERIF"

DEFINES = ["-DAWS_AFFINITY_METHOD=AWS_AFFINITY_METHOD_PTHREAD_ATTR", "-DAWS_PTHREAD_GETNAME_TAKES_3ARGS",
           "-DAWS_PTHREAD_SETNAME_TAKES_2ARGS", "-DCJSON_HIDE_SYMBOLS", "-DHAVE_SYSCONF",
           "-DINTEL_NO_ITTNOTIFY_API", "-D_POSIX_C_SOURCE=200809L", "-D_XOPEN_SOURCE=500", "-D" + GUARD]
BASE = ["-std=gnu99", "-fno-omit-frame-pointer", "-fPIC", "-w"]

SAN = ["-fsanitize=address,undefined",
       "-fno-sanitize-recover=address,bounds,pointer-overflow,null,alignment,object-size,vla-bound",
       "-fno-sanitize=signed-integer-overflow,float-cast-overflow,shift"]

FLAVOURS = {
    # name: (cc, cflags, defines-extra, ldflags)
    "asan":  ("gcc", ["-O1", "-g", "-DNDEBUG"] + SAN, ["-DUSE_SIMD_ENCODING"], SAN),
    "plain": ("gcc", ["-O2", "-g", "-DNDEBUG"], ["-DUSE_SIMD_ENCODING"], []),
    "debug": ("gcc", ["-O1", "-g", "-DDEBUG_BUILD"] + SAN, ["-DUSE_SIMD_ENCODING"], SAN),
}


def config_include():
    p = os.path.join(REPO, "_build", "generated", "include")
    if os.path.exists(os.path.join(p, "aws", "common", "config.h")):
        return p
    return os.path.join(VERIF, "harness", "config_fallback")


def includes():
    return ["-I" + os.path.join(REPO, "source", "external", "libcbor"), "-I" + os.path.join(REPO, "include"),
            "-I" + config_include(), "-I" + os.path.join(VERIF, "harness")]


def lib_sources():
    s = []
    for pat in ["source/*.c", "source/posix/*.c", "source/linux/*.c", "source/arch/intel/*.c",
                "source/arch/intel/asm/*.c", "source/external/*.c", "source/external/libcbor/*.c",
                "source/external/libcbor/cbor/*.c", "source/external/libcbor/cbor/internal/*.c"]:
        s += sorted(glob.glob(os.path.join(REPO, pat)))
    return s


def tree_hash():
    h = hashlib.sha256()
    files = []
    for root in ["source", "include"]:
        for d, _, fs in os.walk(os.path.join(REPO, root)):
            for f in fs:
                if f.endswith((".c", ".h", ".inl", ".in")):
                    files.append(os.path.join(d, f))
    files.append(os.path.join(config_include(), "aws", "common", "config.h"))
    for f in sorted(files):
        h.update(f.encode())
        with open(f, "rb") as fh:
            h.update(hashlib.sha256(fh.read()).digest())
    return h.hexdigest()[:20]


def _run(cmd):
    r = subprocess.run(cmd, stdout=subprocess.PIPE, stderr=subprocess.STDOUT, text=True)
    return r.returncode, r.stdout


class BuildError(Exception):
    pass


def _prune_cache(keep):
    """Keep the cache small: at most 3 tree-hash directories."""
    if not os.path.isdir(CACHE):
        return
    ds = [os.path.join(CACHE, d) for d in os.listdir(CACHE) if d.startswith("t-")]
    ds.sort(key=lambda p: os.path.getmtime(p), reverse=True)
    for d in ds[3:]:
        if os.path.basename(d) != keep:
            shutil.rmtree(d, ignore_errors=True)


def build_lib(flavour, extra_cflags=(), tag=""):
    """Compile every library source of /repo in the given flavour; returns path of the archive."""
    cc, cflags, dextra, _ = FLAVOURS[flavour]
    th = tree_hash()
    key = hashlib.sha256((flavour + tag + " ".join(extra_cflags)).encode()).hexdigest()[:8]
    outdir = os.path.join(CACHE, "t-" + th, flavour + tag + "-" + key)
    lib = os.path.join(outdir, "libawsc.a")
    if os.path.exists(lib):
        os.utime(os.path.join(CACHE, "t-" + th))
        return lib
    os.makedirs(outdir, exist_ok=True)
    _prune_cache("t-" + th)
    srcs = lib_sources()
    jobs = []
    for s in srcs:
        o = os.path.join(outdir, os.path.relpath(s, REPO).replace("/", "_") + ".o")
        fl = list(cflags) + list(extra_cflags)
        if s.endswith("encoding_avx2.c"):
            fl += ["-mavx", "-mavx2"]
        jobs.append(([cc] + BASE + fl + DEFINES + dextra + includes() + ["-c", s, "-o", o], o))

    def comp(j):
        rc, out = _run(j[0])
        return rc, out, j

    with ThreadPoolExecutor(16) as ex:
        res = list(ex.map(comp, jobs))
    bad = [(out, j) for rc, out, j in res if rc != 0]
    if bad:
        shutil.rmtree(outdir, ignore_errors=True)
        raise BuildError("library does not compile: " + bad[0][1][0][-3] + "\n" + bad[0][0][-3000:])
    tmp = lib + ".tmp"
    rc, out = _run(["ar", "rcs", tmp] + [j[1] for j in jobs])
    if rc != 0:
        raise BuildError(out)
    os.replace(tmp, lib)
    return lib


def build_harness(name, flavour="asan", extra_srcs=(), extra_cflags=(), ldflags=(), lib_extra_cflags=(), lib_tag="",
                  with_lib=True):
    """Compile harness/<name>.c (+ extra sources: (path, [flags], objname)) and link against the library.
    Returns path of the executable.  Cached on tree hash + harness source hash."""
    cc, cflags, dextra, ld = FLAVOURS[flavour]
    th = tree_hash()
    h = hashlib.sha256()
    hsrc = [os.path.join(VERIF, "harness", name + ".c")] + sorted(glob.glob(os.path.join(VERIF, "harness", "*.h")))
    for f in hsrc + [e[0] for e in extra_srcs]:
        with open(f, "rb") as fh:
            h.update(fh.read())
    h.update(repr((flavour, extra_srcs, extra_cflags, ldflags, lib_extra_cflags, lib_tag)).encode())
    outdir = os.path.join(CACHE, "t-" + th, "h-" + name + "-" + h.hexdigest()[:10])
    exe = os.path.join(outdir, name)
    if os.path.exists(exe):
        return exe
    os.makedirs(outdir, exist_ok=True)
    objs = []
    jobs = [([cc] + BASE + list(cflags) + list(extra_cflags) + DEFINES + dextra + includes() +
             ["-c", hsrc[0], "-o", os.path.join(outdir, name + ".o")], os.path.join(outdir, name + ".o"))]
    hc = os.path.join(VERIF, "harness", "h_common.c")
    if os.path.exists(hc):
        jobs.append(([cc] + BASE + list(cflags) + list(extra_cflags) + DEFINES + dextra + includes() +
                     ["-c", hc, "-o", os.path.join(outdir, "h_common.o")], os.path.join(outdir, "h_common.o")))
    for (src, fl, oname) in extra_srcs:
        o = os.path.join(outdir, oname + ".o")
        jobs.append(([cc] + BASE + list(cflags) + DEFINES + includes() + list(fl) + ["-c", src, "-o", o], o))
    with ThreadPoolExecutor(8) as ex:
        res = list(ex.map(lambda j: (_run(j[0]), j), jobs))
    for (rc, out), j in res:
        if rc != 0:
            shutil.rmtree(outdir, ignore_errors=True)
            raise BuildError("harness/source does not compile: " + " ".join(j[0][-4:]) + "\n" + out[-4000:])
        objs.append(j[1])
    link = [cc] + objs
    if with_lib:
        link.append(build_lib(flavour, lib_extra_cflags, lib_tag))
    link += list(ld) + list(ldflags) + ["-lpthread", "-ldl", "-lm", "-o", exe + ".tmp"]
    rc, out = _run(link)
    if rc != 0:
        shutil.rmtree(outdir, ignore_errors=True)
        raise BuildError("link failed:\n" + out[-4000:])
    os.replace(exe + ".tmp", exe)
    return exe


if __name__ == "__main__":
    import time
    t = time.time()
    print(build_lib(sys.argv[1] if len(sys.argv) > 1 else "asan"), round(time.time() - t, 1), "s")
