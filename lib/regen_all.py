"""Run every plug-in's regen() so that lean/AwsVerif/Gen/*.lean exist before the first `lake build`
(used by MANIFEST.setup_cmd; the generated files are never committed)."""
import glob, importlib, os, sys
sys.path.insert(0, os.path.dirname(os.path.dirname(os.path.abspath(__file__))))
from lib import core


class _Ctx:
    """stand-in for core.Ctx outside a check run: attributes a regen() may look at default to None"""
    tier = "quick"; seed = 1; notes = []; replay = None

    def __getattr__(self, name):
        return None

    def note(self, *a, **k):
        pass


def main():
    rc = 0
    for f in sorted(glob.glob(os.path.join(core.VERIF, "props", "c[0-9][0-9].py"))):
        m = importlib.import_module("props." + os.path.basename(f)[:-3])
        if hasattr(m, "regen"):
            try:
                m.regen(_Ctx())
                print("regen", m.ID, "ok")
            except Exception as e:   # noqa
                print("regen", m.ID, "FAILED:", e)
                rc = 1
    return rc


if __name__ == "__main__":
    sys.exit(main())
