"""Core of the checker: Lean stage (regenerate, build, audit), correspondence stage (C harness vs
compiled Lean driver on the same op file), verdicts, replay files, known findings, evidence.

A property plug-in (props/cNN.py) supplies:
  ID                 "C15"
  LEAN_MODULES       ["AwsVerif.Props.C15"]            theorems of these modules are the obligations
  COMPONENT          "ring"                             awsmodel component name (None: no model stream)
  HARNESS            dict(name="ring", flavour="asan", ...)   kwargs of cbuild.build_harness (None: no C stream)
  gen_cases(rng, tier) -> list[Case]                    structured cases (Case.ops = list of lines)
  optional: regen(ctx) -> None                          rewrite lean/AwsVerif/Gen/*.lean from /repo (may raise GenError)
  optional: oracle(case, c_lines) -> list[str]          direct property oracle on the implementation's output only
  optional: extra_stages(ctx) -> None                   anything else (variants, threads, …) using ctx.report_*
  optional: classify(case, detail) -> finding id|None   match against known_findings.json signatures
  optional: nontrivial(case) -> bool ; TRUSTED, ASSUMPTIONS, RULE (strings)
"""
import json, os, random, re, subprocess, sys, time, hashlib, shutil
from concurrent.futures import ThreadPoolExecutor
from . import cbuild

VERIF = cbuild.VERIF
LEAN = os.path.join(VERIF, "lean")
REPLAYS = os.path.join(VERIF, "replays")
EVID = os.path.join(VERIF, "evidence")
ALLOWED_AXIOMS = {"propext", "Quot.sound", "Classical.choice"}
FORBIDDEN = re.compile(r"\bsorry\b|\badmit\b|^\s*axiom\s|native_decide|bv_decide|implemented_by|\bunsafe\s|maxHeartbeats\s+0\b|Lean\.ofReduceBool|\bpartial\s+def\b")


class GenError(Exception):
    """translator rejected the source (a broken correspondence of the generated layer)"""


class Case:
    __slots__ = ("ops", "tags", "name")

    def __init__(self, ops, tags=None, name=None):
        self.ops = list(ops)
        self.tags = tags or {}
        self.name = name


def sh(cmd, cwd=None, timeout=None, input=None, env=None):
    try:
        r = subprocess.run(cmd, cwd=cwd, stdout=subprocess.PIPE, stderr=subprocess.STDOUT, text=True, timeout=timeout,
                           input=input, env=env, errors="replace")
        return r.returncode, r.stdout
    except subprocess.TimeoutExpired as e:
        out = e.stdout or ""
        if isinstance(out, bytes):
            out = out.decode(errors="replace")
        return -999, out + "\n[timeout]"


def strip_comments(text):
    """remove Lean comments (nested block comments and line comments) and string literals"""
    out, i, n, depth = [], 0, len(text), 0
    while i < n:
        if text.startswith("/-", i):
            depth += 1; i += 2; continue
        if depth and text.startswith("-/", i):
            depth -= 1; i += 2; continue
        if depth:
            if text[i] == "\n":
                out.append("\n")
            i += 1; continue
        if text.startswith("--", i):
            while i < n and text[i] != "\n":
                i += 1
            continue
        if text[i] == '"':
            i += 1
            while i < n and text[i] != '"':
                i += 2 if text[i] == "\\" else 1
            i += 1; out.append('""'); continue
        out.append(text[i]); i += 1
    return "".join(out)


def lean_sources_for(modules):
    """transitive closure of project-local imports (files under lean/) of the given modules"""
    seen, todo = {}, list(modules)
    while todo:
        m = todo.pop()
        if m in seen:
            continue
        p = os.path.join(LEAN, m.replace(".", "/") + ".lean")
        if not os.path.exists(p):
            continue
        txt = open(p).read()
        seen[m] = p
        for mm in re.findall(r"^\s*(?:public\s+)?import\s+([A-Za-z0-9_.]+)", txt, re.M):
            if mm.startswith(("AwsVerif", "Driver")):
                todo.append(mm)
    return seen


class Ctx:
    def __init__(self, plugin, tier, seed, replay=None):
        self.p = plugin
        self.pid = plugin.ID
        self.tier = tier
        self.seed = seed
        self.rng = random.Random(seed * 1000003 + int(hashlib.sha256(plugin.ID.encode()).hexdigest()[:6], 16))
        self.t0 = time.time()
        self.violations = []      # (kind, text, replay_path, no_input)
        self.known = []           # (finding_id, text)
        self.broken = []          # machinery failures (not property violations)
        self.cov = {"samples": [], "evaluations": 0, "distinct_nontrivial": 0}
        self.theorems = {}
        self.lean_ok = None
        self.lean_err = ""
        self.findings = load_findings()
        self.replay = replay
        self.notes = []

    # ---- reporting ----
    def write_replay(self, name, obj):
        os.makedirs(REPLAYS, exist_ok=True)
        path = os.path.join(REPLAYS, f"{self.pid}-{name}.json")
        obj = dict(obj)
        obj.setdefault("property", self.pid)
        obj.setdefault("seed", self.seed)
        obj.setdefault("replay_cmd", f"python3 check.py {self.pid} --replay {path}")
        with open(path, "w") as f:
            json.dump(obj, f, indent=1)
        return path

    def violation(self, name, obj, text, no_input=False, finding=None):
        """record a violation; if it matches an open known finding it is only listed"""
        if finding:
            f = self.findings.get(finding)
            if f and f.get("status") == "open" and f.get("property") == self.pid:
                if finding not in [k[0] for k in self.known]:
                    self.known.append((finding, f.get("text", text)))
                return False
        path = self.write_replay(name, dict(obj, what=text, no_failing_input_found=no_input))
        self.violations.append((name, text, path, no_input))
        return True

    def machinery_broken(self, text):
        self.broken.append(text)


def load_findings():
    p = os.path.join(VERIF, "known_findings.json")
    if not os.path.exists(p):
        return {}
    with open(p) as f:
        d = json.load(f)
    return {e["id"]: e for e in d.get("findings", [])}


# ---------------------------------------------------------------- Lean stage
def write_if_changed(path, content):
    os.makedirs(os.path.dirname(path), exist_ok=True)
    if os.path.exists(path) and open(path).read() == content:
        return False
    with open(path, "w") as f:
        f.write(content)
    return True


def lake_build(targets, timeout=3000):
    return sh(["lake", "build"] + list(targets), cwd=LEAN, timeout=timeout)


_audit_re = re.compile(r"^THEOREM (\S+) AXIOMS ?(.*)$")


def lean_stage(ctx):
    p = ctx.p
    gen_err = None
    if hasattr(p, "regen"):
        try:
            p.regen(ctx)
        except GenError as e:
            gen_err = str(e)
    mods = list(getattr(p, "LEAN_MODULES", []))
    targets = mods + ([getattr(p, "DRIVER_EXE", "awsmodel")] if getattr(p, "COMPONENT", None) or getattr(p, "NEEDS_DRIVER", False) else [])
    ok, err = True, ""
    if gen_err:
        ok, err = False, "translator: " + gen_err
    if ok and targets:
        rc, out = lake_build(targets)
        if rc != 0:
            ok = False
            lines = [l for l in out.splitlines() if "error" in l.lower()]
            err = "\n".join(lines[:12]) or out[-1500:]
            ctx.lean_full_err = out[-6000:]
    # forbidden tokens in every project source the modules depend on
    if ok:
        srcs = lean_sources_for(mods + ["Driver.Main"])
        for m, path in srcs.items():
            txt = strip_comments(open(path).read())
            for ln, line in enumerate(txt.splitlines(), 1):
                mt = FORBIDDEN.search(line)
                if mt and not (m.startswith("Driver.") and "partial def" in line):
                    ok = False
                    err += f"forbidden token {mt.group(0)!r} in {path}:{ln}\n"
    # audit
    thms = {}
    if ok:
        for m in mods:
            rc, out = sh(["lake", "env", "lean", "--run", "Audit/Audit.lean", m], cwd=LEAN, timeout=900)
            if rc != 0 or "AUDIT-END" not in out:
                ok = False
                err += f"audit of {m} failed: {out[-800:]}\n"
                continue
            for line in out.splitlines():
                mt = _audit_re.match(line.strip())
                if mt:
                    axs = mt.group(2).split()
                    thms[mt.group(1)] = axs
        bad = {t: a for t, a in thms.items() if not set(a) <= ALLOWED_AXIOMS}
        if bad:
            ok = False
            err += "theorems depending on non-permitted axioms: " + json.dumps(bad) + "\n"
        if mods and not thms:
            ok = False
            err += "no theorems found in " + ",".join(mods) + "\n"
    if ok and ctx.tier == "thorough" and mods:
        for m in mods:
            rc, out = sh(["lake", "env", "leanchecker", m], cwd=LEAN, timeout=1800)
            ctx.notes.append(f"leanchecker {m}: rc={rc}")
            if rc != 0:
                ok = False
                err += f"leanchecker rejected {m}: {out[-500:]}\n"
    ctx.theorems = thms
    ctx.lean_ok = ok
    ctx.lean_err = err
    return ok


# ---------------------------------------------------------------- correspondence stage
def _split_cases(out):
    """output stream -> {case_no: [lines]}"""
    cases, cur = {}, None
    for line in out.splitlines():
        if line.startswith("case "):
            cur = line.split()[1]
            cases[cur] = []
        elif cur is not None:
            cases[cur].append(line)
    return cases


def run_stream(cmd, text, timeout, env=None, stall_s=None):
    """run `cmd` on `text`; with `stall_s`, a process whose output has not grown for that long is killed
    (rc -998, "[stalled]"): a hung implementation costs the stall window, not the whole chunk timeout"""
    t = time.time()
    e = dict(os.environ)
    e.setdefault("ASAN_OPTIONS", "detect_leaks=0:abort_on_error=0:allocator_may_return_null=1:max_allocation_size_mb=4096")
    e.setdefault("UBSAN_OPTIONS", "print_stacktrace=1")
    if env:
        e.update(env)
    if stall_s is None:
        rc, out = sh(cmd, input=text, timeout=timeout, env=e)
        return rc, out, time.time() - t
    import tempfile
    with tempfile.TemporaryFile() as fi, tempfile.TemporaryFile() as fo:
        fi.write(text.encode()); fi.flush(); fi.seek(0)
        pr = subprocess.Popen(cmd, stdin=fi, stdout=fo, stderr=subprocess.STDOUT, env=e)
        last_size, last_t, note = -1, time.time(), ""
        while True:
            try:
                pr.wait(timeout=0.25)
                break
            except subprocess.TimeoutExpired:
                pass
            now = time.time()
            size = os.fstat(fo.fileno()).st_size
            if size != last_size:
                last_size, last_t = size, now
            if now - last_t > stall_s:
                note = "\n[stalled]"
            elif timeout and now - t > timeout:
                note = "\n[timeout]"
            if note:
                pr.kill(); pr.wait()
                break
        fo.seek(0)
        out = fo.read().decode(errors="replace")
        rc = pr.returncode if not note else (-998 if "stalled" in note else -999)
    return rc, out + note, time.time() - t


def batch_text(cases, idxs):
    parts = []
    for i in idxs:
        parts.append(f"case {i}")
        parts.extend(cases[i].ops)
    return "\n".join(parts) + "\n"


def run_both(ctx, cases, exe, component, jobs=16, timeout=600, c_env=None, stall_s=None):
    """run all cases through the implementation harness and the model driver; returns
    (c_out: {i: lines}, m_out: {i: lines}, crashes: {i: text})"""
    n = len(cases)
    jobs = max(1, min(jobs, n))
    chunks = [list(range(k, n, jobs)) for k in range(jobs)]
    model = os.path.join(LEAN, ".lake", "build", "bin", getattr(ctx.p, "DRIVER_EXE", "awsmodel"))
    c_out, m_out, crashes = {}, {}, {}

    def one(idxs):
        txt = batch_text(cases, idxs)
        res = {}
        if exe:
            todo = list(idxs)
            # a crash ends the process: record it for the last case begun and continue after it
            restarts = 0
            while todo:
                rc, out, _ = run_stream([exe], batch_text(cases, todo), timeout, c_env, stall_s=stall_s or getattr(ctx.p, "STALL_S", 120))
                got = _split_cases(out)
                for k, v in got.items():
                    res[("c", int(k))] = v
                if rc == 0:
                    break
                started = [int(k) for k in got.keys()]
                bad = started[-1] if started else todo[0]
                res[("crash", bad)] = f"rc={rc}\n" + out[-3000:]
                todo = todo[todo.index(bad) + 1:] if bad in todo else []
                restarts += 2 if rc == -998 else 1      # a hang is expensive: one more attempt after it, not two
                if restarts >= 3:      # a tree that crashes on most cases: three witnesses per chunk are enough
                    break
        if component:
            rc, out, _ = run_stream([model, component], txt, timeout)
            if rc != 0:
                res[("mfail", idxs[0])] = out[-2000:]
            for k, v in _split_cases(out).items():
                res[("m", int(k))] = v
        return res

    with ThreadPoolExecutor(jobs) as ex:
        for res in ex.map(one, chunks):
            for (kind, i), v in res.items():
                if kind == "c":
                    c_out[i] = v
                elif kind == "m":
                    m_out[i] = v
                elif kind == "crash":
                    crashes[i] = v
                else:
                    ctx.machinery_broken("model driver failed: " + v)
    return c_out, m_out, crashes


def first_diff(a, b):
    for k in range(max(len(a), len(b))):
        x = a[k] if k < len(a) else "<missing>"
        y = b[k] if k < len(b) else "<missing>"
        if x != y:
            return k, x, y
    return None


def classify_diff(cl, ml):
    """returns None | ('P'|'W', index, impl_line, model_line)"""
    d = first_diff(cl, ml)
    if d is None:
        return None
    # P-class if any differing line pair involves a P line (or structure differs)
    kind = "W"
    for k in range(max(len(cl), len(ml))):
        x = cl[k] if k < len(cl) else "<missing>"
        y = ml[k] if k < len(ml) else "<missing>"
        if x != y and not (x.startswith("W ") and y.startswith("W ")):
            kind = "P"
            break
    return (kind,) + d


def minimise(ctx, case, exe, component, still_fails, budget_s=20):
    """delta-debug the op list of a failing case (greedy single-line removal, then halves)"""
    ops = list(case.ops)
    t0 = time.time()
    changed = True
    while changed and time.time() - t0 < budget_s and len(ops) > 1:
        changed = False
        chunk = max(1, len(ops) // 2)
        while chunk >= 1 and time.time() - t0 < budget_s:
            i = 0
            while i < len(ops) and time.time() - t0 < budget_s:
                cand = ops[:i] + ops[i + chunk:]
                if cand and still_fails(Case(cand, case.tags)):
                    ops = cand
                    changed = True
                else:
                    i += chunk
            chunk //= 2
    return Case(ops, case.tags, case.name)


def correspondence_stage(ctx, cases=None, exe=None):
    p = ctx.p
    if cases is None:
        cases = p.gen_cases(ctx.rng, ctx.tier)
        corp = load_corpus(ctx.pid)
        cases = corp + cases
    component = getattr(p, "COMPONENT", None)
    if exe is None and getattr(p, "HARNESS", None):
        try:
            exe = cbuild.build_harness(**p.HARNESS)
        except cbuild.BuildError as e:
            ctx.machinery_broken("build: " + str(e)[:3000])
            return
    drv = getattr(p, "DRIVER_EXE", "awsmodel")
    if not ctx.lean_ok and component:
        # the model driver may be stale or unbuildable: try to build it alone
        rc, _ = lake_build([drv])
        if rc != 0:
            component = None
    if component and not os.path.exists(os.path.join(LEAN, ".lake", "build", "bin", drv)):
        component = None
    c_out, m_out, crashes = run_both(ctx, cases, exe, component,
                                     timeout=getattr(p, "TIMEOUT", 600), c_env=getattr(p, "C_ENV", None))
    ctx.cov["evaluations"] += len(cases)
    nt = set()
    for c in cases:
        if (not hasattr(p, "nontrivial")) or p.nontrivial(c):
            nt.add(hashlib.sha256("\n".join(c.ops).encode()).hexdigest())
    ctx.cov["distinct_nontrivial"] += len(nt)
    ctx.cov["traces_validated_against_impl"] = ctx.cov.get("traces_validated_against_impl", 0) + \
        sum(1 for i in range(len(cases)) if i in c_out and i in m_out)
    if hasattr(p, "distribution"):
        ctx.cov["distribution"] = p.distribution(cases, c_out)
    for c in cases[:2] + cases[-2:]:
        ctx.cov["samples"].append("; ".join(c.ops)[:600])

    def rerun(case):
        co, mo, cr = run_both(ctx, [case], exe, component, jobs=1, timeout=120, c_env=getattr(p, "C_ENV", None),
                              stall_s=getattr(p, "RERUN_STALL_S", 30))   # a single case that is silent for 30 s hangs
        return co.get(0, []), mo.get(0, []), cr.get(0)

    reported = 0
    wdrift = []
    for i, case in enumerate(cases):
        if reported >= 5:
            break
        cl, ml = c_out.get(i), m_out.get(i)
        if i in crashes:
            def sf(cand):
                _, _, cr = rerun(cand)
                return cr is not None
            small = minimise(ctx, case, exe, component, sf, 15)
            _, _, cr = rerun(small)
            fid = p.classify(small, {"kind": "crash", "text": cr or crashes[i]}) if hasattr(p, "classify") else None
            if ctx.violation(f"crash-{ctx.seed}-{i}", {"ops": small.ops, "tags": small.tags, "observed": (cr or crashes[i])[-2500:],
                                                   "flavour": (p.HARNESS or {}).get("flavour", "asan")},
                          "implementation crashed / sanitizer abort / watchdog on this case", finding=fid):
                reported += 1
            continue
        if cl is None:
            if exe and not crashes:
                ctx.machinery_broken(f"no implementation output for case {i}")
            continue
        # direct oracle on the implementation's own output
        if hasattr(p, "oracle"):
            errs = p.oracle(case, cl)
            if errs:
                def sf(cand):
                    co, _, cr = rerun(cand)
                    return cr is None and bool(p.oracle(cand, co))
                small = minimise(ctx, case, exe, component, sf, 15)
                co, mo, _ = rerun(small)
                errs2 = p.oracle(small, co) or errs
                fid = p.classify(small, {"kind": "oracle", "errors": errs2, "impl": co}) if hasattr(p, "classify") else None
                if ctx.violation(f"oracle-{ctx.seed}-{i}", {"ops": small.ops, "tags": small.tags, "clause": errs2[:5], "impl_output": co[-40:],
                                                           "model_output": mo[-40:]},
                                 "direct oracle: " + errs2[0], finding=fid):
                    reported += 1
                continue
        if ml is None:
            continue
        d = classify_diff(cl, ml)
        if d is None:
            continue
        kind = d[0]
        if kind == "P" and not getattr(p, "P_DIFF_CONCRETE", True):
            kind = "W"   # this plug-in's oracle, not the model diff, decides what is a concrete violation
        if kind == "W":
            wdrift.append((i, d))
            continue
        def sf(cand):
            co, mo, cr = rerun(cand)
            dd = classify_diff(co, mo)
            return cr is None and dd is not None and dd[0] == "P"
        small = minimise(ctx, case, exe, component, sf, 15)
        co, mo, _ = rerun(small)
        dd = classify_diff(co, mo) or d
        fid = p.classify(small, {"kind": "P", "impl": co, "model": mo, "diff": dd}) if hasattr(p, "classify") else None
        if ctx.violation(f"pdiff-{ctx.seed}-{i}", {"ops": small.ops, "tags": small.tags, "first_difference": {"line": dd[1], "implementation": dd[2], "model": dd[3]},
                                                  "impl_output": co[-40:], "model_output": mo[-40:]},
                         f"implementation differs from the proved model on a property-observable line: impl `{dd[2]}` vs model `{dd[3]}`",
                         finding=fid):
            reported += 1
    if wdrift and not ctx.violations:
        i, d = wdrift[0]
        ctx.violation(f"wdrift-{ctx.seed}-{i}", {"ops": cases[i].ops, "stream": "model/implementation conformance",
                                                "first_difference": {"line": d[1], "implementation": d[2], "model": d[3]},
                                                "cases_with_W_drift": len(wdrift)},
                      f"implementation no longer runs the modelled algorithm (conformance stream differs: impl `{d[2]}` vs model `{d[3]}`); "
                      "no property-level failing input found in this run", no_input=True)
    return cases, c_out, m_out


def load_corpus(pid):
    d = os.path.join(VERIF, "corpus", pid)
    out = []
    if os.path.isdir(d):
        for f in sorted(os.listdir(d)):
            if f.endswith(".ops"):
                ops = [l.rstrip("\n") for l in open(os.path.join(d, f)) if l.strip() and not l.startswith("#")]
                out.append(Case(ops, {"corpus": f}, f))
    return out


# ---------------------------------------------------------------- evidence + verdict
def finish(ctx):
    p = ctx.p
    # Lean failure with no concrete violation found by the other stages
    if ctx.lean_ok is False and not ctx.violations:
        ctx.violation(f"lean-{ctx.seed}", {"theorems_or_translation_no_longer_checking": ctx.lean_err[:4000],
                                          "lean_modules": getattr(p, "LEAN_MODULES", [])},
                      "proof obligations no longer check against the current source: " + ctx.lean_err.splitlines()[0][:300] if ctx.lean_err else "lean stage failed",
                      no_input=True)
    thms = ctx.theorems
    disch = [t for t, a in thms.items() if set(a) <= ALLOWED_AXIOMS] if ctx.lean_ok else []
    axioms = sorted({a for v in thms.values() for a in v})
    cov = ctx.cov
    cov.update({
        "obligations": max(len(thms), 1) if getattr(p, "LEAN_MODULES", None) else 0,
        "discharged": len(disch),
        "checker_cmd": "cd lean && lake build " + " ".join(getattr(p, "LEAN_MODULES", [])) +
                       " && lake env lean --run Audit/Audit.lean <module>" +
                       (" && lake env leanchecker <module>" if ctx.tier == "thorough" else ""),
        "trusted_base": ["Lean 4.33.0 kernel", "axioms used: " + (", ".join(axioms) or "none")] + list(getattr(p, "TRUSTED", [])) +
                        ["correspondence check (lib/core.py, harness/*.c, gcc 12 ASan/UBSan)"],
        "theorems": thms,
        "rule": getattr(p, "RULE", "cases from the plug-in generator; distinct by op-file hash"),
        "exhaustive": False,
        "not_proved": list(getattr(p, "NOT_PROVED", [])),
        "notes": ctx.notes,
    })
    if not cov["samples"]:
        cov["samples"] = ["(no correspondence cases in this run)"]
    level = getattr(p, "LEVEL", "proof")
    if cov["obligations"] == 0:
        level = "translation_validation" if level == "proof" else level
    ev = {
        "property_id": ctx.pid, "tier": ctx.tier, "seed": ctx.seed, "level": level, "coverage": cov,
        "assumptions": list(getattr(p, "ASSUMPTIONS", [])),
        "wall_s": round(time.time() - ctx.t0, 2),
        "violations": len(ctx.violations),
        "known_findings_seen": [k[0] for k in ctx.known],
        "machinery_broken": ctx.broken,
    }
    if level == "translation_validation":
        cov.setdefault("programs", cov["evaluations"])
        cov.setdefault("disagreements_checked", len(ctx.violations))
    os.makedirs(EVID, exist_ok=True)
    # evidence belongs to runs against /repo itself: experiments on another checkout (VERIF_REPO) must not overwrite it
    foreign = os.environ.get("VERIF_REPO") and os.path.realpath(os.environ["VERIF_REPO"]) != os.path.realpath("/repo")
    if not ctx.replay and not foreign:
        with open(os.path.join(EVID, ctx.pid + ".json"), "w") as f:
            json.dump(ev, f, indent=1)
    for fid, text in ctx.known:
        print(f"KNOWN-FINDING: property={ctx.pid} {fid}: {text}")
    for name, text, path, no_input in ctx.violations:
        print(f"  violation: {text[:400]}")
        print(f"VIOLATION property={ctx.pid} replay={path}" + (" no-failing-input-found" if no_input else ""))
    for b in ctx.broken:
        print("CHECK-BROKEN: " + b[:2000])
    print(f"[{ctx.pid}] tier={ctx.tier} seed={ctx.seed} theorems={len(thms)} discharged={len(disch)} "
          f"cases={cov['evaluations']} validated={cov.get('traces_validated_against_impl', 0)} "
          f"violations={len(ctx.violations)} known={len(ctx.known)} wall={ev['wall_s']}s")
    if ctx.violations:
        return 1
    if ctx.broken:
        return 2
    return 0


def run_check(plugin, tier, seed, replay=None):
    ctx = Ctx(plugin, tier, seed, replay)
    try:
        lean_stage(ctx)
        if replay:
            r = json.load(open(replay))
            if "ops" in r:
                correspondence_stage(ctx, [Case(r["ops"], r.get("tags"))])
            elif hasattr(plugin, "replay"):
                plugin.replay(ctx, r)
            else:
                print("replay file carries no op list (it names the obligation that no longer checks):")
                print(json.dumps(r, indent=1)[:3000])
        else:
            if getattr(plugin, "HARNESS", None) or getattr(plugin, "COMPONENT", None):
                correspondence_stage(ctx)
            if hasattr(plugin, "extra_stages"):
                plugin.extra_stages(ctx)
    except cbuild.BuildError as e:
        ctx.machinery_broken("build: " + str(e)[:3000])
    return finish(ctx)
