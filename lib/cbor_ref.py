"""Independent small RFC 8949 reader used as the direct oracle of C10.

Written from the RFC (section 3 and appendix C), not from libcbor or the Lean model.
  elements(bs)     -> flat list of Element (one per head, the granularity of the aws API)
  well_formed(bs, pos) -> end offset of the single well-formed data item starting at pos (raises Malformed)
"""
import struct
from fractions import Fraction


class Malformed(Exception):
    pass


class Truncated(Malformed):
    pass


class Element:
    __slots__ = ("kind", "value", "start", "end", "ai", "major")

    def __init__(self, kind, value, start, end, major, ai):
        self.kind, self.value, self.start, self.end, self.major, self.ai = kind, value, start, end, major, ai

    def __repr__(self):
        return f"<{self.kind} {self.value!r} [{self.start},{self.end}) ai={self.ai}>"


def _head(bs, pos):
    """-> (major, ai, argument or None, offset after the head)"""
    if pos >= len(bs):
        raise Truncated("no initial byte")
    ib = bs[pos]
    major, ai = ib >> 5, ib & 0x1F
    if ai < 24:
        return major, ai, ai, pos + 1
    if ai in (24, 25, 26, 27):
        n = 1 << (ai - 24)
        if pos + 1 + n > len(bs):
            raise Truncated("argument")
        return major, ai, int.from_bytes(bs[pos + 1:pos + 1 + n], "big"), pos + 1 + n
    if ai in (28, 29, 30):
        raise Malformed(f"reserved additional information {ai}")
    return major, ai, None, pos + 1  # 31


def half_to_float(h):
    s, e, m = h >> 15, (h >> 10) & 0x1F, h & 0x3FF
    if e == 0:
        v = m * 2.0 ** -24
    elif e != 31:
        v = (m + 1024) * 2.0 ** (e - 25)
    else:
        v = float("inf") if m == 0 else float("nan")
    return -v if s else v


def element(bs, pos):
    """one head-level element at pos (strings include their payload)"""
    major, ai, arg, p = _head(bs, pos)
    if major in (0, 1, 6):
        if arg is None:
            raise Malformed("indefinite length on major type %d" % major)
        return Element({0: "uint", 1: "negint", 6: "tag"}[major], arg, pos, p, major, ai)
    if major in (2, 3):
        if arg is None:
            return Element("indef_bytes" if major == 2 else "indef_text", None, pos, p, major, ai)
        if p + arg > len(bs):
            raise Truncated("string payload")
        return Element("bytes" if major == 2 else "text", bytes(bs[p:p + arg]), pos, p + arg, major, ai)
    if major in (4, 5):
        if arg is None:
            return Element("indef_arr" if major == 4 else "indef_map", None, pos, p, major, ai)
        return Element("array" if major == 4 else "map", arg, pos, p, major, ai)
    # major 7
    if ai == 31:
        return Element("break", None, pos, p, major, ai)
    if ai == 25:
        return Element("float", half_to_float(arg), pos, p, major, ai)
    if ai == 26:
        return Element("float", struct.unpack(">f", struct.pack(">I", arg))[0], pos, p, major, ai)
    if ai == 27:
        return Element("float", struct.unpack(">d", struct.pack(">Q", arg))[0], pos, p, major, ai)
    if ai == 24 and arg < 32:
        raise Malformed("two-byte simple value < 32")
    sv = arg
    if sv == 20:
        return Element("bool", 0, pos, p, major, ai)
    if sv == 21:
        return Element("bool", 1, pos, p, major, ai)
    if sv == 22:
        return Element("null", None, pos, p, major, ai)
    if sv == 23:
        return Element("undef", None, pos, p, major, ai)
    return Element("simple", sv, pos, p, major, ai)


def elements(bs):
    """flat element list of the whole input; raises on the first malformed/truncated head"""
    out, pos = [], 0
    while pos < len(bs):
        e = element(bs, pos)
        out.append(e)
        pos = e.end
    return out


def elements_prefix(bs):
    """(elements decodable from the front, exception or None)"""
    out, pos = [], 0
    while pos < len(bs):
        try:
            e = element(bs, pos)
        except Malformed as ex:
            return out, ex
        out.append(e)
        pos = e.end
    return out, None


def well_formed(bs, pos=0, depth=0):
    """RFC 8949 appendix C `well_formed`: end offset of the data item at pos; raises Malformed.
    Iterative on an explicit stack so that Python's recursion limit plays no part."""
    # stack entries: [kind, remaining] ; kind in 'n' (definite count), 'i' (indefinite any),
    # 's2'/'s3' (indefinite string: only definite chunks of that major type)
    stack = []
    while True:
        e = element(bs, pos)
        pos = e.end
        top = stack[-1] if stack else None
        if e.kind == "break":
            if top is None or top[0] == "n":
                raise Malformed("break outside indefinite-length item")
            if top[0] == "im" and top[1] % 2 == 1:
                raise Malformed("odd number of items in indefinite map")
            stack.pop()
            closed = True
        else:
            if top is not None and top[0] in ("s2", "s3"):
                if not (e.kind == ("bytes" if top[0] == "s2" else "text")):
                    raise Malformed("wrong chunk in indefinite string")
            closed = False
            if e.kind == "tag":
                stack.append(["n", 1])
            elif e.kind == "array":
                if e.value:
                    stack.append(["n", e.value])
                else:
                    closed = True
            elif e.kind == "map":
                if e.value:
                    stack.append(["n", 2 * e.value])
                else:
                    closed = True
            elif e.kind == "indef_arr":
                stack.append(["i", 0])
            elif e.kind == "indef_map":
                stack.append(["im", 0])
            elif e.kind == "indef_bytes":
                stack.append(["s2", 0])
            elif e.kind == "indef_text":
                stack.append(["s3", 0])
            else:
                closed = True
        # a data item was completed: account for it in the enclosing containers
        while closed:
            if not stack:
                return pos
            top = stack[-1]
            if top[0] == "n":
                top[1] -= 1
                if top[1] == 0:
                    stack.pop()
                    continue
            else:
                top[1] += 1
            closed = False


def is_shortest(e):
    """integer head (any major type carrying an argument) uses the shortest of the five widths"""
    v = e.value if e.kind not in ("bytes", "text") else len(e.value)
    if e.ai < 24:
        return True
    if e.ai == 24:
        return v >= 24
    if e.ai == 25:
        return v >= 1 << 8
    if e.ai == 26:
        return v >= 1 << 16
    if e.ai == 27:
        return v >= 1 << 32
    return True


def double_from_bits(bits):
    return struct.unpack(">d", struct.pack(">Q", bits))[0]


def expected_float_form(x):
    """what 'smallest form that loses nothing, no half floats' means: 'int' | 'f32' | 'f64'"""
    if x != x or x in (float("inf"), float("-inf")):
        return "f32"
    if x.is_integer() and -(1 << 63) <= int(x) < (1 << 63):
        return "int"
    try:
        if struct.unpack(">f", struct.pack(">f", x))[0] == x:
            return "f32"
    except OverflowError:
        pass
    return "f64"


def same_number(x, elem_kind, elem_value):
    """numeric equality between the written double x and a decoded element"""
    if elem_kind == "float":
        if x != x:
            return elem_value != elem_value
        return x == elem_value
    if x != x or x in (float("inf"), float("-inf")):
        return False
    if elem_kind == "uint":
        return Fraction(x) == elem_value
    if elem_kind == "negint":
        return Fraction(x) == -1 - elem_value
    return False
