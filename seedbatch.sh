#!/bin/sh
# usage: seedbatch.sh <PROP> <seed_out_dir> ; confirms changes 1..3 sequentially, appends one summary line each to /tmp/sc/summary.txt
P=$1; D=$2
for k in 1 2 3; do
  [ -d "$D/$k" ] || continue
  name="$P-s$k"
  python3 /verif/seedconfirm.py $P $D/$k $name > /tmp/sc/$name.log 2>&1
  python3 - /tmp/sc/$name.log $name >> /tmp/sc/summary.txt <<'PY'
import sys,json
t=open(sys.argv[1]).read()
try:
    r=json.loads(t[t.index('{'):])
    c=list(r['checks'].values())[0]
    v=[l for l in c['lines'] if l.startswith('VIOLATION')]
    nf=sum('no-failing-input-found' in l for l in v)
    print(sys.argv[2], 'tests_pass=%s demo_fail=%s demo_pass_wo=%s caught=%s viol=%d nofail=%d wall=%s' % (r['tests_pass_with_change'], r['demo_fails_with_change'], r['demo_passes_without'], r['caught'], len(v), nf, c['wall_s']))
except Exception as e:
    print(sys.argv[2], 'ERROR', str(e)[:100], t[-300:].replace('\n',' '))
PY
done
