#!/bin/sh
cd /verif
for i in 01 02 03 04 05 06 07 08 09 10 11 12 13 14 15 16 17 18 19 20; do
  python3 check.py C$i --tier thorough > /tmp/thorough.C$i.log 2>&1; rc=$?
  echo "rc=$rc $(tail -1 /tmp/thorough.C$i.log)"
done
