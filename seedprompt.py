#!/usr/bin/env python3
"""prints the prompt for an independent mutation-seeding agent: property text + scratch worktree only"""
import json, sys
pid, wt, n = sys.argv[1], sys.argv[2], (sys.argv[3] if len(sys.argv) > 3 else "2")
p = [json.loads(l) for l in open('/verif/properties.jsonl') if json.loads(l)['id'] == pid][0]
import glob, os
tried = []
for d in sorted(glob.glob(f'/verif/seeded/{pid}-*/meta.json')):
    try:
        m = json.load(open(d))
        tried.append("- " + " ".join(str(m.get('what_changed', '')).split())[:300])
    except Exception:
        pass
avoid = ("\n\nChanges of the following kinds were ALREADY produced by earlier rounds — yours must be different in location or mechanism "
         "(other functions, other branches, other cooperating sites, other configurations):\n" + "\n".join(tried) + "\n") if tried else ""
extra = ""
if os.environ.get("ROUND3"):
    extra = ("In THIS round prefer changes that are NOT in the most obvious function of the most obvious file: put them in the helper modules this "
             "property relies on (other files of the anchors list and what they call: array list, linked list, hash table, byte-buffer helpers, "
             "allocator wrappers, condition variables, reference counting, clocks, error handling), in less-travelled public entry points of the same "
             "API (variants, _secure/_dynamic/_n/_ignore_case forms, clean-up / reset / move / swap / copy paths), in initialisation and tear-down, or "
             "in the glue between two components — as long as the effect is a genuine violation of THIS property.\n\n")
if os.environ.get("ROUND4"):
    extra = ("In THIS round go through the property statement CLAUSE BY CLAUSE and aim at clauses and situations the earlier rounds (listed above) left "
             "untouched. Prefer changes whose effect shows only (a) on an error / refusal / roll-back path and in the state it leaves behind for the NEXT "
             "operation (stale field, half-updated structure, resource not returned), (b) when two API calls that are rarely combined are used one after the "
             "other, (c) at sizes, counts, lengths or timestamps near a type limit or an internal threshold (growth, wrap, rounding), (d) for NULL / empty / "
             "zero-length / self-aliasing arguments that the API explicitly allows, or (e) in a platform or configuration variant. Changes may be anywhere in the "
             "library (including helper modules the anchored code calls) as long as the effect is a genuine violation of THIS property. "
             "Your demo will be rebuilt elsewhere with `-I<root> -I<root>/include -I<root>/_b/generated/include`: never #include an absolute path, use paths "
             "relative to the repository root (e.g. \"source/ring_buffer.c\").\n\n")
if os.environ.get("ROUND5"):
    extra = ("In THIS round make each change hard in a different way from the earlier rounds (listed above): prefer (a) TWO cooperating edits in different "
             "functions or files, each of which looks like a harmless clean-up on its own; (b) a change in code this property's files CALL (another module of "
             "the library) whose effect only surfaces through this property's API; (c) a change that is correct for every input the function's own callers in "
             "the library pass today but wrong for a legal public-API input; (d) a change visible only after a long or unusual history (many operations, growth "
             "past several thresholds, wrap-around, reuse after clean-up / reset, alternating two APIs); (e) integer-width, signedness or promotion slips that "
             "need values ≥ 2^31 / 2^32 / near SIZE_MAX. Avoid the functions already listed above where you can. "
             "Your demo will be rebuilt elsewhere with `-I<root> -I<root>/include -I<root>/_b/generated/include`: never #include an absolute path, use paths "
             "relative to the repository root; put any extra compile flags the demo needs (e.g. -DDEBUG_BUILD, -Wl,--wrap=...) on the documented compile line in the header comment.\n\n")
prop = json.dumps({k: p[k] for k in ('id', 'title', 'statement', 'quantifier', 'why_tests_cant', 'anchors')}, indent=1)
print(f"""You are testing how well a C library's correctness properties are guarded. The library is awslabs/aws-c-common. You have your own scratch git worktree of it at {wt} (a detached checkout of the current HEAD). Work ONLY inside {wt} (and subdirectories you create there or under {wt}_out); do not read or write /verif, /repo, /root, or other directories under /tmp — your result must be independent of any existing verification machinery. No network.

The property (behavioural, must hold for every input / schedule / history it quantifies over):
{prop}

{avoid}
{extra}YOUR TASK: produce {n} DIFFERENT source changes (each one small, realistic — the kind of slip a maintainer could make in a refactor or "optimisation": an off-by-one in a guard, a dropped update, a wrong branch order, a boundary condition, two cooperating sites that each look fine alone) to the library such that, for each change separately:
 1. the library still compiles without new warnings-as-errors and the EXISTING test suite still passes completely. Build and test like this: `cmake -G Ninja -S {wt} -B {wt}/_b -DCMAKE_BUILD_TYPE=RelWithDebInfo >/dev/null && cmake --build {wt}/_b 2>&1 | tail -3 && ctest --test-dir {wt}/_b -j8 --timeout 900 2>&1 | tail -5` (451 tests, all must pass; run it once BEFORE changing anything to see the baseline).
 2. the change BREAKS the property above (a genuine violation of the stated behaviour, not merely different internals), and
 3. the violation needs something SPECIFIC to manifest — a particular interleaving, a fault at a particular point, a multi-step sequence of operations, an unusual input or boundary value, a non-default implementation variant/configuration, or two sites cooperating — not something ordinary use or the existing tests expose at once.
For each change write a small self-contained demonstration (a C program using the public API, or a test) that FAILS (non-zero exit, with a message saying what went wrong) when built against the changed library and PASSES against the unchanged one. Verify both yourself (build the demo against {wt}/_b/libaws-c-common.a with `-I{wt}/include -I{wt}/_b/generated/include … -lpthread -ldl -lm`; for header-only inline code remember the demo itself is recompiled against the changed headers; if the change is in a non-default variant (e.g. a portable fallback not compiled in this configuration) the demo must compile that variant explicitly, e.g. by including the .inl/.c with the right macros).

DELIVERABLES, for change k = 1..{n}, in directory {wt}_out/k/: `patch.diff` (output of `git -C {wt} diff` for that change alone, applicable with `git apply` to a clean checkout), `demo.c` (or demo.sh + files) with the exact build/run commands in a comment at the top, and `meta.json` = {{"property": "{pid}", "what_changed": "...", "why_it_breaks_the_property": "...", "needs_to_manifest": "...", "tests_pass": true, "demo_fails_with_change": true, "demo_passes_without": true, "commands_run": ["..."]}}. After saving each patch, restore the worktree (`git -C {wt} checkout -- .`) before making the next change. Leave the worktree clean at the end (you may delete {wt}/_b).

FINAL REPORT: for each change one short paragraph: files/lines touched, why the property breaks, what it needs to manifest, and confirmation of the three verifications. Be honest if you could not achieve one of them.""")
