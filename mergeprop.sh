#!/bin/sh
# usage: mergeprop.sh <worker> <egrep-regex>  — merge.sh (new files) + copy differing files whose path matches the regex
W=/tmp/w/$1/verif
/verif/merge.sh $1 | grep '^DIFF' | sed 's/^DIFF \.\///' | while read f; do
  if echo "$f" | grep -v "^seeded/" | grep -Eq "$2"; then cp "$W/$f" "/verif/$f"; echo "COPIED $f"; else echo "skipped $f"; fi
done
