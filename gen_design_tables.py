#!/usr/bin/env python3
"""Regenerates the two generated tables of DESIGN.md (between the BEGIN/END markers) from the plug-ins, the last
evidence files and seeded/*/meta.json, so the document cannot drift from what is built."""
import glob, importlib, json, os, re, sys
sys.path.insert(0, os.path.dirname(os.path.abspath(__file__)))
V = os.path.dirname(os.path.abspath(__file__))

def status_table():
    rows = ["| id | theorems discharged | not proved | cases (quick) | quick wall s | open findings printed | level |", "|---|---|---|---|---|---|---|"]
    for i in range(1, 21):
        pid = f"C{i:02d}"
        try:
            m = importlib.import_module("props." + pid.lower())
        except ModuleNotFoundError:
            rows.append(f"| {pid} | – | – | – | – | – | not built |"); continue
        ev = {}
        p = os.path.join(V, "evidence", pid + ".json")
        if os.path.exists(p):
            ev = json.load(open(p))
        cov = ev.get("coverage", {})
        np_ = getattr(m, "NOT_PROVED", [])
        nps = "; ".join((x if isinstance(x, str) else str(x))[:60] for x in np_) or "–"
        claimed = "not claimed: " + m.NOT_CLAIMED if getattr(m, "NOT_CLAIMED", None) else m.MANIFEST.get("category", "proof")
        rows.append(f"| {pid} | {cov.get('discharged', '?')}/{cov.get('obligations', '?')} | {nps} | {cov.get('evaluations', '?')} | {ev.get('wall_s', '?')} | "
                    f"{', '.join(ev.get('known_findings_seen', [])) or '–'} | {claimed} |")
    return "\n".join(rows)

def seeded_table():
    rows = ["| seeded change | property | what was changed | needs to manifest | tests pass | demo fails / passes | caught by our check |", "|---|---|---|---|---|---|---|"]
    for d in sorted(glob.glob(os.path.join(V, "seeded", "*", "meta.json"))):
        m = json.load(open(d))
        c = m.get("confirmation", {})
        name = os.path.basename(os.path.dirname(d))
        chk = list(c.get("checks", {}).items())
        how = "–"
        if chk:
            pid, r = chk[0]
            lines = r.get("lines", [])
            if r.get("rc") == 1:
                kinds = set()
                for l in lines:
                    if "no-failing-input-found" in l: kinds.add("conformance/proof break (no-failing-input-found)")
                    elif "direct oracle" in l: kinds.add("oracle, concrete replay")
                    elif "crashed" in l or "sanitizer" in l: kinds.add("sanitizer/crash, concrete replay")
                    elif "differs from the proved model" in l: kinds.add("model P-diff, concrete replay")
                if not kinds: kinds.add("violation reported")
                th = [l for l in lines if l.startswith("[")]
                if th and "theorems=0" in th[-1]: kinds.add("theorems no longer check")
                how = "YES: " + "; ".join(sorted(kinds))
            else:
                how = "**MISSED** (rc=%s)" % r.get("rc")
            if pid != m.get("property", pid):
                how += f" — by the {pid} check (the change is in {pid}'s code)"
        if m.get("verif_note"):
            how += " — " + str(m["verif_note"])
        def cl(x): return re.sub(r"\s+", " ", str(x)).replace("|", "/")[:170]
        rows.append(f"| {name} | {m.get('property', c.get('property'))} | {cl(m.get('what_changed', ''))} | {cl(m.get('needs_to_manifest', ''))} | "
                    f"{c.get('tests_pass_with_change')} | {c.get('demo_fails_with_change')} / {c.get('demo_passes_without')} | {how} |")
    return "\n".join(rows)

def theorem_list():
    out = []
    for i in range(1, 21):
        pid = f"C{i:02d}"
        p = os.path.join(V, "evidence", pid + ".json")
        if not os.path.exists(p):
            continue
        th = json.load(open(p)).get("coverage", {}).get("theorems", {})
        names = sorted(n.split(".")[-1] for n in th)
        out.append(f"* **{pid}** (`lean/AwsVerif/Props/{pid}.lean`, {len(names)}): " + ", ".join(f"`{n}`" for n in names))
    return "\n".join(out)

def inject(text, tag, body):
    b, e = f"<!-- BEGIN GENERATED {tag} -->", f"<!-- END GENERATED {tag} -->"
    if b not in text:
        raise SystemExit("marker missing: " + tag)
    return text[:text.index(b) + len(b)] + "\n" + body + "\n" + text[text.index(e):]

p = os.path.join(V, "DESIGN.md")
t = open(p).read()
t = inject(t, "STATUS", status_table())
t = inject(t, "SEEDED", seeded_table())
t = inject(t, "THEOREMS", theorem_list())
open(p, "w").write(t)
print("DESIGN.md tables regenerated")
