#!/bin/sh
# usage: merge.sh <worker>  — copy a worker's deliverables from /tmp/w/<worker>/verif into /verif.
# Shared files are never overwritten; their diffs are printed for manual merging.
set -e
W=/tmp/w/$1/verif
[ -d "$W" ] || { echo "no such worker dir $W"; exit 1; }
rsync -a --ignore-existing --exclude .git --exclude .cache --exclude '.lake' --exclude 'lean/AwsVerif/Gen/*.lean' \
  --exclude evidence --exclude replays --exclude __pycache__ --exclude '*.pyc' \
  --exclude MANIFEST.json "$W"/ /verif/ --itemize-changes | grep -v '/$' | sed 's/^/NEW  /' || true
echo "--- files that exist on both sides and differ (not copied):"
cd "$W" && find . -type f \( -name '*.lean' -o -name '*.py' -o -name '*.c' -o -name '*.h' -o -name '*.md' -o -name '*.json' -o -name '*.toml' -o -name '*.ops' -o -name '*.sh' \) \
  -not -path './.cache/*' -not -path './lean/.lake/*' -not -path './lean/AwsVerif/Gen/*' -not -path './evidence/*' -not -path './replays/*' -not -name MANIFEST.json | while read f; do
  if [ -f "/verif/$f" ] && ! cmp -s "$f" "/verif/$f"; then echo "DIFF $f"; fi
done
