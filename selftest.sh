#!/bin/sh
# runs every claimed check's quick tier on the unchanged tree at the given seeds; one summary line per run
cd /verif
for s in "$@"; do
  for i in 01 02 03 04 05 06 07 08 09 10 11 12 13 14 15 16 17 18 19 20; do
    VERIF_SEED=$s python3 check.py C$i --tier quick > /tmp/selftest.C$i.$s.log 2>&1; rc=$?
    echo "seed=$s rc=$rc $(tail -1 /tmp/selftest.C$i.$s.log)"
  done
done
