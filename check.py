#!/usr/bin/env python3
"""Entry point: python3 check.py <Cxx> [--tier quick|thorough] [--replay file]
Exit 0: property held on everything explored (KNOWN-FINDING lines allowed).
Exit 1: `VIOLATION property=<id> replay=<path>[ no-failing-input-found]`.
Exit 2: the check itself is broken (build failure, harness fault)."""
import argparse, importlib, os, sys
sys.path.insert(0, os.path.dirname(os.path.abspath(__file__)))
from lib import core


def main():
    ap = argparse.ArgumentParser()
    ap.add_argument("prop")
    ap.add_argument("--tier", default=os.environ.get("VERIF_TIER", "quick"), choices=["quick", "thorough"])
    ap.add_argument("--replay")
    ap.add_argument("--seed", type=int, default=int(os.environ.get("VERIF_SEED", "1")))
    a = ap.parse_args()
    plugin = importlib.import_module("props." + a.prop.lower())
    sys.exit(core.run_check(plugin, a.tier, a.seed, a.replay))


if __name__ == "__main__":
    main()
