#!/usr/bin/env python3
"""lists, for a property, the functions defined in its anchored files (and in files earlier seeded changes touched)
that no earlier seeded change has touched yet — used to steer later seeding rounds and worker mutation sweeps"""
import json, glob, re, os, sys, collections

KEYWORDS = {"if", "for", "while", "switch", "return", "sizeof", "defined"}


def functions_in(path):
    try:
        txt = open(path, errors="replace").read()
    except OSError:
        return []
    txt = re.sub(r"/\*.*?\*/", lambda m: re.sub(r"[^\n]", " ", m.group(0)), txt, flags=re.S)
    out = []
    for m in re.finditer(r"^(?!#|\s|typedef|struct\s+\w+\s*\{|enum|union)([A-Za-z_][^;{}()=]*?)\b([A-Za-z_]\w*)\s*\(", txt, flags=re.M):
        name = m.group(2)
        if name in KEYWORDS or name.isupper():
            continue
        # find the matching ')' then expect '{'
        i, depth = m.end(), 1
        while i < len(txt) and depth:
            depth += {"(": 1, ")": -1}.get(txt[i], 0)
            i += 1
        rest = txt[i:i + 200].lstrip()
        if rest.startswith("{"):
            out.append(name)
    return out


def touched(pid):
    t, files = collections.Counter(), collections.Counter()
    for d in glob.glob(f"/verif/seeded/{pid}-*/patch.diff"):
        for l in open(d, errors="replace"):
            if l.startswith("+++ b/"):
                files[l[6:].strip()] += 1
            m = re.match(r"@@ .* @@ (.*)", l)
            if m:
                f = re.search(r"(\w+)\s*\(", m.group(1))
                if f:
                    t[f.group(1)] += 1
        try:
            meta = json.load(open(os.path.join(os.path.dirname(d), "meta.json")))
            for w in re.findall(r"\b(?:aws_|s_|cbor_|_cbor_|cJSON_|hashlittle|parse_|print_)\w+", str(meta.get("what_changed", ""))):
                t[w] += 1
        except Exception:
            pass
    return t, files


def untouched(pid, repo="/repo"):
    p = [json.loads(l) for l in open("/verif/properties.jsonl") if json.loads(l)["id"] == pid][0]
    t, files = touched(pid)
    fl = list(dict.fromkeys(list(p["anchors"]["files"]) + list(files)))
    res = {}
    for f in fl:
        fs = [x for x in dict.fromkeys(functions_in(os.path.join(repo, f))) if x not in t]
        if fs:
            res[f] = fs
    return res, t


if __name__ == "__main__":
    r, t = untouched(sys.argv[1])
    for f, fs in r.items():
        print(f, len(fs), " ".join(fs))
    print("touched:", " ".join(sorted(t)))
