#!/bin/sh
# usage: mkwork.sh <name>  -> private copy of /verif for a worker under /tmp/w/<name>/verif
set -e
mkdir -p /tmp/w/$1
rsync -a --exclude .git --exclude replays --exclude evidence /verif/ /tmp/w/$1/verif/
mkdir -p /tmp/w/$1/verif/replays /tmp/w/$1/verif/evidence
echo /tmp/w/$1/verif
