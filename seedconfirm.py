#!/usr/bin/env python3
"""Confirm a seeded change and run our check against it.
usage: seedconfirm.py <property> <seed_out_dir/k> <name>   (e.g. C16 /tmp/seed/C16_1_out/1 C16-convert-plain-add)
Steps (all in a scratch worktree, removed at the end): apply patch; build; run the 451 tests; build+run the demo
(must fail); run `check.py <property>` with VERIF_REPO pointing at the changed tree; revert; demo must pass.
Writes /verif/seeded/<name>/{patch.diff,demo.*,meta.json}."""
import json, os, shutil, subprocess, sys, time

pid, src, name = sys.argv[1], sys.argv[2].rstrip("/"), sys.argv[3]
checks = sys.argv[4].split(",") if len(sys.argv) > 4 else [pid]
wt = f"/tmp/sc/{name}"
VDIR = os.environ.get("VERIF_DIR", "/verif")   # which copy of the machinery runs the check (parallel confirmations use private copies)


def sh(cmd, **kw):
    r = subprocess.run(cmd, shell=True, stdout=subprocess.PIPE, stderr=subprocess.STDOUT, text=True, errors="replace", **kw)
    return r.returncode, r.stdout


os.makedirs("/tmp/sc", exist_ok=True)
sh(f"git -C /repo worktree remove --force {wt}")
rc, out = sh(f"git -C /repo worktree add --detach {wt} HEAD")
assert rc == 0, out
res = {"property": pid, "name": name, "confirmed_at": time.strftime("%Y-%m-%d %H:%M:%S")}
try:
    rc, out = sh(f"git -C {wt} apply {src}/patch.diff")
    assert rc == 0, "patch does not apply: " + out
    rc, out = sh(f"cmake -G Ninja -S {wt} -B {wt}/_b -DCMAKE_BUILD_TYPE=RelWithDebInfo > /dev/null && cmake --build {wt}/_b 2>&1 | tail -3")
    assert rc == 0, out
    rc, out = sh(f"ctest --test-dir {wt}/_b -j8 --timeout 900 2>&1 | tail -4")
    res["tests_with_change"] = out.strip().splitlines()[-3:] if out.strip() else []
    res["tests_pass_with_change"] = "100% tests passed" in out
    demo = None
    for cand in ("demo.c", "demo.sh"):
        if os.path.exists(os.path.join(src, cand)):
            demo = cand
    inc = f"-I{wt} -I{wt}/include -I{wt}/_b/generated/include -I{wt}/source/external/libcbor"
    def run_demo(tag):
        if demo == "demo.c":
            txt = open(os.path.join(src, "demo.c")).read()
            import re as _re
            extra = " ".join(sorted(set(_re.findall(r"-Wl,--wrap=[\w,=-]+", "\n".join(txt.splitlines()[:80])))))
            head = "\n".join(txt.splitlines()[:80])
            # -D flags of the demo's own documented compile line (e.g. -DDEBUG_BUILD selects a non-default variant)
            mcc = _re.search(r"\b(?:cc|gcc|clang)\b[^\n]*(?:\\\n[^\n]*)*", head)
            if mcc:
                extra += " " + " ".join(sorted(set(f for f in _re.findall(r"(?<![\w/])-D[A-Za-z_]\w*(?:=[\w.]+)?", mcc.group(0)) if f != "-D_GNU_SOURCE")))
                extra += " " + " ".join(sorted(set(_re.findall(r"(?<![\w/])-fsanitize=[\w,]+", mcc.group(0)))))
            for l in txt.splitlines()[:60]:
                if "EXTRA_CFLAGS:" in l:
                    extra += " " + l.split("EXTRA_CFLAGS:")[1].strip().rstrip("*/").strip()
            cmd = (f"cd {src} && cc -O1 -g -w -D_GNU_SOURCE {inc} {extra} demo.c {wt}/_b/libaws-c-common.a -lpthread -ldl -lm -o /tmp/sc/{name}.demo "
                   f"&& timeout 600 /tmp/sc/{name}.demo")
        else:
            cmd = f"cd {src} && WT={wt} timeout 900 sh demo.sh {wt}"
        rc, out = sh(cmd)
        res[f"demo_{tag}"] = {"rc": rc, "tail": out.strip().splitlines()[-4:]}
        return rc
    rc1 = run_demo("with_change")
    # our checks against the changed tree
    res["checks"] = {}
    for c in checks:
        t0 = time.time()
        rc, out = sh(f"cd {VDIR} && VERIF_REPO={wt} python3 check.py {c} --tier quick")
        lines = [l for l in out.splitlines() if l.startswith(("VIOLATION", "KNOWN-FINDING", "CHECK-BROKEN", "  violation", "["))]
        lines.sort(key=lambda l: not l.startswith(("VIOLATION", "KNOWN-FINDING", "CHECK-BROKEN")))  # verdict lines first (stable)
        res["checks"][c] = {"rc": rc, "wall_s": round(time.time() - t0, 1), "lines": lines[:12]}
    sh(f"git -C {wt} checkout -- .")
    rc, out = sh(f"cmake --build {wt}/_b 2>&1 | tail -2")
    rc0 = run_demo("without_change")
    res["demo_fails_with_change"] = rc1 != 0
    res["demo_passes_without"] = rc0 == 0
    res["caught"] = any(v["rc"] == 1 for v in res["checks"].values())
finally:
    sh(f"git -C /repo worktree remove --force {wt}")
    sh(f"rm -f /tmp/sc/{name}.demo")
dst = f"/verif/seeded/{name}"
os.makedirs(dst, exist_ok=True)
for f in (os.listdir(src) if os.path.realpath(src) != os.path.realpath(dst) else []):
    if os.path.isfile(os.path.join(src, f)) and not f.endswith((".o",)) and os.path.getsize(os.path.join(src, f)) < 400000 and f not in ("demo",):
        shutil.copy(os.path.join(src, f), os.path.join(dst, f))
meta = {}
if os.path.exists(os.path.join(src, "meta.json")):
    try:
        meta = json.load(open(os.path.join(src, "meta.json")))
    except Exception:
        meta = {"raw": open(os.path.join(src, "meta.json")).read()[:2000]}
meta["confirmation"] = res
json.dump(meta, open(os.path.join(dst, "meta.json"), "w"), indent=1)
print(json.dumps(res, indent=1))
