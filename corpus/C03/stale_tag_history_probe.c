#include <aws/common/allocator.h>
#include <aws/common/common.h>
#include <stdio.h>
#include <stdlib.h>
#include <string.h>
/* random history with sizes 1..700 on a small-block allocator over malloc: check no two live blocks overlap and bytes_active consistent */
struct blk { uint8_t *p; size_t n; uint8_t pat; };
int main(int argc, char **argv){ unsigned seed = argc>1?atoi(argv[1]):1; srand(seed);
  struct aws_allocator *sba = aws_small_block_allocator_new(aws_default_allocator(), false);
  enum {N=4000}; static struct blk b[N]; int live=0; long bad=0;
  for (int step=0; step<200000 && !bad; ++step){
    int grow = ((step/3000)%2==0) ? 70 : 30; if (live < N && (live==0 || rand()%100 < grow)) { size_t n = 1 + rand()%700; uint8_t *p = aws_mem_acquire(sba, n); uint8_t pat=(uint8_t)(rand()|1);
       for (int i=0;i<live;i++) if (p < b[i].p + b[i].n && b[i].p < p + n) { printf("step %d: new block [%p,+%zu) overlaps live [%p,+%zu)\n", step,(void*)p,n,(void*)b[i].p,b[i].n); bad++; break; }
       memset(p, pat, n); b[live++] = (struct blk){p,n,pat}; }
    else { int i = rand()%live; for (size_t k=0;k<b[i].n;k++) if (b[i].p[k]!=b[i].pat) { printf("step %d: block %p size %zu corrupted at %zu\n", step,(void*)b[i].p,b[i].n,k); bad++; break; }
       aws_mem_release(sba, b[i].p); b[i]=b[--live]; }
    if (step % 97 == 0) { size_t exp=0; for (int i=0;i<live;i++) if (b[i].n<=512) { size_t c=32; while (c<b[i].n) c<<=1; exp+=c; }
       size_t act = aws_small_block_allocator_bytes_active(sba); if (act!=exp) { printf("step %d: bytes_active=%zu expected %zu\n", step, act, exp); bad++; } }
  }
  printf("seed %u bad=%ld\n", seed, bad); return bad?1:0; }
