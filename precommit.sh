#!/bin/sh
# what I run before committing a merge: the setup path (regen_all must exit 0), a full lake build, manifest + evidence schema validation
cd /verif
python3 -m lib.regen_all > /tmp/precommit.regen 2>&1 || { echo "regen_all FAILED"; grep -v " ok" /tmp/precommit.regen; exit 1; }
(cd lean && lake build 2>&1 | tail -2)
python3 gen_manifest.py > /dev/null && python3 gen_design_tables.py > /dev/null
python3-vt - <<'PY'
import json, jsonschema, glob
jsonschema.validate(json.load(open('/verif/MANIFEST.json')), json.load(open('/root/.vp/MANIFEST.schema.json')))
s = json.load(open('/root/.vp/EVIDENCE.schema.json'))
for f in sorted(glob.glob('/verif/evidence/*.json')):
    jsonschema.validate(json.load(open(f)), s)
print('manifest + evidence schemas ok')
PY
grep -rnE "sorry|admit|native_decide|bv_decide|implemented_by|maxHeartbeats 0|^axiom " lean/AwsVerif lean/Driver --include=*.lean | grep -vE ":[[:space:]]*--|/-|no sorry" | head -5
