"""Generated layer for C01 (second file): the pure leaf functions of source/byte_buf.c are re-translated from
/repo's *current* source into Lean on every run through gen/cfun.py, into lean/AwsVerif/Gen/ByteBufFns.lean:

  * aws_nospec_mask                                   (the empty `__asm__("" : "+r"(index))` optimisation barrier is dropped:
                                                       it is checked to be the empty template and changes no value)
  * aws_isalnum / aws_isalpha / aws_isdigit / aws_isxdigit / aws_isspace
                                                      (character literals -> integers; the `switch` of aws_isspace whose
                                                       cases all fall through to one `return` -> a disjunction)
  * the guard expressions of aws_byte_cursor_advance, aws_byte_cursor_advance_nospec, aws_byte_buf_write,
    aws_byte_buf_write_u8_n, aws_byte_buf_append and aws_byte_buf_advance: the text of the `if (...)` condition is cut out
    of the function body, `p->field` is renamed `p_field`, and the expression is wrapped in a stub
    `static bool verif_guard_X(size_t ...) { return <expr>; }` that clang parses in the scope of byte_buf.c.

`AwsVerif/Props/C01.lean` proves `Model.f = Gen.f` for each of them (bridge theorems), so an edit to one of these C
functions breaks a *named theorem*, not only the correspondence run.  Anything outside the subset raises GenError.
"""
import os, re, json
from . import cfun
from .cfun import GenError

PREDICATES = ["aws_isalnum", "aws_isalpha", "aws_isdigit", "aws_isxdigit", "aws_isspace"]

# stub name, C function, marker that the wanted `if` condition must contain, stub parameters (all size_t)
GUARDS = [
    ("verif_guard_cursor_advance", "aws_byte_cursor_advance", "cursor->len", ["cursor_len", "len"]),
    ("verif_guard_cursor_advance_nospec", "aws_byte_cursor_advance_nospec", "cursor->len", ["cursor_len", "len"]),
    ("verif_guard_buf_write", "aws_byte_buf_write", "buf->capacity", ["buf_len", "buf_capacity", "len"]),
    ("verif_guard_buf_write_u8_n", "aws_byte_buf_write_u8_n", "buf->capacity", ["buf_len", "buf_capacity", "count"]),
    ("verif_guard_buf_append", "aws_byte_buf_append", "to->capacity", ["to_capacity", "to_len", "from_len"]),
    ("verif_guard_buf_advance", "aws_byte_buf_advance", "buffer->capacity", ["buffer_capacity", "buffer_len", "len"]),
]


# validity predicates: stub name, C function, stub parameters (`p` itself as an address, then its fields; all size_t, NULL = 0)
VALIDS = [
    ("verif_valid_byte_buf", "aws_byte_buf_is_valid", ["buf", "buf_capacity", "buf_len", "buf_buffer"]),
    ("verif_valid_byte_cursor", "aws_byte_cursor_is_valid", ["cursor", "cursor_len", "cursor_ptr"]),
]


def _strip_comments(t):
    t = re.sub(r"/\*.*?\*/", lambda m: " " * len(m.group(0)), t, flags=re.S)
    return re.sub(r"//[^\n]*", lambda m: " " * len(m.group(0)), t)


def function_body(src, name):
    """text of the body of the (non-static or static) function `name` defined in src"""
    m = re.search(r"^(?:static\s+)?[A-Za-z_][\w \t\*]*?\b" + re.escape(name) + r"\s*\([^;{]*\)\s*\{", src, re.M)
    if not m:
        raise GenError(f"definition of {name} not found in byte_buf.c")
    i = m.end() - 1
    depth, j = 0, i
    while j < len(src):
        if src[j] == "{":
            depth += 1
        elif src[j] == "}":
            depth -= 1
            if depth == 0:
                return src[i:j + 1]
        j += 1
    raise GenError(f"unbalanced braces in {name}")


def if_condition(body, marker, fname):
    """the first `if (cond)` of the body whose condition mentions `marker`"""
    for m in re.finditer(r"\bif\s*\(", body):
        i = m.end() - 1
        depth, j = 0, i
        while j < len(body):
            if body[j] == "(":
                depth += 1
            elif body[j] == ")":
                depth -= 1
                if depth == 0:
                    break
            j += 1
        cond = body[i + 1:j]
        if marker in cond:
            return " ".join(cond.split())
    raise GenError(f"{fname}: no `if` condition mentioning `{marker}` (the guard moved or was removed)")


def guard_stub(src, stub, fname, marker, params):
    cond = if_condition(function_body(src, fname), marker, fname)
    expr = re.sub(r"\b(\w+)\s*->\s*(\w+)", r"\1_\2", cond)
    ids = set(re.findall(r"\b[A-Za-z_]\w*\b", expr)) - {"SIZE_MAX", "UINTPTR_MAX"}
    extra = ids - set(params)
    if extra:
        raise GenError(f"{fname}: the guard `{cond}` mentions {sorted(extra)} besides {params}")
    return cond, f"static bool {stub}({', '.join('size_t ' + p for p in params)}) {{ return ({expr}); }}\n"


def valid_stub(src, stub, fname, params):
    """the body of a validity predicate must be exactly `{ return <expr>; }`; pointers become addresses (`size_t`, NULL = 0),
    `p->field` becomes `p_field`; AWS_MEM_IS_READABLE / _WRITABLE are expanded by clang as configured (assert.h)"""
    body = " ".join(function_body(src, fname).split())
    m = re.fullmatch(r"\{ return (.*); \}", body)
    if not m or ";" in m.group(1):
        raise GenError(f"{fname}: body is no longer a single `return <expr>;`")
    cond = m.group(1)
    expr = re.sub(r"\b(\w+)\s*->\s*(\w+)", r"\1_\2", cond)
    expr = re.sub(r"\bNULL\b", "0", expr)
    ids = set(re.findall(r"\b[A-Za-z_]\w*\b", expr)) - {"AWS_MEM_IS_READABLE", "AWS_MEM_IS_WRITABLE"}
    extra = ids - set(params)
    if extra:
        raise GenError(f"{fname}: the predicate `{cond}` mentions {sorted(extra)} besides {params}")
    return cond, f"static bool {stub}({', '.join('size_t ' + p for p in params)}) {{ return ({expr}); }}\n"


# ---------------------------------------------------------------------------------- AST rewriting into cfun's subset
def _walk_replace(n, f):
    if isinstance(n, dict):
        if "inner" in n:
            n["inner"] = [_walk_replace(c, f) for c in n["inner"] if isinstance(c, dict)]
        return f(n)
    return n


def _int_lit(v):
    return {"kind": "IntegerLiteral", "value": str(v), "type": {"qualType": "int"}}


def _char_to_int(n):
    if n.get("kind") == "CharacterLiteral":
        return _int_lit(int(n["value"]))
    return n


def _case_chain(n, consts):
    """CaseStmt(const, CaseStmt(const, … stmt)) -> (consts, stmt)"""
    while n.get("kind") == "CaseStmt":
        c = n["inner"][0]
        while c.get("kind") in ("ConstantExpr", "ImplicitCastExpr", "ParenExpr"):
            c = c["inner"][0]
        if c.get("kind") not in ("IntegerLiteral", "CharacterLiteral"):
            raise GenError("switch: case label is not a literal")
        consts.append(int(c["value"]))
        n = n["inner"][1]
    return n


def _switch_to_if(n):
    """switch (e) { case a: case b: return X; default: return Y; }  ->  if (e == a || e == b) return X; return Y;"""
    if n.get("kind") != "CompoundStmt":
        return n
    out = []
    for s in n.get("inner", []):
        if s.get("kind") != "SwitchStmt":
            out.append(s)
            continue
        scrut, body = s["inner"][0], s["inner"][1]
        groups, default = [], None
        for item in body.get("inner", []):
            if item.get("kind") == "CaseStmt":
                consts = []
                st = _case_chain(item, consts)
                if st.get("kind") != "ReturnStmt":
                    raise GenError("switch: a case group that does not end in `return` (fall-through into other code)")
                groups.append((consts, st))
            elif item.get("kind") == "DefaultStmt":
                default = item["inner"][0]
                if default.get("kind") != "ReturnStmt":
                    raise GenError("switch: default is not a `return`")
            else:
                raise GenError("switch: statement outside a case group")
        if default is None:
            raise GenError("switch without default")
        for consts, st in groups:
            cond = None
            for c in consts:
                eq = {"kind": "BinaryOperator", "opcode": "==", "type": {"qualType": "int"}, "inner": [json.loads(json.dumps(scrut)), _int_lit(c)]}
                cond = eq if cond is None else {"kind": "BinaryOperator", "opcode": "||", "type": {"qualType": "int"}, "inner": [cond, eq]}
            out.append({"kind": "IfStmt", "inner": [cond, st]})
        out.append(default)
    n["inner"] = out
    return n


def _drop_asm(n):
    if n.get("kind") == "CompoundStmt":
        n["inner"] = [c for c in n.get("inner", []) if c.get("kind") != "GCCAsmStmt"]
    return n


def prepare(node):
    node = _walk_replace(node, _char_to_int)
    node = _walk_replace(node, _drop_asm)
    node = _walk_replace(node, _switch_to_if)
    return node


def translate(node, lean_name):
    tr = cfun.FnTranslator(prepare(node), lean_name, lambda c: None, {}, fuel=8)
    text, info = tr.translate()
    return text, info


def generate(repo, cfg_inc):
    inc = ["-I" + os.path.join(repo, "include"), "-I" + cfg_inc]
    path = os.path.join(repo, "source", "byte_buf.c")
    raw = open(path).read()
    src = _strip_comments(raw)
    # the only thing dropped from aws_nospec_mask: the empty-template optimisation barrier on `index`
    mask_body = function_body(src, "aws_nospec_mask")
    asms = re.findall(r"__asm__\s+__volatile__\s*\(([^;]*)\)\s*;", mask_body)
    for a in asms:
        if "".join(a.split()) != '"":"+r"(index)':
            raise GenError("aws_nospec_mask: inline asm other than the empty barrier `\"\" : \"+r\"(index)`: " + a.strip())
    stubs, conds = "", {}
    for stub, fname, marker, params in GUARDS:
        cond, text = guard_stub(src, stub, fname, marker, params)
        conds[stub] = (fname, cond)
        stubs += text
    vconds = {}
    for stub, fname, params in VALIDS:
        cond, text = valid_stub(src, stub, fname, params)
        vconds[stub] = (fname, cond)
        stubs += text
    tu = f'#include "{path}"\n' + stubs
    out = ["/-! GENERATED by gen/bytebuf_fns.py (through gen/cfun.py) from /repo/source/byte_buf.c on every check — do not edit.",
           "C integers are `Nat` (two's complement), every wrapping operation carries its `% 2^w`. -/",
           "set_option linter.unusedVariables false", "namespace AwsVerif.Gen.ByteBufFns", ""]
    meta = {}
    nodes = cfun.dump_functions(tu, "aws_nospec_mask", inc)
    if "aws_nospec_mask" not in nodes:
        raise GenError("aws_nospec_mask not found")
    text, info = translate(nodes["aws_nospec_mask"], "aws_nospec_mask")
    if [tuple(p) for p in info["params"]] != [("index", (64, False)), ("bound", (64, False))] or info["ret"] != (64, False):
        raise GenError(f"aws_nospec_mask changed its signature: {info['params']} -> {info['ret']}")
    out += ["/-- `size_t aws_nospec_mask(size_t index, size_t bound)` -/", text]
    pn = cfun.dump_functions(tu, "aws_is", inc)
    for p in PREDICATES:
        if p not in pn:
            raise GenError(f"{p} not found in byte_buf.c")
        text, info = translate(pn[p], p)
        if [tuple(x) for x in info["params"]] != [("ch", (8, False))] or info["ret"] != (1, False):
            raise GenError(f"{p} changed its signature")
        out += [f"/-- `bool {p}(uint8_t ch)` -/", text]
    gn = cfun.dump_functions(tu, "verif_guard_", inc)
    for stub, fname, marker, params in GUARDS:
        if stub not in gn:
            raise GenError(f"guard stub {stub} was not parsed")
        text, info = translate(gn[stub], stub)
        out += [f"/-- guard of `{fname}` as written: `{conds[stub][1]}` -/", text]
        meta[stub] = conds[stub][1]
    vn = cfun.dump_functions(tu, "verif_valid_", inc)
    for stub, fname, params in VALIDS:
        if stub not in vn:
            raise GenError(f"validity stub {stub} was not parsed")
        text, info = translate(vn[stub], stub)
        out += [f"/-- `{fname}` as written (pointers as addresses, NULL = 0): `{vconds[stub][1]}` -/", text]
        meta[stub] = vconds[stub][1]
    # growth constants of s_byte_buf_init_from_file_impl, evaluated by clang in the scope of source/file.c
    from . import log_gen
    fc = log_gen.constants(os.path.join(repo, "source", "file.c"), ["MIN_BUFFER_GROWTH_READING_FILES", "MAX_BUFFER_GROWTH_READING_FILES"],
                           inc + ["-D_POSIX_C_SOURCE=200809L", "-D_XOPEN_SOURCE=500"])
    for k, v in fc.items():
        out.append(f"def {k} : Nat := {v}")
    out.append("")
    out.append("end AwsVerif.Gen.ByteBufFns\n")
    return "\n".join(out), meta


if __name__ == "__main__":
    import sys
    sys.path.insert(0, os.path.dirname(os.path.dirname(os.path.abspath(__file__))))
    from lib import cbuild
    print(generate(cbuild.REPO, cbuild.config_include())[0])
