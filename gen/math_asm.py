"""Generated layer for C16, part 4: the *shape* of every inline-assembly statement of math.gcc_x64_asm.inl.

Inline assembly cannot be translated; its meaning is the hand model lean/AwsVerif/Model/MathAsm.lean.  What ties the
hand model to the source is (1) the correspondence run of the compiled assembly in several calling contexts and (2) this
table: for each function the assembler template, every output/input operand (symbolic name, constraint string, C
expression), the clobber list, the registers the template names literally, and the C statements around the asm —
extracted textually from the header on every run and compared *literally*, by a Lean theorem, with the table the hand
model was written against (`MathAsm.expectedShapes`).  Any textual change of an asm statement therefore needs the hand
model to be looked at again.
"""
import os, re
from .cfun import GenError

HEADER = os.path.join("include", "aws", "common", "math.gcc_x64_asm.inl")
IMPLICIT = {"mulq": ["rax", "rdx"], "mull": ["eax", "edx"], "mulw": ["ax", "dx"], "mulb": ["ax"],
            "imulq": [], "divq": ["rax", "rdx"], "divl": ["eax", "edx"]}


def _strip_comments(txt):
    out, i, n = [], 0, len(txt)
    while i < n:
        c = txt[i]
        if c == '"':
            j = i + 1
            while j < n and txt[j] != '"':
                j += 2 if txt[j] == "\\" else 1
            out.append(txt[i:j + 1]); i = j + 1
        elif txt.startswith("/*", i):
            j = txt.find("*/", i + 2)
            if j < 0:
                raise GenError("unterminated comment")
            out.append(" "); i = j + 2
        elif txt.startswith("//", i):
            j = txt.find("\n", i)
            i = n if j < 0 else j
        else:
            out.append(c); i += 1
    return "".join(out)


def _match(txt, i, open_c, close_c):
    """index just after the bracket that closes txt[i] (== open_c); string literals are skipped"""
    depth, n = 0, len(txt)
    while i < n:
        c = txt[i]
        if c == '"':
            i += 1
            while i < n and txt[i] != '"':
                i += 2 if txt[i] == "\\" else 1
        elif c == open_c:
            depth += 1
        elif c == close_c:
            depth -= 1
            if depth == 0:
                return i + 1
        i += 1
    raise GenError("unbalanced " + open_c)


def _split_top(txt, sep):
    parts, depth, cur, i, n = [], 0, [], 0, len(txt)
    while i < n:
        c = txt[i]
        if c == '"':
            j = i + 1
            while j < n and txt[j] != '"':
                j += 2 if txt[j] == "\\" else 1
            cur.append(txt[i:j + 1]); i = j + 1; continue
        if c in "([":
            depth += 1
        elif c in ")]":
            depth -= 1
        if c == sep and depth == 0:
            parts.append("".join(cur)); cur = []
        else:
            cur.append(c)
        i += 1
    parts.append("".join(cur))
    return parts


_ESC = {"n": "\n", "t": "\t", "\\": "\\", '"': '"', "0": "\0"}


def _strings(txt):
    """concatenation of the C string literals in txt (nothing else may occur there)"""
    out, i, n = [], 0, len(txt)
    while i < n:
        c = txt[i]
        if c.isspace():
            i += 1
        elif c == '"':
            i += 1
            while txt[i] != '"':
                if txt[i] == "\\":
                    if txt[i + 1] not in _ESC:
                        raise GenError("unsupported escape in asm string")
                    out.append(_ESC[txt[i + 1]]); i += 2
                else:
                    out.append(txt[i]); i += 1
            i += 1
        else:
            raise GenError(f"unexpected text in an asm string section: {txt[i:i + 20]!r}")
    return "".join(out)


def _norm(txt):
    return " ".join(txt.split())


def _operands(sec):
    ops = []
    if not sec.strip():
        return ops
    for o in _split_top(sec, ","):
        m = re.match(r'\s*(?:\[\s*(\w+)\s*\])?\s*("(?:[^"\\]|\\.)*")\s*\((.*)\)\s*$', o, flags=re.S)
        if not m:
            raise GenError(f"asm operand not understood: {_norm(o)!r}")
        ops.append((m.group(1) or "", _strings(m.group(2)), _norm(m.group(3))))
    return ops


def extract(repo):
    """[(function, dict(template, outputs, inputs, clobbers, hard_regs, context))] in file order"""
    path = os.path.join(repo, HEADER)
    if not os.path.exists(path):
        raise GenError(f"{HEADER} not found")
    txt = _strip_comments(open(path).read())
    res = []
    for m in re.finditer(r"AWS_STATIC_IMPL\s+([\w\s\*]+?)\b(\w+)\s*\(([^)]*)\)\s*\{", txt):
        name = m.group(2)
        b0 = m.end() - 1
        b1 = _match(txt, b0, "{", "}")
        body = txt[b0 + 1:b1 - 1]
        asms = list(re.finditer(r"\b(__asm__|asm|__asm)\b\s*(volatile|__volatile__)?\s*\(", body))
        if len(asms) != 1:
            raise GenError(f"{HEADER}: {name}: expected exactly one asm statement, found {len(asms)}")
        a = asms[0]
        p0 = a.end() - 1
        p1 = _match(body, p0, "(", ")")
        inner = body[p0 + 1:p1 - 1]
        secs = _split_top(inner, ":")
        if len(secs) != 4:
            raise GenError(f"{HEADER}: {name}: asm statement with {len(secs)} sections (template : outputs : inputs : clobbers expected)")
        template = _strings(secs[0])
        outs, ins = _operands(secs[1]), _operands(secs[2])
        clob = [_strings(c) for c in _split_top(secs[3], ",")] if secs[3].strip() else []
        after = body[p1:]
        if not after.lstrip().startswith(";"):
            raise GenError(f"{HEADER}: {name}: text after the asm statement")
        qual = " volatile" if a.group(2) else ""
        context = _norm(f"{_norm(m.group(1))} {name}({_norm(m.group(3))}) {{ {body[:a.start()]} ASM{qual}{after} }}")
        hard = sorted(set(re.findall(r"%%(\w+)", template)))
        # registers an instruction uses without naming them: one-operand mul writes rdx:rax
        implicit = sorted({r for line in template.split("\n") for mn in [line.split()[0] if line.split() else ""]
                           for r in IMPLICIT.get(mn, [])})
        res.append((name, dict(template=template, outputs=outs, inputs=ins, clobbers=clob, hard_regs=hard,
                               implicit_regs=implicit, context=context)))
    if not res:
        raise GenError(f"no functions recognised in {HEADER}")
    return res


def _ls(s):
    return '"' + s.replace("\\", "\\\\").replace('"', '\\"').replace("\n", "\\n").replace("\t", "\\t") + '"'


def lean_text(shapes):
    out = ["import AwsVerif.Model.MathAsm",
           "/-! GENERATED by gen/math_asm.py from /repo's include/aws/common/math.gcc_x64_asm.inl — do not edit. -/",
           "namespace AwsVerif.Gen.MathAsmShapes", "open AwsVerif.MathAsm", "",
           "def asmShapes : List (String × AsmShape) := ["]
    items = []
    for name, d in shapes:
        def ops(l):
            return "[" + ", ".join(f"⟨{_ls(n)}, {_ls(c)}, {_ls(e)}⟩" for n, c, e in l) + "]"
        items.append(f"  ({_ls(name)},\n   {{ template := {_ls(d['template'])},\n     outputs := {ops(d['outputs'])},\n"
                     f"     inputs := {ops(d['inputs'])},\n     clobbers := [{', '.join(_ls(c) for c in d['clobbers'])}],\n"
                     f"     hardRegs := [{', '.join(_ls(c) for c in d['hard_regs'])}],\n"
                     f"     implicitRegs := [{', '.join(_ls(c) for c in d['implicit_regs'])}],\n     context := {_ls(d['context'])} }})")
    out.append(",\n".join(items) + "]")
    out += ["", "end AwsVerif.Gen.MathAsmShapes", ""]
    return "\n".join(out)
