"""Generated layer for C15: the ring buffer's validity predicate, re-derived from /repo on every run.

  aws_ring_buffer_check_atomic_ptr, aws_ring_buffer_is_valid, aws_ring_buffer_is_empty   (include/aws/common/ring_buffer.inl)

Pointers are translated to `Nat` addresses (NULL = 0); `struct aws_ring_buffer *ring_buf` becomes a record `RB` of the
addresses it holds (`self` = the pointer itself).  Supported subset: `bool`/pointer locals initialised once, `return`,
`&& || == != < <= > >=`, parentheses and casts, NULL, `ring_buf->{allocation, allocation_end, allocator}`,
`aws_atomic_load_ptr(&ring_buf->{head, tail})`, calls to `aws_ring_buffer_check_atomic_ptr(ring_buf, p)`.
Anything else raises GenError (the source left the translatable subset: a broken correspondence, DESIGN 4.5).

Output: lean/AwsVerif/Gen/RingValid.lean (namespace AwsVerif.Gen.Ring).
"""
import os, re
from . import cfun
from .cfun import GenError

FIELDS = {"allocation": "allocation", "allocation_end": "allocationEnd", "allocator": "allocator"}
ATOMICS = {"head": "head", "tail": "tail"}
CMP = {"<": "<", "<=": "≤", ">": ">", ">=": "≥"}
BUF_FIELDS = {"buffer": ("b.buffer", "ptr"), "capacity": ("b.capacity", "size")}


def camel(n):
    p = n.split("_")
    return p[0] + "".join(x.capitalize() for x in p[1:])


def _is_ptr(node):
    return node.get("type", {}).get("qualType", "").strip().endswith("*")


class Tr:
    def __init__(self, struct_param, buf_param=None):
        self.sp = struct_param
        self.bp = buf_param   # name of a `const struct aws_byte_buf *` parameter (s_buf_belongs_to_pool), or None
        self.locals = {}      # C name -> (lean name, kind)

    def member(self, node):
        base = node["inner"][0]
        while base.get("kind") in ("ImplicitCastExpr", "ParenExpr"):
            base = base["inner"][0]
        if not (node.get("isArrow") and base.get("kind") == "DeclRefExpr" and base["referencedDecl"]["name"] == self.sp):
            raise GenError("member access not of the form ring_buf->field")
        return node["name"]

    @staticmethod
    def _base_name(node):
        base = node["inner"][0]
        while base.get("kind") in ("ImplicitCastExpr", "ParenExpr"):
            base = base["inner"][0]
        return base.get("referencedDecl", {}).get("name") if base.get("kind") == "DeclRefExpr" else None

    def expr(self, n):
        k = n.get("kind")
        if k in ("ParenExpr", "ImplicitCastExpr", "CStyleCastExpr"):
            if n.get("castKind") == "NullToPointer":
                return ("0", "ptr")
            return self.expr(n["inner"][0])
        if k == "DeclRefExpr":
            nm = n["referencedDecl"]["name"]
            if nm == self.sp:
                return ("rb.self", "ptr")
            if nm in self.locals:
                return self.locals[nm]
            raise GenError(f"reference to unknown name {nm}")
        if k == "MemberExpr" and self.bp is not None and self._base_name(n) == self.bp:
            if not n.get("isArrow") or n["name"] not in BUF_FIELDS:
                raise GenError(f"unsupported access buf->{n.get('name')}")
            return BUF_FIELDS[n["name"]]
        if k == "MemberExpr":
            f = self.member(n)
            if f not in FIELDS:
                raise GenError(f"unsupported field ring_buf->{f}")
            return ("rb." + FIELDS[f], "ptr")
        if k == "CallExpr":
            callee = n["inner"][0]
            while callee.get("kind") in ("ImplicitCastExpr", "ParenExpr"):
                callee = callee["inner"][0]
            nm = callee.get("referencedDecl", {}).get("name")
            args = n["inner"][1:]
            if nm == "aws_atomic_load_ptr" and len(args) == 1:
                a = args[0]
                while a.get("kind") in ("ImplicitCastExpr", "ParenExpr"):
                    a = a["inner"][0]
                if a.get("kind") == "UnaryOperator" and a.get("opcode") == "&" and a["inner"][0].get("kind") == "MemberExpr":
                    f = self.member(a["inner"][0])
                    if f in ATOMICS:
                        return ("rb." + ATOMICS[f], "ptr")
                raise GenError("aws_atomic_load_ptr of something other than &ring_buf->head / &ring_buf->tail")
            if nm == "aws_ring_buffer_check_atomic_ptr" and len(args) == 2:
                s, _ = self.expr(args[0])
                if s != "rb.self":
                    raise GenError("check_atomic_ptr called on another ring")
                e, kd = self.expr(args[1])
                if kd != "ptr":
                    raise GenError("check_atomic_ptr argument is not a pointer")
                return (f"(checkAtomicPtr rb {e})", "bool")
            raise GenError(f"unsupported call to {nm}")
        if k == "BinaryOperator":
            op = n["opcode"]
            a, ka = self.expr(n["inner"][0])
            b, kb = self.expr(n["inner"][1])
            if op in ("&&", "||"):
                return (f"({self.as_bool(a, ka)} {op} {self.as_bool(b, kb)})", "bool")
            if op == "+" and ka == "ptr" and kb == "size":
                # pointer + size_t count of bytes (uint8_t *): an address; the model's addresses do not wrap (DESIGN 6)
                if "uint8_t" not in n["inner"][0].get("type", {}).get("qualType", ""):
                    raise GenError("pointer arithmetic on something other than uint8_t *")
                return (f"({a} + {b})", "ptr")
            if ka != "ptr" or kb != "ptr":
                raise GenError(f"comparison {op} of non-pointers")
            if op in CMP:
                return (f"decide ({a} {CMP[op]} {b})", "bool")
            if op in ("==", "!="):
                return (f"({a} {op} {b})", "bool")
            raise GenError(f"unsupported operator {op}")
        raise GenError(f"unsupported expression kind {k}")

    @staticmethod
    def as_bool(e, kind):
        return e if kind == "bool" else f"({e} != 0)"

    def body(self, fn):
        comp = [c for c in fn["inner"] if c.get("kind") == "CompoundStmt"][0]
        lines, ret = [], None
        for st in comp.get("inner", []):
            if ret is not None:
                raise GenError("statement after return")
            if st["kind"] == "DeclStmt":
                for v in st["inner"]:
                    if v.get("kind") != "VarDecl" or not v.get("inner"):
                        raise GenError("unsupported declaration")
                    e, kd = self.expr(v["inner"][0])
                    if not _is_ptr(v) and kd == "ptr":
                        e, kd = self.as_bool(e, kd), "bool"
                    ln = camel(v["name"])
                    self.locals[v["name"]] = (ln, kd)
                    lines.append(f"  let {ln} := {e}")
            elif st["kind"] == "ReturnStmt":
                e, kd = self.expr(st["inner"][0])
                ret = self.as_bool(e, kd)
            else:
                raise GenError(f"unsupported statement {st['kind']}")
        if ret is None:
            raise GenError("no return statement")
        return "\n".join(lines + ["  " + ret])


def _walk(n):
    yield n
    for c in n.get("inner", []) or []:
        if isinstance(c, dict):
            yield from _walk(c)


def check_size_returns(repo, inc):
    """obligation on source/ring_buffer.c: no function (helper or API) returns a 64-bit size / pointer difference through a
    narrower integer return type (the model's sizes are unbounded naturals; a truncating helper breaks rings >= 4 GiB)"""
    src = os.path.join(repo, "source", "ring_buffer.c")
    text = open(src).read()
    fns = {}
    for prefix in ("s_", "aws_ring_buffer_"):
        fns.update(cfun.dump_functions(f'#include "{src}"\n', prefix, inc + ["-I" + os.path.join(repo, "source")]))
    for name, fn in fns.items():
        if not re.search(r"\b" + re.escape(name) + r"\s*\(", text):
            continue
        rq = fn["type"]["qualType"].split("(")[0].strip()
        rt = cfun._scalar(rq)
        if rt is None or rq in ("bool", "_Bool"):
            continue
        for node in _walk(fn):
            if node.get("kind") != "ReturnStmt" or not node.get("inner"):
                continue
            e = node["inner"][0]
            if e.get("kind") == "ImplicitCastExpr" and e.get("castKind") == "IntegralCast":
                try:
                    it = cfun.ctype_of(e["inner"][0])
                except GenError:
                    continue
                if isinstance(it, tuple) and it[0] != "ptr" and it[0] > rt[0]:
                    raise GenError(f"{name}() in ring_buffer.c returns a {it[0]}-bit value "
                                   f"({e['inner'][0]['type']['qualType']}) through the {rt[0]}-bit return type `{rq}`: sizes are truncated")


def release_shape(repo, inc):
    """`aws_ring_buffer_release` must contain exactly one atomic store, to &ring_buffer->tail, of `buf->buffer + buf->capacity`;
    returns that expression translated"""
    src = os.path.join(repo, "source", "ring_buffer.c")
    fns = cfun.dump_functions(f'#include "{src}"\n', "aws_ring_buffer_release", inc + ["-I" + os.path.join(repo, "source")])
    if "aws_ring_buffer_release" not in fns:
        raise GenError("aws_ring_buffer_release not found")
    fn = fns["aws_ring_buffer_release"]
    ps = [p["name"] for p in fn["inner"] if p.get("kind") == "ParmVarDecl"]
    if len(ps) != 2:
        raise GenError("unexpected parameter list of aws_ring_buffer_release")
    stores = []
    for node in _walk(fn):
        if node.get("kind") != "CallExpr":
            continue
        callee = node["inner"][0]
        while callee.get("kind") in ("ImplicitCastExpr", "ParenExpr"):
            callee = callee["inner"][0]
        if callee.get("referencedDecl", {}).get("name", "").startswith("aws_atomic_store_ptr"):
            stores.append(node)
    if len(stores) != 1:
        raise GenError(f"aws_ring_buffer_release performs {len(stores)} atomic pointer stores, expected exactly one (tail)")
    args = stores[0]["inner"][1:]
    a = args[0]
    while a.get("kind") in ("ImplicitCastExpr", "ParenExpr", "CStyleCastExpr"):
        a = a["inner"][0]
    if not (a.get("kind") == "UnaryOperator" and a.get("opcode") == "&" and a["inner"][0].get("kind") == "MemberExpr"
            and a["inner"][0].get("name") == "tail" and Tr._base_name(a["inner"][0]) == ps[0]):
        raise GenError("aws_ring_buffer_release stores to something other than &ring_buffer->tail")
    e, kd = Tr(ps[0], ps[1]).expr(args[1])
    if kd != "ptr":
        raise GenError("aws_ring_buffer_release stores a non-pointer")
    return e


def generate(repo, cfg_inc):
    inc = ["-I" + os.path.join(repo, "include"), "-I" + cfg_inc]
    check_size_returns(repo, inc)
    fns = cfun.dump_functions('#include <aws/common/ring_buffer.h>\n', "aws_ring_buffer_", inc)
    for need in ("aws_ring_buffer_check_atomic_ptr", "aws_ring_buffer_is_valid", "aws_ring_buffer_is_empty"):
        if need not in fns:
            raise GenError(f"{need} not found in ring_buffer.inl")
    chk, val = fns["aws_ring_buffer_check_atomic_ptr"], fns["aws_ring_buffer_is_valid"]
    cp = [p["name"] for p in chk["inner"] if p.get("kind") == "ParmVarDecl"]
    vp = [p["name"] for p in val["inner"] if p.get("kind") == "ParmVarDecl"]
    if len(cp) != 2 or len(vp) != 1:
        raise GenError("unexpected parameter lists")
    t1 = Tr(cp[0]); t1.locals[cp[1]] = (camel(cp[1]), "ptr")
    b1 = t1.body(chk)
    b2 = Tr(vp[0]).body(val)
    emp = fns["aws_ring_buffer_is_empty"]
    ep = [p["name"] for p in emp["inner"] if p.get("kind") == "ParmVarDecl"]
    if len(ep) != 1:
        raise GenError("unexpected parameter list of aws_ring_buffer_is_empty")
    b3 = Tr(ep[0]).body(emp)
    src = os.path.join(repo, "source", "ring_buffer.c")
    sfn = cfun.dump_functions(f'#include "{src}"\n', "s_buf_belongs_to_pool", inc + ["-I" + os.path.join(repo, "source")])
    if "s_buf_belongs_to_pool" not in sfn:
        raise GenError("s_buf_belongs_to_pool not found in source/ring_buffer.c")
    bel = sfn["s_buf_belongs_to_pool"]
    bp = [p["name"] for p in bel["inner"] if p.get("kind") == "ParmVarDecl"]
    if len(bp) != 2:
        raise GenError("unexpected parameter list of s_buf_belongs_to_pool")
    b4 = Tr(bp[0], bp[1]).body(bel)
    rel = release_shape(repo, inc)
    text = f"""/-! GENERATED by gen/ring_gen.py from include/aws/common/ring_buffer.inl — do not edit.
Pointers are `Nat` addresses, NULL = 0. -/
namespace AwsVerif.Gen.Ring

/-- the addresses a `struct aws_ring_buffer *` gives access to -/
structure RB where
  self : Nat
  allocation : Nat
  allocationEnd : Nat
  allocator : Nat
  head : Nat
  tail : Nat

/-- `aws_ring_buffer_check_atomic_ptr` -/
def checkAtomicPtr (rb : RB) ({camel(cp[1])} : Nat) : Bool :=
{b1}

/-- `aws_ring_buffer_is_valid` -/
def isValid (rb : RB) : Bool :=
{b2}

/-- `aws_ring_buffer_is_empty` -/
def isEmpty (rb : RB) : Bool :=
{b3}

/-- what a `struct aws_byte_buf *` handed to release / belongs_to_pool gives access to -/
structure Buf where
  buffer : Nat
  capacity : Nat

/-- `s_buf_belongs_to_pool` (source/ring_buffer.c; the precondition of `aws_ring_buffer_release` and the result of
`aws_ring_buffer_buf_belongs_to_pool`) -/
def bufBelongsToPool (rb : RB) (b : Buf) : Bool :=
{b4}

/-- the address `aws_ring_buffer_release` stores to `tail` -/
def releaseTail (b : Buf) : Nat :=
  {rel}

end AwsVerif.Gen.Ring
"""
    return text


if __name__ == "__main__":
    import sys
    sys.path.insert(0, os.path.dirname(os.path.dirname(os.path.abspath(__file__))))
    from lib import cbuild
    print(generate(cbuild.REPO, cbuild.config_include()))
