"""Generated layer for C04: the guards, offsets and lengths that decide which bytes of the *input* the small parsers
touch, cut out of /repo's current source text on every run.

From source/byte_buf.c, `aws_byte_cursor_read_hex_u8`: the minimum cursor length of its guard, the literal indices
  `cur->ptr[k]` it reads, the amounts by which `cur->ptr` / `cur->len` are advanced          -> readHex*
From source/uuid.c + include/aws/common/uuid.h: AWS_UUID_STR_LEN, the length precondition and the memcpy length of
  `aws_uuid_init_from_str`, the size of its local copy, the number of `%02hhx` conversions and the dash positions of
  UUID_FORMAT; the capacity precondition, the snprintf bound and the `output->len +=` of `aws_uuid_to_str`  -> uuid*
From source/host_utils.c: AWS_IPV4_STR_LEN, the length guard / copy size / memcpy length of `aws_host_utils_is_ipv4`,
  the field width of IP_CHAR_FMT and the octet bound; the `substr.len < a || substr.len > b` guard of
  `aws_host_utils_is_ipv6` and the digit / group limits of its loop                                      -> ipv4*, ipv6*

The extraction is textual (function body by brace matching, strict regular expressions on the statements named above,
a tiny evaluator for `NAME - 1` style constants).  Anything that does not have the expected shape is a GenError: the
bridge theorems of Proofs/C04/GenBridge.lean are then not re-proved and the check reports a broken correspondence.

Output: lean/AwsVerif/Gen/C04Consts.lean (namespace AwsVerif.Gen.C04).
"""
import os, re


class GenError(Exception):
    pass


def _read(repo, rel):
    try:
        with open(os.path.join(repo, rel)) as f:
            return f.read()
    except OSError as e:
        raise GenError("cannot read %s: %s" % (rel, e))


def _strip_comments(t):
    t = re.sub(r"/\*.*?\*/", " ", t, flags=re.S)
    return re.sub(r"//[^\n]*", " ", t)


def _body(text, header_re, what):
    m = re.search(header_re, text)
    if not m:
        raise GenError("%s: function header not found" % what)
    i = text.index("{", m.end() - 1)
    depth, j = 0, i
    while j < len(text):
        if text[j] == "{":
            depth += 1
        elif text[j] == "}":
            depth -= 1
            if depth == 0:
                return text[i:j + 1]
        j += 1
    raise GenError("%s: unbalanced braces" % what)


def _eval(expr, env, what):
    """NAME | int | expr (+|-) expr, left to right"""
    toks = re.findall(r"[A-Za-z_][A-Za-z0-9_]*|\d+|[+-]", expr.replace("(", " ").replace(")", " "))
    if not toks:
        raise GenError("%s: empty constant expression %r" % (what, expr))
    def val(t):
        if t.isdigit():
            return int(t)
        if t in env:
            return env[t]
        raise GenError("%s: unknown name %s in %r" % (what, t, expr))
    acc = val(toks[0])
    k = 1
    while k < len(toks):
        if toks[k] not in "+-" or k + 1 >= len(toks):
            raise GenError("%s: cannot evaluate %r" % (what, expr))
        acc = acc + val(toks[k + 1]) if toks[k] == "+" else acc - val(toks[k + 1])
        k += 2
    return acc


def _one(pattern, text, what, flags=0):
    ms = re.findall(pattern, text, flags)
    if len(ms) != 1:
        raise GenError("%s: expected exactly one match of /%s/, found %d" % (what, pattern, len(ms)))
    return ms[0]


def _ge_bound(op, n):
    """`len OP n` holds  <=>  len >= result"""
    if op == ">=":
        return n
    if op == ">":
        return n + 1
    raise GenError("unexpected comparison operator %s" % op)


def read_hex(repo):
    t = _strip_comments(_read(repo, "source/byte_buf.c"))
    b = _body(t, r"bool\s+aws_byte_cursor_read_hex_u8\s*\([^)]*\)\s*\{", "aws_byte_cursor_read_hex_u8")
    op, n = _one(r"if\s*\(\s*(?:AWS_LIKELY\s*\()?\s*cur->len\s*(>=|>)\s*(\d+)\s*\)", b, "read_hex_u8 length guard")
    min_len = _ge_bound(op, int(n))
    idx = re.findall(r"cur->ptr\s*\[([^\]]*)\]", b)
    if not idx or not all(i.strip().isdigit() for i in idx):
        raise GenError("read_hex_u8: cur->ptr[...] with a non-literal index: %r" % (idx,))
    if re.search(r"\*\s*\(?\s*cur->ptr", b):
        raise GenError("read_hex_u8: dereference of cur->ptr outside the cur->ptr[k] form")
    adv_p = int(_one(r"cur->ptr\s*\+=\s*(\d+)\s*;", b, "read_hex_u8 pointer advance"))
    adv_l = int(_one(r"cur->len\s*-=\s*(\d+)\s*;", b, "read_hex_u8 length decrease"))
    # the guard must dominate the reads: first read after the guard
    g = re.search(r"cur->len\s*(>=|>)", b).start()
    if min(m.start() for m in re.finditer(r"cur->ptr\s*\[", b)) < g:
        raise GenError("read_hex_u8: a read precedes the length guard")
    return dict(readHexMinLen=min_len, readHexIndices=sorted(int(i) for i in idx), readHexAdvancePtr=adv_p,
                readHexAdvanceLen=adv_l)


def uuid(repo):
    h = _strip_comments(_read(repo, "include/aws/common/uuid.h"))
    env = {"AWS_UUID_STR_LEN": int(_one(r"AWS_UUID_STR_LEN\s*=\s*(\d+)", h, "AWS_UUID_STR_LEN"))}
    raw = _read(repo, "source/uuid.c")
    t = _strip_comments(raw)
    b = _body(t, r"int\s+aws_uuid_init_from_str\s*\([^)]*\)\s*\{", "aws_uuid_init_from_str")
    op, e = _one(r"AWS_ERROR_PRECONDITION\s*\(\s*uuid_str->len\s*(>=|>)\s*([^,]+),", b, "from_str length precondition")
    min_len = _ge_bound(op, _eval(e, env, "from_str precondition"))
    cpy = _eval(_one(r"char\s+cpy\s*\[([^\]]+)\]\s*=\s*\{\s*0\s*\}", b, "from_str local copy"), env, "cpy size")
    dst, src, n = _one(r"memcpy\s*\(\s*(\w+)\s*,\s*([\w>-]+)\s*,\s*([^;]+)\)\s*;", b, "from_str memcpy")
    if dst != "cpy" or src != "uuid_str->ptr":
        raise GenError("from_str: memcpy(%s, %s, ...) is not memcpy(cpy, uuid_str->ptr, ...)" % (dst, src))
    copy_len = _eval(n, env, "from_str memcpy length")
    if b.index("memcpy") < b.index("AWS_ERROR_PRECONDITION"):
        raise GenError("from_str: memcpy precedes the length precondition")
    if re.search(r"uuid_str->ptr\s*\[|\*\s*uuid_str->ptr", b) or len(re.findall(r"uuid_str->ptr", b)) != 1:
        raise GenError("from_str: uuid_str->ptr is used outside the one memcpy")
    want = int(_one(r"if\s*\(\s*(\d+)\s*!=\s*sscanf\s*\(\s*cpy\s*,\s*UUID_FORMAT", re.sub(r"\s+", " ", b), "from_str sscanf test"))
    # UUID_FORMAT: groups of HEX_CHAR_FMT separated by "-"
    hexfmt = _one(r'#define\s+HEX_CHAR_FMT\s+"(%0?\d*)"\s*(SCNx8)', raw, "HEX_CHAR_FMT")
    width = int(hexfmt[0].lstrip("%").lstrip("0") or "0")
    fm = re.search(r"#define\s+UUID_FORMAT((?:.*\\\n)*.*)\n", raw)
    if not fm:
        raise GenError("UUID_FORMAT not found")
    toks = re.findall(r'HEX_CHAR_FMT|"-"', fm.group(1))
    groups, cur = [], 0
    for tk in toks:
        if tk == "HEX_CHAR_FMT":
            cur += 1
        else:
            groups.append(cur); cur = 0
    groups.append(cur)
    rest = re.sub(r'HEX_CHAR_FMT|"-"|\\|\s', "", fm.group(1))
    if rest:
        raise GenError("UUID_FORMAT contains unexpected tokens: %r" % rest)
    b2 = _body(t, r"int\s+aws_uuid_to_str\s*\([^)]*\)\s*\{", "aws_uuid_to_str")
    op2, e2 = _one(r"AWS_ERROR_PRECONDITION\s*\(\s*space_remaining\s*(>=|>)\s*([^,]+),", b2, "to_str capacity precondition")
    need = _ge_bound(op2, _eval(e2, env, "to_str precondition"))
    if not re.search(r"size_t\s+space_remaining\s*=\s*output->capacity\s*-\s*output->len\s*;", b2):
        raise GenError("to_str: space_remaining is not output->capacity - output->len")
    sn = re.sub(r"\s+", " ", b2)
    if not re.search(r"snprintf\s*\(\s*\(char \*\)\s*\(output->buffer \+ output->len\)\s*,\s*space_remaining\s*,\s*UUID_FORMAT", sn):
        raise GenError("to_str: snprintf destination / bound not recognised")
    adv = _eval(_one(r"output->len\s*\+=\s*([^;]+);", b2, "to_str length update"), env, "to_str length update")
    return dict(uuidStrLen=env["AWS_UUID_STR_LEN"], uuidFromMinLen=min_len, uuidFromCopySize=cpy, uuidFromCopyLen=copy_len,
                uuidConversions=want, uuidHexWidth=width, uuidGroups=groups, uuidToNeed=need, uuidToAdvance=adv)


def host(repo):
    raw = _read(repo, "source/host_utils.c")
    t = _strip_comments(raw)
    env = {"AWS_IPV4_STR_LEN": int(_one(r"#define\s+AWS_IPV4_STR_LEN\s+(\d+)", t, "AWS_IPV4_STR_LEN"))}
    b = _body(t, r"bool\s+aws_host_utils_is_ipv4\s*\([^)]*\)\s*\{", "aws_host_utils_is_ipv4")
    op, e = _one(r"if\s*\(\s*host\.len\s*(>=|>)\s*([^)]+)\)\s*\{\s*return false;", b, "is_ipv4 length guard")
    max_len = _ge_bound(op, _eval(e, env, "is_ipv4 guard")) - 1        # accepted: len <= max_len
    cpy = _eval(_one(r"char\s+copy\s*\[([^\]]+)\]\s*=\s*\{\s*0\s*\}", b, "is_ipv4 local copy"), env, "copy size")
    dst, src, n = _one(r"memcpy\s*\(\s*(\w+)\s*,\s*([\w.>-]+)\s*,\s*([^;]+)\)\s*;", b, "is_ipv4 memcpy")
    if (dst, src, n.strip()) != ("copy", "host.ptr", "host.len"):
        raise GenError("is_ipv4: memcpy(%s, %s, %s) is not memcpy(copy, host.ptr, host.len)" % (dst, src, n))
    if b.index("memcpy") < b.index("return false"):
        raise GenError("is_ipv4: memcpy precedes the length guard")
    if len(re.findall(r"host\.ptr", b)) != 1:
        raise GenError("is_ipv4: host.ptr is used outside the one memcpy")
    w = _one(r'#define\s+IP_CHAR_FMT\s+"%0?(\d+)"\s*SCNu16', raw, "IP_CHAR_FMT")
    octet_max = int(_one(r"octet\[i\]\s*>\s*(\d+)", b, "is_ipv4 octet bound"))
    want = int(_one(r"if\s*\(\s*(\d+)\s*!=\s*sscanf\s*\(", b, "is_ipv4 sscanf test"))
    b6 = _body(t, r"bool\s+aws_host_utils_is_ipv6\s*\([^)]*\)\s*\{", "aws_host_utils_is_ipv6")
    lo, hi = _one(r"substr\.len\s*<\s*(\d+)\s*\|\|\s*substr\.len\s*>\s*(\d+)", b6, "is_ipv6 length guard")
    dmax = int(_one(r"digit_count\s*>\s*(\d+)", b6, "is_ipv6 digit limit"))
    gmax = int(_one(r"group_count\s*>\s*(\d+)", b6, "is_ipv6 group limit"))
    idx = sorted(set(re.sub(r"\s+", "", i) for i in re.findall(r"substr\.ptr\s*\[([^\]]*)\]", b6)))
    return dict(ipv4MaxLen=max_len, ipv4CopySize=cpy, ipv4FieldWidth=int(w), ipv4OctetMax=octet_max, ipv4Conversions=want,
                ipv6MinLen=int(lo), ipv6MaxLen=int(hi), ipv6DigitMax=dmax, ipv6GroupMax=gmax), idx


def date(repo):
    """source/date_time.c: the bound on the index written into dt->tz by s_parse_rfc_822 against sizeof(tz), and the number of
    bytes STR_TRIPLET_TO_INDEX reads against the length get_month_number_from_str requires"""
    h = _strip_comments(_read(repo, "include/aws/common/date_time.h"))
    tz_size = int(_one(r"char\s+tz\s*\[(\d+)\]\s*;", h, "aws_date_time.tz"))
    max_len = int(_one(r"AWS_DATE_TIME_STR_MAX_LEN\s*=\s*(\d+)", h, "AWS_DATE_TIME_STR_MAX_LEN"))
    raw = _read(repo, "source/date_time.c")
    t = _strip_comments(raw)
    b = _body(t, r"static\s+bool\s+s_parse_rfc_822\s*\([^)]*\)\s*\{", "s_parse_rfc_822")
    stores = re.findall(r"dt->tz\s*\[([^\]]*)\]\s*=", b)
    if len(stores) != 1 or re.sub(r"\s+", "", stores[0]) != "index-state_start_index":
        raise GenError("s_parse_rfc_822: stores into dt->tz are not the single `dt->tz[index - state_start_index] = c`: %r" % (stores,))
    op, n = _one(r"\(\s*index\s*-\s*state_start_index\s*\)\s*(<=|<)\s*(\d+)\s*\)\s*\{\s*dt->tz\[", b, "tz index guard")
    tz_index_end = int(n) + (1 if op == "<=" else 0)          # indices written are < tz_index_end
    lop, ln = _one(r"while\s*\(\s*!error\s*&&\s*index\s*(<=|<)\s*len\s*\)", b, "rfc822 loop bound"), None
    if lop != "<":
        raise GenError("s_parse_rfc_822: loop bound is `index %s len`" % lop)
    mac = re.search(r"#define\s+STR_TRIPLET_TO_INDEX\(str\)((?:.*\\\n)*.*)\n", raw)
    if not mac:
        raise GenError("STR_TRIPLET_TO_INDEX not found")
    idx = [int(i) for i in re.findall(r"\(str\)\s*\[(\d+)\]", mac.group(1))]
    if not idx:
        raise GenError("STR_TRIPLET_TO_INDEX reads nothing?")
    m = _body(t, r"static\s+int\s+get_month_number_from_str\s*\([^)]*\)\s*\{", "get_month_number_from_str")
    mop, mn = _one(r"if\s*\(\s*stop_index\s*-\s*start_index\s*(<=|<)\s*(\d+)\s*\)\s*\{\s*return\s*-1\s*;", m, "month length guard")
    month_min = int(mn) + (1 if mop == "<=" else 0)           # proceeds only when stop - start >= month_min
    if not re.search(r"STR_TRIPLET_TO_INDEX\(\s*time_string\s*\+\s*start_index\s*\)", m):
        raise GenError("get_month_number_from_str: triplet is not read at time_string + start_index")
    pre = _one(r"AWS_ERROR_PRECONDITION\(\s*date_str_cursor->len\s*<=\s*(\w+)\s*,", t, "init_from_str_cursor length precondition")
    if pre != "AWS_DATE_TIME_STR_MAX_LEN":
        raise GenError("init_from_str_cursor: length precondition bound is %s" % pre)
    return dict(dateTzSize=tz_size, dateTzIndexEnd=tz_index_end, dateTripletReads=max(idx) + 1, dateMonthMinLen=month_min,
                dateStrMaxLen=max_len)


def generate(repo):
    vals = {}
    vals.update(date(repo))
    vals.update(read_hex(repo))
    vals.update(uuid(repo))
    hv, idx6 = host(repo)
    vals.update(hv)
    out = ["/-! GENERATED by gen/c04_gen.py from /repo's current source on every run — do not edit. -/",
           "namespace AwsVerif.Gen.C04", ""]
    for k, v in vals.items():
        if isinstance(v, list):
            out.append("def %s : List Nat := [%s]" % (k, ", ".join(str(x) for x in v)))
        else:
            out.append("def %s : Nat := %d" % (k, v))
    out.append("/-- the index expressions `substr.ptr[...]` of aws_host_utils_is_ipv6, as written -/")
    out.append("def ipv6Indices : List String := [%s]" % ", ".join('"%s"' % i for i in idx6))
    out += ["", "end AwsVerif.Gen.C04", ""]
    return "\n".join(out), vals


if __name__ == "__main__":
    import sys
    print(generate(sys.argv[1] if len(sys.argv) > 1 else "/repo")[0])
