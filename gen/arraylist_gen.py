"""Generated layer for C09 (array list): the pure integer leaves of source/array_list.c are re-translated
from /repo's *current* source text into Lean on every run (gen/cfun.py, clang-14 JSON AST).

The functions of array_list.c take `struct aws_array_list *`, which is outside the translator's subset, so the
integer computations are isolated as stub functions built from the source text itself:

  * `aws_array_list_calc_necessary_size`: the whole body, with `list->item_size` turned into a parameter and the
    pre/post-condition macro lines dropped; its calls to `aws_add_size_checked` / `aws_mul_size_checked` resolve to
    the generated `AwsVerif.Gen.Math.MathInl.*` (gen/math_gen.py);
  * the growth rule of `aws_array_list_ensure_capacity`: the guard `if (list->current_size < necessary_size)`, the two
    declarations `next_allocation_size = …; new_size = …;` and the overflow test `if (new_size < list->current_size)`;
  * the slice arithmetic of `aws_array_list_mem_swap`: `enum { SLICE = … }`, `slice_count = …`, `remainder = …`.

If the source no longer has that shape the generator raises GenError (a broken correspondence, DESIGN 4.5).
Output: lean/AwsVerif/Gen/ArrayListFns.lean (namespace AwsVerif.Gen.ArrayListFns); the bridge theorems
`c09_gen_*` of Props/C09.lean tie the hand-written model to these definitions.
"""
import os, re
from . import cfun, math_gen
from .cfun import GenError

MATH_NS = "AwsVerif.Gen.Math"


def _function_text(src, name):
    """(parameter text, body text without the outer braces) of a function definition in a C source text"""
    m = re.search(r"\b" + re.escape(name) + r"\s*\(([^)]*)\)\s*\{", src)
    if not m:
        raise GenError(f"{name}: definition not found in array_list.c")
    i = m.end()
    depth, j = 1, i
    while j < len(src) and depth:
        if src[j] == "{":
            depth += 1
        elif src[j] == "}":
            depth -= 1
        j += 1
    if depth:
        raise GenError(f"{name}: unbalanced braces")
    return m.group(1), src[i:j - 1]


def _strip_comments(t):
    t = re.sub(r"/\*.*?\*/", " ", t, flags=re.S)
    return re.sub(r"//[^\n]*", " ", t)


def _drop_contract_macros(body):
    return re.sub(r"^\s*AWS_(?:FATAL_)?(?:PRE|POST)CONDITION\s*\(.*?\);\s*$", "", body, flags=re.M)


def _no_list(text, what):
    if "list->" in text or re.search(r"\blist\b", text):
        raise GenError(f"{what}: still refers to the list structure after isolating the integer fields: {text.strip()[:200]}")
    return text


def stub_source(repo):
    """C text of the stub translation unit, built from the current source"""
    src = _strip_comments(open(os.path.join(repo, "source", "array_list.c")).read())
    out = ["#include <aws/common/common.h>", "#include <aws/common/math.h>", "#include <stdbool.h>", ""]
    # ---- calc_necessary_size: whole body
    params, body = _function_text(src, "aws_array_list_calc_necessary_size")
    if not re.search(r"size_t\s+index\b", params) or not re.search(r"size_t\s*\*\s*necessary_size\b", params):
        raise GenError("aws_array_list_calc_necessary_size changed its parameters: " + " ".join(params.split()))
    body = _drop_contract_macros(body).replace("list->item_size", "list_item_size")
    _no_list(body, "aws_array_list_calc_necessary_size")
    out.append("int verif_c09_calc_necessary_size(size_t list_item_size, size_t index, size_t *necessary_size) {" + body + "}\n")
    # ---- growth rule of ensure_capacity
    _, ebody = _function_text(src, "aws_array_list_ensure_capacity")
    m = re.search(r"if\s*\(([^{};]*?)\)\s*\{\s*if\s*\(\s*!\s*list->alloc\s*\)", ebody)
    if not m:
        raise GenError("aws_array_list_ensure_capacity: growth guard `if (<cond>) { if (!list->alloc)` not found")
    guard = m.group(1).replace("list->current_size", "list_current_size")
    m2 = re.search(r"(size_t\s+next_allocation_size\s*=[^;]*;\s*size_t\s+new_size\s*=[^;]*;)\s*if\s*\(([^{};]*?)\)\s*\{", ebody)
    if not m2:
        raise GenError("aws_array_list_ensure_capacity: `size_t next_allocation_size = …; size_t new_size = …; if (…) {` not found")
    decls = m2.group(1).replace("list->current_size", "list_current_size")
    ovf = m2.group(2).replace("list->current_size", "list_current_size")
    for t in (guard, decls, ovf):
        _no_list(t, "aws_array_list_ensure_capacity growth rule")
    out.append(f"bool verif_c09_needs_growth(size_t list_current_size, size_t necessary_size) {{ return ({guard}); }}")
    out.append(f"size_t verif_c09_growth_new_size(size_t list_current_size, size_t necessary_size) {{ {decls} return new_size; }}")
    out.append(f"bool verif_c09_growth_overflowed(size_t list_current_size, size_t new_size) {{ return ({ovf}); }}\n")
    # ---- slice arithmetic of mem_swap
    _, sbody = _function_text(src, "aws_array_list_mem_swap")
    me = re.search(r"enum\s*\{\s*SLICE\s*=\s*[^}]*\}\s*;", sbody)
    mc = re.search(r"size_t\s+slice_count\s*=[^;]*;", sbody)
    mr = re.search(r"size_t\s+remainder\s*=[^;]*;", sbody)
    if not (me and mc and mr):
        raise GenError("aws_array_list_mem_swap: `enum { SLICE = … }`, `size_t slice_count = …;`, `size_t remainder = …;` not all found")
    out.append(me.group(0))
    out.append("size_t verif_c09_slice(void) { return SLICE; }")
    out.append(f"size_t verif_c09_slice_count(size_t item_size) {{ {mc.group(0)} return slice_count; }}")
    out.append(f"size_t verif_c09_slice_remainder(size_t item_size) {{ {mr.group(0)} return remainder; }}")
    # ---- index / count guards and byte arithmetic of the inline functions (array_list.inl)
    inl = _strip_comments(open(os.path.join(repo, "include", "aws", "common", "array_list.inl")).read())

    def fields(t):
        return (t.replace("aws_array_list_length(list)", "list_length").replace("list->length", "list_length")
                 .replace("list->item_size", "list_item_size"))

    def first_guard(fn):
        _, b = _function_text(inl, fn)
        b = fields(_drop_contract_macros(b))
        m = re.search(r"\bif\s*\(([^{};]*?)\)\s*\{", b)
        if not m:
            raise GenError(f"{fn}: no leading `if (<guard>) {{` found")
        return _no_list(m.group(1), fn + " guard"), b

    g, pbody = first_guard("aws_array_list_pop_front_n")
    if "aws_array_list_clear" not in pbody[pbody.find(g):pbody.find(g) + 200]:
        raise GenError("aws_array_list_pop_front_n: the first guard is no longer the pop-everything test")
    out.append(f"\nbool verif_c09_pop_front_n_all(size_t list_item_size, size_t list_length, size_t n) {{ return ({g}); }}")
    exprs = {}
    for nm in ("popping_bytes", "remaining_items", "remaining_bytes"):
        m = re.search(r"size_t\s+" + nm + r"\s*=\s*([^;]*);", pbody)
        if not m:
            raise GenError(f"aws_array_list_pop_front_n: `size_t {nm} = …;` not found")
        exprs[nm] = _no_list(m.group(1), "aws_array_list_pop_front_n " + nm)
    m = re.search(r"\bif\s*\(([^{};]*?)\)\s*\{\s*size_t\s+popping_bytes", pbody)
    if not m:
        raise GenError("aws_array_list_pop_front_n: `if (<n > 0>) { size_t popping_bytes` not found")
    out.append(f"bool verif_c09_pop_front_n_some(size_t list_item_size, size_t list_length, size_t n) {{ return ({m.group(1)}); }}")
    out.append(f"size_t verif_c09_pop_front_n_popping(size_t list_item_size, size_t list_length, size_t n) {{ return ({exprs['popping_bytes']}); }}")
    out.append("size_t verif_c09_pop_front_n_remaining(size_t list_item_size, size_t list_length, size_t n) { "
               f"size_t popping_bytes = {exprs['popping_bytes']}; size_t remaining_items = {exprs['remaining_items']}; "
               f"size_t remaining_bytes = {exprs['remaining_bytes']}; return remaining_bytes; }}")
    out.append("size_t verif_c09_pop_front_n_length(size_t list_item_size, size_t list_length, size_t n) { "
               f"size_t remaining_items = {exprs['remaining_items']}; return remaining_items; }}")
    for fn, stub in (("aws_array_list_get_at", "get_at_ok"), ("aws_array_list_get_at_ptr", "get_at_ptr_ok")):
        g, _ = first_guard(fn)
        out.append(f"bool verif_c09_{stub}(size_t list_length, size_t index) {{ return ({g}); }}")
    g, eb = first_guard("aws_array_list_erase")
    if not re.search(r"const\s+size_t\s+length\s*=\s*list_length\s*;", eb):
        raise GenError("aws_array_list_erase: `const size_t length = aws_array_list_length(list);` not found")
    out.append(f"bool verif_c09_erase_bad_index(size_t length, size_t index) {{ return ({g}); }}")
    return "\n".join(out) + "\n", me.group(0)


class StatusIfTranslator(cfun.FnTranslator):
    """adds the idiom  `if (status_fn(args…, &local | out_param)) { … return AWS_OP_ERR; }`  (the callee's error code
    stays in aws_last_error, so `return AWS_OP_ERR` in that branch propagates it)"""

    def __init__(self, *a, **k):
        super().__init__(*a, **k)
        self.pending_err = None

    def _status_call(self, cnode):
        s = self._strip(cnode)
        if s.get("kind") != "CallExpr":
            return None
        try:
            cal = self._callee(s)
        except GenError:
            return None
        r = self.resolve_call(cal)
        if r and r[1].get("kind") == "status":
            return s, r
        return None

    def stmts(self, lst, env, ind, on_end, loop_exit=None):
        if lst and lst[0]["kind"] == "IfStmt":
            sc = self._status_call(lst[0]["inner"][0])
            if sc is not None:
                call, (lean_fn, info) = sc
                parts = lst[0]["inner"]
                args, dest = [], None
                for a, (pn, pt) in zip(call["inner"][1:], info["params"]):
                    if pt[0] == "ptr":
                        p = self._strip(a)
                        while p["kind"] in ("CStyleCastExpr", "ImplicitCastExpr"):
                            p = self._strip(p["inner"][0])
                        if p["kind"] == "UnaryOperator" and p["opcode"] == "&":
                            dest = ("var", self._strip(p["inner"][0])["referencedDecl"]["name"])
                        elif p["kind"] == "DeclRefExpr" and p["referencedDecl"]["name"] in self.ptr_params:
                            dest = ("out", p["referencedDecl"]["name"])
                        else:
                            raise GenError("status call with an unsupported destination")
                        continue
                    e, t = self.expr(a, env)
                    args.append(self.conv(e, t, pt))
                if dest is None:
                    raise GenError("status call without a destination")
                code = self.new("code")
                val = self.new(dest[1] + ("_out" if dest[0] == "out" else ""))
                e_err = env.copy()
                saved = self.pending_err
                self.pending_err = code
                t_txt = self.stmts([parts[1]] + lst[1:], e_err, ind + "    ", on_end, loop_exit)
                self.pending_err = saved
                e_ok = env.copy()
                if dest[0] == "var":
                    e_ok.vars[dest[1]] = (val, e_ok.vars[dest[1]][1])
                else:
                    e_ok.outs[dest[1]] = val
                o_txt = self.stmts(([parts[2]] if len(parts) > 2 else []) + lst[1:], e_ok, ind + "    ", on_end, loop_exit)
                return (f"{ind}match {lean_fn} {' '.join(args)} with\n{ind}| CSem.Res.err {code} =>\n{t_txt}"
                        f"{ind}| CSem.Res.ok {val} =>\n{o_txt}")
        return super().stmts(lst, env, ind, on_end, loop_exit)

    def do_return(self, n, env):
        inner = n.get("inner", [])
        if self.kind == "status" and self.pending_err and inner:
            e = self._strip(inner[0])
            while e["kind"] in ("ParenExpr", "ImplicitCastExpr", "CStyleCastExpr"):
                e = self._strip(e["inner"][0])
            if e["kind"] == "UnaryOperator" and e["opcode"] == "-":
                lit = self._strip(e["inner"][0])
                if lit["kind"] == "IntegerLiteral" and int(lit["value"]) == 1:
                    return f"CSem.Res.err {self.pending_err}"
        return super().do_return(n, env)


LEAN_NAMES = {
    "verif_c09_calc_necessary_size": ("calc_necessary_size", "`aws_array_list_calc_necessary_size` with `list->item_size` as a parameter"),
    "verif_c09_needs_growth": ("needs_growth", "guard of the growth branch of `aws_array_list_ensure_capacity`"),
    "verif_c09_growth_new_size": ("growth_new_size", "`next_allocation_size = current_size << 1; new_size = …` of `aws_array_list_ensure_capacity`"),
    "verif_c09_growth_overflowed": ("growth_overflowed", "the overflow test that follows the growth computation"),
    "verif_c09_slice": ("slice", "`enum { SLICE = … }` of `aws_array_list_mem_swap`"),
    "verif_c09_slice_count": ("slice_count", "`slice_count` of `aws_array_list_mem_swap`"),
    "verif_c09_slice_remainder": ("slice_remainder", "`remainder` of `aws_array_list_mem_swap`"),
    "verif_c09_pop_front_n_all": ("pop_front_n_all", "the pop-everything guard of `aws_array_list_pop_front_n`"),
    "verif_c09_pop_front_n_some": ("pop_front_n_some", "the second guard of `aws_array_list_pop_front_n`"),
    "verif_c09_pop_front_n_popping": ("pop_front_n_popping", "`popping_bytes` of `aws_array_list_pop_front_n`"),
    "verif_c09_pop_front_n_remaining": ("pop_front_n_remaining", "`remaining_bytes` of `aws_array_list_pop_front_n`"),
    "verif_c09_pop_front_n_length": ("pop_front_n_length", "`remaining_items` (the new length) of `aws_array_list_pop_front_n`"),
    "verif_c09_get_at_ok": ("get_at_ok", "index guard of `aws_array_list_get_at`"),
    "verif_c09_get_at_ptr_ok": ("get_at_ptr_ok", "index guard of `aws_array_list_get_at_ptr`"),
    "verif_c09_erase_bad_index": ("erase_bad_index", "index guard of `aws_array_list_erase`"),
}
ORDER = list(LEAN_NAMES)


def generate(repo, cfg_inc, math_meta=None):
    """returns (lean text, meta)"""
    inc = ["-I" + os.path.join(repo, "include"), "-I" + cfg_inc]
    if math_meta is None:
        _, _, math_meta = math_gen.generate(repo, cfg_inc)
    math = {m["name"]: (f"{MATH_NS}.{m['ns']}.{m['name']}", m["info"]) for m in math_meta if m["variant"] == "mi"}
    tu, enum_text = stub_source(repo)
    nodes = cfun.dump_functions(tu, "verif_c09_", inc)
    for n in ORDER:
        if n not in nodes:
            raise GenError(f"stub {n} not found in the AST")
    enum_names = set()
    for n in ORDER:
        cfun.collect_enum_names(nodes[n], enum_names)
    unknown = enum_names - {"SLICE"}
    enums = cfun.enum_probe(sorted(unknown), inc) if unknown else {}
    if "SLICE" in enum_names:
        enums.update(cfun.enum_probe(["SLICE"], inc, header=enum_text + "\n"))

    def resolve(cname):
        return math.get(cname)

    chunks, meta = [], {}
    for n in ORDER:
        lean_name, doc = LEAN_NAMES[n]
        tr = StatusIfTranslator(nodes[n], lean_name, resolve, enums, fuel=8)
        try:
            text, info = tr.translate()
        except GenError as e:
            raise GenError(f"{n}: {e}")
        chunks.append(f"/-- {doc} -/\n{text}")
        meta[lean_name] = info
    want = {"calc_necessary_size": ("status", 3), "needs_growth": ("value", 2), "growth_new_size": ("value", 2),
            "growth_overflowed": ("value", 2), "slice": ("value", 0), "slice_count": ("value", 1), "slice_remainder": ("value", 1),
            "pop_front_n_all": ("value", 3), "pop_front_n_some": ("value", 3), "pop_front_n_popping": ("value", 3),
            "pop_front_n_remaining": ("value", 3), "pop_front_n_length": ("value", 3), "get_at_ok": ("value", 2),
            "get_at_ptr_ok": ("value", 2), "erase_bad_index": ("value", 2)}
    for k, (kind, np) in want.items():
        if meta[k]["kind"] != kind or len(meta[k]["params"]) != np:
            raise GenError(f"{k}: unexpected shape {meta[k]['kind']} / {len(meta[k]['params'])} parameters")
    out = ["import AwsVerif.Model.CSem", "import AwsVerif.Gen.Math",
           "/-! GENERATED by gen/arraylist_gen.py from /repo's source/array_list.c and include/aws/common/array_list.inl — do not edit. -/",
           "set_option linter.unusedVariables false", "namespace AwsVerif.Gen.ArrayListFns", "open AwsVerif", ""]
    out += chunks
    out.append("end AwsVerif.Gen.ArrayListFns\n")
    return "\n".join(out), dict(meta=meta, enums=enums, stub=tu)
