"""Generated layer for C10 (CBOR): re-derived from /repo's source on every run.

From source/external/libcbor/cbor/internal/encoders.c (gen/cfun.py on rewritten ASTs):
  * `_cbor_encode_uint`: the width decision, with each call `_cbor_encode_uintN((uintN_t)value, buffer, buffer_size,
    offset)` replaced by the literal N after checking the argument list -> `encodeUintWidth value`
  * `_cbor_encode_uint8/16/32/64`: the returned length as a function of (value, buffer_size, offset) with the stores
    into `buffer[]` removed -> `encNLen`; and one function per stored byte (`buffer[i] = e` rewritten to an
    out-parameter store, the other stores removed) -> `encN_bI … = (length, byte I)`
From cbor/encoding.c: for every `cbor_encode_*` the inner writer it returns and the offset / byte literal it passes
  (`encFns`), `_cbor_encode_byte`'s length function.
From source/cbor.c: the `s_cbor_element_width_*` constants, the `s_cbor_simple_val` enum, and for every
  `aws_cbor_encoder_write_*` (and `s_cbor_encoder_write_type_only`) each libcbor encode call with the reserve call in front
  of it: WHICH reserve function, the reserved size (constant part, `+ from.len`), the encode function, the control
  values passed (`sites`).
From cbor/streaming.c: `claim_bytes`' test with `result->read` lifted to a parameter and the stores removed
  (`claimBytes`), and one row per initial byte of the switch of `cbor_stream_decode`: claimed length, loader and the
  bytes it reads, where it reads, callback, error (`decodeTable`).
From cbor/internal/loaders.c: `_cbor_load_uint16/32/64` with the byte reads `*(source + k)` lifted to parameters, and
  the number of bytes every `_cbor_load_*` reads (`loaderWidths`).

Output: lean/AwsVerif/Gen/CborConsts.lean (namespace AwsVerif.Gen.Cbor).
"""
import copy, json, os, re
from . import cfun
from .cfun import GenError

PASS = ("ImplicitCastExpr", "ParenExpr", "CStyleCastExpr", "ConstantExpr")
U8 = {"qualType": "unsigned char"}


def _includes(repo, cfg_inc):
    return ["-I" + os.path.join(repo, "source", "external", "libcbor"), "-I" + os.path.join(repo, "source"),
            "-I" + os.path.join(repo, "include"), "-I" + cfg_inc, "-D_POSIX_C_SOURCE=200809L", "-D_XOPEN_SOURCE=500"]


def _strip(n):
    while n.get("kind") in PASS:
        n = n["inner"][0]
    return n


def _walk(n):
    yield n
    for c in n.get("inner", []) or []:
        if isinstance(c, dict):
            yield from _walk(c)


def _callee(n):
    if n.get("kind") != "CallExpr":
        return None
    f = _strip(n["inner"][0])
    if f.get("kind") == "DeclRefExpr":
        return f["referencedDecl"]["name"]
    if f.get("kind") == "MemberExpr":
        return "->" + f.get("name", "?")
    return None


def _ref_name(n):
    n = _strip(n)
    if n.get("kind") == "DeclRefExpr":
        return n["referencedDecl"]["name"]
    return None


def _lit(n):
    n = _strip(n)
    if n.get("kind") == "IntegerLiteral":
        return int(n["value"])
    if n.get("kind") == "CXXBoolLiteralExpr":
        return 1 if n.get("value") else 0
    return None


def _body(fn):
    b = [c for c in fn["inner"] if c.get("kind") == "CompoundStmt"]
    if len(b) != 1:
        raise GenError(f"{fn.get('name')} has no body")
    return b[0]


def _params(fn):
    return [c for c in fn["inner"] if c.get("kind") == "ParmVarDecl"]


UINT = {"qualType": "unsigned int"}


def _unsign_shifts(n):
    """`(int)x >> k` where x has an unsigned type narrower than int (integer promotion): the operand is never negative,
    so the shift is the same on `unsigned int`; retyped because the translator refuses right shifts of signed values"""
    m = dict(n)
    if "inner" in n:
        m["inner"] = [_unsign_shifts(c) if isinstance(c, dict) else c for c in n["inner"]]
    if m.get("kind") == "BinaryOperator" and m.get("opcode") == ">>" and m.get("type", {}).get("qualType") == "int":
        lhs = m["inner"][0]
        if lhs.get("kind") == "ImplicitCastExpr" and lhs.get("castKind") == "IntegralCast":
            src = cfun.ctype_of(lhs["inner"][0])
            if src[0] != "ptr" and not src[1] and src[0] < 32:
                lhs = dict(lhs); lhs["type"] = dict(UINT)
                m["inner"] = [lhs] + m["inner"][1:]
                m["type"] = dict(UINT)
    return m


def _translate(node, lean_name, resolve=lambda c: None, enums=None):
    node = _unsign_shifts(node)
    tr = cfun.FnTranslator(node, lean_name, resolve, enums or {}, fuel=4)
    return tr.translate()


# ---------------------------------------------------------------------------------------------- encoders.c
def _is_buffer_store(s):
    """`buffer[i] = e;` -> (i, e) else None"""
    s0 = s
    if s0.get("kind") != "BinaryOperator" or s0.get("opcode") != "=":
        return None
    lhs = _strip(s0["inner"][0])
    if lhs.get("kind") != "ArraySubscriptExpr":
        return None
    if _ref_name(lhs["inner"][0]) != "buffer":
        raise GenError("store into something other than buffer[]")
    i = _lit(lhs["inner"][1])
    if i is None:
        raise GenError("store into buffer[] at a non-literal index")
    return i, s0["inner"][1], lhs["inner"][0]


def _rewrite_stores(n, keep):
    """copy of statement tree `n` with the stores into buffer[] removed; the store at index `keep` (if not None) becomes
    `*buffer = e`"""
    if n.get("kind") == "CompoundStmt":
        out = []
        for s in n.get("inner", []):
            st = _is_buffer_store(s)
            if st is not None:
                if keep is not None and st[0] == keep:
                    out.append({"kind": "BinaryOperator", "opcode": "=", "type": dict(U8),
                                "inner": [{"kind": "UnaryOperator", "opcode": "*", "type": dict(U8), "inner": [st[2]]}, st[1]]})
                continue
            out.append(_rewrite_stores(s, keep))
        m = dict(n)
        m["inner"] = out
        return m
    m = dict(n)
    if "inner" in n:
        m["inner"] = [_rewrite_stores(c, keep) if isinstance(c, dict) else c for c in n["inner"]]
    return m


def _no_ref(n, name, where):
    for x in _walk(n):
        if x.get("kind") == "DeclRefExpr" and x.get("referencedDecl", {}).get("name") == name:
            raise GenError(f"{where}: `{name}` is used other than in the rewritten places")


def encoder_functions(fn, width):
    """-> (lean text of encNLen and encN_bI, number of bytes stored at most)"""
    name = fn["name"]
    body = _body(fn)
    idx = sorted({st[0] for s in _walk(body) if s.get("kind") == "BinaryOperator" for st in [_is_buffer_store(s)] if st})
    if idx != list(range(len(idx))) or not idx:
        raise GenError(f"{name}: stores into buffer[] are not at indices 0..k")
    out = []
    # length function: no buffer at all
    nb = _rewrite_stores(body, None)
    _no_ref(nb, "buffer", name)
    ps = [p for p in _params(fn) if p["name"] != "buffer"]
    if [p["name"] for p in ps] != ["value", "buffer_size", "offset"]:
        raise GenError(f"{name}: unexpected parameter list")
    node = {"kind": "FunctionDecl", "name": name, "type": {"qualType": "size_t (void)"}, "inner": ps + [nb]}
    text, info = _translate(node, f"enc{width}Len")
    if info["kind"] != "value" or info["abort"]:
        raise GenError(f"{name}: unexpected shape")
    out.append(f"/-- `{name}`: the returned length (0 = no room), stores into `buffer[]` removed -/")
    out.append(text)
    for i in idx:
        nb = _rewrite_stores(body, i)
        node = {"kind": "FunctionDecl", "name": name, "type": {"qualType": "size_t (void)"}, "inner": _params(fn) + [nb]}
        text, info = _translate(node, f"enc{width}_b{i}")
        if info["outs"] != ["buffer"]:
            raise GenError(f"{name}: byte {i} is not stored through buffer")
        out.append(f"/-- `{name}`: (returned length, value stored into `buffer[{i}]`, 0 when nothing is stored) -/")
        out.append(text)
    return "\n".join(out), len(idx)


def width_decision(fn):
    """`_cbor_encode_uint` with the four tail calls replaced by the width they stand for"""
    want = ["value", "buffer", "buffer_size", "offset"]
    if [p["name"] for p in _params(fn)] != want:
        raise GenError("_cbor_encode_uint: unexpected parameter list")
    seen = []

    def rw(n):
        if n.get("kind") == "CallExpr":
            cal = _callee(n)
            m = re.fullmatch(r"_cbor_encode_uint(8|16|32|64)", cal or "")
            if not m:
                raise GenError(f"_cbor_encode_uint calls {cal}")
            args = n["inner"][1:]
            if [_ref_name(a) for a in args] != want:
                raise GenError(f"_cbor_encode_uint passes other arguments than (value, buffer, buffer_size, offset) to {cal}")
            a0 = args[0]
            while a0.get("kind") in ("ImplicitCastExpr", "ParenExpr"):
                a0 = a0["inner"][0]
            w = int(m.group(1))
            if w != 64:
                q = a0.get("type", {}).get("qualType", "") if a0.get("kind") == "CStyleCastExpr" else ""
                if q != f"uint{w}_t":
                    raise GenError(f"_cbor_encode_uint: value is not cast to uint{w}_t for {cal}")
            seen.append(w)
            return {"kind": "IntegerLiteral", "type": {"qualType": "unsigned long"}, "value": str(w)}
        m = dict(n)
        if "inner" in n:
            m["inner"] = [rw(c) if isinstance(c, dict) else c for c in n["inner"]]
        return m
    nb = rw(_body(fn))
    if sorted(seen) != [8, 16, 32, 64]:
        raise GenError(f"_cbor_encode_uint: expected one call per width, found {seen}")
    _no_ref(nb, "buffer", "_cbor_encode_uint")
    _no_ref(nb, "buffer_size", "_cbor_encode_uint")
    _no_ref(nb, "offset", "_cbor_encode_uint")
    node = {"kind": "FunctionDecl", "name": "_cbor_encode_uint", "type": {"qualType": "size_t (void)"},
            "inner": [p for p in _params(fn) if p["name"] == "value"] + [nb]}
    text, _ = _translate(node, "encodeUintWidth")
    return text


# ---------------------------------------------------------------------------------------------- encoding.c
def encoding_table(fns):
    """every cbor_encode_* that is `return inner(…, buffer, buffer_size[, K]);` -> (name, inner, K, passes_value)"""
    rows = []
    for name, fn in sorted(fns.items()):
        if not name.startswith("cbor_encode_"):
            continue
        rets = [x for x in _walk(_body(fn)) if x.get("kind") == "ReturnStmt"]
        calls = [x for x in _walk(_body(fn)) if x.get("kind") == "CallExpr"]
        inner = {_callee(c) for c in calls}
        if len(inner) != 1 or len(rets) != len(calls):
            continue   # cbor_encode_half: its own arithmetic, not used by aws
        inn = inner.pop()
        if not inn or not inn.startswith("_cbor_encode_"):
            continue
        ks = set()
        for c in calls:
            args = c["inner"][1:]
            if inn == "_cbor_encode_byte":
                ks.add(_lit(args[0]))
            else:
                ks.add(_lit(args[-1]))
        if inn == "_cbor_encode_byte":
            if None in ks:
                raise GenError(f"{name}: non-literal byte")
            for k in sorted(ks):
                rows.append((name, inn, k))
        else:
            if len(ks) != 1 or None in ks:
                raise GenError(f"{name}: offset passed to {inn} is not one literal")
            rows.append((name, inn, ks.pop()))
    return rows


def byte_len_function(fn):
    body = _rewrite_stores(_body(fn), None)
    _no_ref(body, "buffer", "_cbor_encode_byte")
    node = {"kind": "FunctionDecl", "name": "_cbor_encode_byte", "type": {"qualType": "size_t (void)"},
            "inner": [p for p in _params(fn) if p["name"] != "buffer"] + [body]}
    text, _ = _translate(node, "encByteLen")
    return text


# ---------------------------------------------------------------------------------------------- cbor.c
def _const_vars(objs, prefix):
    out = {}
    for o in objs:
        if o.get("kind") == "VarDecl" and o.get("name", "").startswith(prefix):
            v = None
            for x in _walk(o):
                if x.get("kind") == "IntegerLiteral":
                    v = int(x["value"])
            if v is None:
                raise GenError(f"{o['name']} has no literal initialiser")
            out[o["name"]] = v
    return out


def _enum_values(objs, enum_name):
    for o in objs:
        if o.get("kind") == "EnumDecl" and o.get("name") == enum_name:
            out = {}
            for c in o.get("inner", []):
                if c.get("kind") == "EnumConstantDecl":
                    v = None
                    for x in _walk(c):
                        if x.get("kind") == "ConstantExpr" and "value" in x:
                            v = int(x["value"])
                        elif x.get("kind") == "IntegerLiteral" and v is None:
                            v = int(x["value"])
                    if v is None:
                        raise GenError(f"enum constant {c['name']} without explicit value")
                    out[c["name"]] = v
            return out
    raise GenError(f"enum {enum_name} not found in cbor.c")


def _reserve_size(e, consts):
    """reserved size expression -> (constant part, plus_len)"""
    e = _strip(e)
    if e.get("kind") == "BinaryOperator" and e.get("opcode") == "+":
        a = _reserve_size(e["inner"][0], consts)
        b = _reserve_size(e["inner"][1], consts)
        return a[0] + b[0], a[1] + b[1]
    v = _lit(e)
    if v is not None:
        return v, 0
    if e.get("kind") == "DeclRefExpr":
        nm = e["referencedDecl"]["name"]
        if nm in consts:
            return consts[nm], 0
        raise GenError(f"reservation refers to `{nm}`")
    if e.get("kind") == "MemberExpr" and e.get("name") == "len" and _ref_name(e["inner"][0]) == "from":
        return 0, 1
    raise GenError("reservation size is outside the recognised forms (constant, s_cbor_element_width_*, from.len, +)")


def writer_sites(fns, consts, simple):
    """every libcbor encode call in the aws writer functions with the reserve call in front of it"""
    rows = []
    for name, fn in fns.items():
        reserve = None
        enum_refs = sorted({x["referencedDecl"]["name"] for x in _walk(_body(fn))
                            if x.get("kind") == "DeclRefExpr" and x.get("referencedDecl", {}).get("kind") == "EnumConstantDecl"
                            and x["referencedDecl"]["name"] in simple})
        found = 0
        for x in _walk(_body(fn)):
            cal = _callee(x)
            if cal is None:
                continue
            if "reserve" in cal:
                args = x["inner"][1:]
                a0 = _strip(args[0])
                ok = a0.get("kind") == "UnaryOperator" and a0.get("opcode") == "&" and _strip(a0["inner"][0]).get("name") == "encoded_buf"
                if not ok or len(args) != 2:
                    raise GenError(f"{name}: reserve call on something other than &encoder->encoded_buf")
                reserve = (cal,) + _reserve_size(args[1], consts)
            elif cal.startswith("cbor_encode_") or cal.startswith("_cbor_encode_"):
                if reserve is None:
                    raise GenError(f"{name}: {cal} is not preceded by a reserve call")
                args = x["inner"][1:]
                if [_callee(_strip(a)) for a in args[-2:]] != ["s_get_encoder_current_position", "s_get_encoder_remaining_len"]:
                    raise GenError(f"{name}: {cal} is not given (current position, remaining length)")
                vals = []
                passes_len = 0
                if len(args) == 3:
                    v = _strip(args[0])
                    if v.get("kind") == "MemberExpr" and v.get("name") == "len" and _ref_name(v["inner"][0]) == "from":
                        passes_len = 1
                if cal == "cbor_encode_ctrl":
                    if not enum_refs:
                        raise GenError(f"{name}: control value is not an s_cbor_simple_val constant")
                    vals = [simple[e] for e in enum_refs]
                if reserve[2] and not passes_len:
                    raise GenError(f"{name}: reservation adds from.len but {cal} is not given from.len")
                rows.append((name, reserve[0], reserve[1], reserve[2], cal, vals))
                found += 1
        if name.startswith("aws_cbor_encoder_write_") and found == 0:
            # wrappers: must call another writer
            cs = [_callee(x) for x in _walk(_body(fn)) if _callee(x)]
            if not any(c.startswith("aws_cbor_encoder_write_") or c == "s_cbor_encoder_write_type_only" for c in cs):
                raise GenError(f"{name}: no libcbor encode call and no delegation found")
    return rows


# ---------------------------------------------------------------------------------------------- loaders.c
def loader_info(fns):
    """number of bytes each _cbor_load_* / _cbor_decode_half reads from its argument"""
    direct, calls = {}, {}
    for name, fn in fns.items():
        ps = _params(fn)
        if len(ps) != 1:
            continue
        p = ps[0]["name"]
        offs, cs = set(), set()
        for x in _walk(_body(fn)):
            if x.get("kind") == "UnaryOperator" and x.get("opcode") == "*":
                t = _strip(x["inner"][0])
                if _ref_name(t) == p:
                    offs.add(0)
                elif t.get("kind") == "BinaryOperator" and t.get("opcode") == "+" and _ref_name(t["inner"][0]) == p and _lit(t["inner"][1]) is not None:
                    offs.add(_lit(t["inner"][1]))
                else:
                    raise GenError(f"{name}: dereference of something other than {p} + k")
            if x.get("kind") == "ArraySubscriptExpr":
                if _ref_name(x["inner"][0]) != p or _lit(x["inner"][1]) is None:
                    raise GenError(f"{name}: subscript of something other than {p}[k]")
                offs.add(_lit(x["inner"][1]))
            cal = _callee(x)
            if cal in fns:
                a = _strip(x["inner"][1])
                if _ref_name(a) != p:
                    raise GenError(f"{name}: passes something other than its argument to {cal}")
                cs.add(cal)
        direct[name], calls[name] = offs, cs
    width = {}

    def w(name, depth=0):
        if depth > 5:
            raise GenError("loaders call each other recursively")
        if name not in width:
            m = max(direct[name]) + 1 if direct[name] else 0
            for c in calls[name]:
                m = max(m, w(c, depth + 1))
            width[name] = m
        return width[name]
    for n in direct:
        w(n)
    return width


def loader_function(fn, k):
    """_cbor_load_uintN with `*(source + i)` lifted to unsigned char parameters b0..b(k-1)"""
    name = fn["name"]
    p = _params(fn)[0]["name"]

    def rw(n):
        if n.get("kind") == "UnaryOperator" and n.get("opcode") == "*":
            t = _strip(n["inner"][0])
            i = 0 if _ref_name(t) == p else _lit(t["inner"][1])
            return {"kind": "DeclRefExpr", "type": dict(U8),
                    "referencedDecl": {"kind": "ParmVarDecl", "name": f"b{i}", "type": dict(U8)}}
        if n.get("kind") == "ImplicitCastExpr" and n.get("castKind") == "LValueToRValue" and \
                _strip(n["inner"][0]).get("kind") == "UnaryOperator" and _strip(n["inner"][0]).get("opcode") == "*":
            return rw(_strip(n["inner"][0]))
        m = dict(n)
        if "inner" in n:
            m["inner"] = [rw(c) if isinstance(c, dict) else c for c in n["inner"]]
        return m
    nb = rw(_body(fn))
    _no_ref(nb, p, name)
    rt = fn["type"]["qualType"].split("(")[0].strip()
    node = {"kind": "FunctionDecl", "name": name, "type": {"qualType": rt + " (void)"},
            "inner": [{"kind": "ParmVarDecl", "name": f"b{i}", "type": dict(U8)} for i in range(k)] + [nb]}
    text, _ = _translate(node, "load" + name[len("_cbor_load_"):].capitalize())
    return text


# ---------------------------------------------------------------------------------------------- streaming.c
def claim_bytes_function(fn):
    if [p["name"] for p in _params(fn)] != ["required", "provided", "result"]:
        raise GenError("claim_bytes: unexpected parameter list")
    SZ = {"qualType": "size_t", "desugaredQualType": "unsigned long"}

    def is_result_member(n, member=None):
        n = _strip(n)
        return n.get("kind") == "MemberExpr" and _ref_name(n["inner"][0]) == "result" and (member is None or n.get("name") == member)

    def rw(n):
        if n.get("kind") == "CompoundStmt":
            out = []
            for s in n.get("inner", []):
                if s.get("kind") in ("BinaryOperator", "CompoundAssignOperator") and s.get("opcode", "").endswith("=") \
                        and s.get("opcode") not in ("==", "!=", "<=", ">=") and is_result_member(s["inner"][0]):
                    continue
                out.append(rw(s))
            m = dict(n); m["inner"] = out
            return m
        if is_result_member(n, "read") and n.get("kind") in ("MemberExpr",):
            return {"kind": "DeclRefExpr", "type": dict(SZ), "referencedDecl": {"kind": "ParmVarDecl", "name": "read", "type": dict(SZ)}}
        m = dict(n)
        if "inner" in n:
            m["inner"] = [rw(c) if isinstance(c, dict) else c for c in n["inner"]]
        return m
    nb = rw(_body(fn))
    _no_ref(nb, "result", "claim_bytes")
    ps = [p for p in _params(fn) if p["name"] != "result"] + [{"kind": "ParmVarDecl", "name": "read", "type": dict(SZ)}]
    node = {"kind": "FunctionDecl", "name": "claim_bytes", "type": {"qualType": "bool (void)"}, "inner": ps + [nb]}
    text, _ = _translate(node, "claimBytes")
    return text


def _case_value(c):
    v = _lit(c["inner"][0])
    if v is None:
        raise GenError("non-literal case label in cbor_stream_decode")
    return v


def _ptr_offset(e, base):
    """`base`, `base + a`, `base + a + b` -> a + b ; else None"""
    e = _strip(e)
    if _ref_name(e) == base:
        return 0
    if e.get("kind") == "BinaryOperator" and e.get("opcode") == "+":
        a = _ptr_offset(e["inner"][0], base)
        b = _lit(e["inner"][1])
        if a is not None and b is not None:
            return a + b
    return None


def decode_table(fn, widths):
    body = _body(fn)
    sw = [c for c in body["inner"] if c.get("kind") == "SwitchStmt"]
    if len(sw) != 1:
        raise GenError("cbor_stream_decode: expected one switch")
    cond = _strip(sw[0]["inner"][0])
    if not (cond.get("kind") == "UnaryOperator" and cond.get("opcode") == "*" and _ref_name(cond["inner"][0]) == "source"):
        raise GenError("cbor_stream_decode: the switch is not on *source")
    # the first claim in front of the switch
    pre = [x for x in _walk({"inner": [c for c in body["inner"] if c is not sw[0]]}) if _callee(x) == "claim_bytes"]
    if len(pre) != 1 or _lit(pre[0]["inner"][1]) != 1:
        raise GenError("cbor_stream_decode: expected claim_bytes(1, …) for the initial byte in front of the switch")
    groups = []
    cur = None
    for c in sw[0]["inner"][-1]["inner"]:
        if c.get("kind") in ("CaseStmt", "DefaultStmt"):
            vals = []
            while c.get("kind") in ("CaseStmt", "DefaultStmt"):
                if c["kind"] == "CaseStmt":
                    vals.append(_case_value(c))
                c = c["inner"][-1]
            cur = [vals, [c]]
            groups.append(cur)
        elif cur is not None:
            cur[1].append(c)
        else:
            raise GenError("statement in front of the first case label")
    rows = {}
    for vals, stmts in groups:
        blk = {"inner": stmts}
        if not vals:   # default: (unreachable, the cases cover 0..255) must do nothing but `return result`
            if len(stmts) != 1 or stmts[0].get("kind") != "ReturnStmt" or _ref_name(stmts[0]["inner"][0]) != "result":
                raise GenError("cbor_stream_decode: default case does more than `return result`")
            continue
        error = any(x.get("kind") == "DeclRefExpr" and x.get("referencedDecl", {}).get("name") == "CBOR_DECODER_ERROR" for x in _walk(blk))
        claims = []
        for x in _walk(blk):
            if _callee(x) == "claim_bytes":
                if _ref_name(x["inner"][2]) != "source_size":
                    raise GenError("claim_bytes is not given source_size")
                claims.append(_lit(x["inner"][1]))
        loaders = [(x, _callee(x)) for x in _walk(blk) if (_callee(x) or "").startswith("_cbor_load_")]
        if len(loaders) > 1:
            raise GenError(f"case {vals}: more than one loader call")
        loader, loff, sub = "", 0, 0
        if loaders:
            lx, loader = loaders[0]
            loff = _ptr_offset(lx["inner"][1], "source")
            if loff is None:
                raise GenError(f"case {vals}: loader argument is not source + k")
            if loader not in widths:
                raise GenError(f"case {vals}: unknown loader {loader}")
            for x in _walk(blk):
                if x.get("kind") == "BinaryOperator" and x.get("opcode") == "-" and _strip(x["inner"][0]) is lx:
                    sub = _lit(x["inner"][1])
                    if sub is None:
                        raise GenError(f"case {vals}: non-literal subtraction from the loaded byte")
        cbs = [x for x in _walk(blk) if (_callee(x) or "").startswith("->")]
        if len(cbs) > 1 or (not cbs and not error):
            raise GenError(f"case {vals}: expected exactly one callback invocation")
        cb, data_off, lit = "", 0, 0
        if cbs:
            f = _strip(cbs[0]["inner"][0])
            if _ref_name(f["inner"][0]) != "callbacks":
                raise GenError(f"case {vals}: call through something other than callbacks->")
            cb = f["name"]
            args = cbs[0]["inner"][1:]
            if _ref_name(args[0]) != "context":
                raise GenError(f"case {vals}: callback is not given context")
            if len(args) == 3:     # string callbacks: (context, data, length)
                data_off = _ptr_offset(args[1], "source")
                if data_off is None or _ref_name(args[2]) != "length":
                    raise GenError(f"case {vals}: string callback arguments are not (source + k, length)")
            elif len(args) == 2 and not loaders:
                lit = _lit(args[1])
                if lit is None:
                    raise GenError(f"case {vals}: callback value is neither loaded nor a literal")
        if error and (claims or loaders or cbs):
            raise GenError(f"case {vals}: error case does something else as well")
        payload = 1 if (None in claims) else 0
        lits = [c for c in claims if c is not None]
        if len(lits) > 1 or claims.count(None) > 1:
            raise GenError(f"case {vals}: unexpected claim sequence {claims}")
        if payload:
            # the claimed payload length must be what the loader produced (variable `length`)
            names = [_ref_name(x["inner"][1]) for x in _walk(blk) if _callee(x) == "claim_bytes" and _lit(x["inner"][1]) is None]
            if names != ["length"]:
                raise GenError(f"case {vals}: payload claim is not on `length`")
        row = (1 if error else 0, lits[0] if lits else 0, payload, loader, widths.get(loader, 0), loff, sub, cb, data_off, lit)
        for v in vals:
            if v in rows:
                raise GenError(f"duplicate case {v}")
            rows[v] = row
    if sorted(rows) != list(range(256)):
        raise GenError("cbor_stream_decode: the switch does not cover exactly the initial bytes 0..255")
    return [rows[b] for b in range(256)]


def _only_value_choice(x):
    """`c ? A : B` over enum constants / literals (write_bool's choice of the control value)"""
    if x.get("kind") != "ConditionalOperator":
        return False
    return all(_lit(y) is not None or (_strip(y).get("kind") == "DeclRefExpr" and _strip(y).get("referencedDecl", {}).get("kind") == "EnumConstantDecl")
               for y in x["inner"][1:])


# ---------------------------------------------------------------------------------------------- s_callbacks of cbor.c
WIDEN = ("IntegralCast", "FloatingCast", "NoOp", "LValueToRValue", "BitCast", "IntegralToBoolean")


def _direct_param(e, params):
    """the parameter `e` is, through nothing but casts / parentheses; else None"""
    while True:
        k = e.get("kind")
        if k in ("ParenExpr", "ConstantExpr"):
            e = e["inner"][0]
        elif k in ("ImplicitCastExpr", "CStyleCastExpr") and e.get("castKind") in WIDEN:
            e = e["inner"][0]
        elif k == "DeclRefExpr" and e.get("referencedDecl", {}).get("kind") == "ParmVarDecl" and e["referencedDecl"]["name"] in params:
            return e["referencedDecl"]["name"]
        else:
            return None


def _callback_effect(name, fns, depth=0):
    """what an aws callback of cbor.c does: (aws type enum name, union field or '', casts applied to the value on the way)
    Every value stored must be a parameter passed through casts only; the type stored must be one enum constant."""
    if depth > 3 or name not in fns:
        raise GenError(f"s_callbacks: cannot resolve {name}")
    fn = fns[name]
    params = [p["name"] for p in _params(fn)]
    body = _body(fn)
    types, fields, casts = [], [], []
    for x in _walk(body):
        if x.get("kind") in ("ConditionalOperator", "WhileStmt", "ForStmt", "SwitchStmt", "GotoStmt"):
            raise GenError(f"{name}: control flow outside the recognised callback shape")
        if x.get("kind") == "BinaryOperator" and x.get("opcode") == "=":
            lhs = _strip(x["inner"][0])
            chain = []
            m = lhs
            while m.get("kind") == "MemberExpr":
                chain.append(m.get("name"))
                m = _strip(m["inner"][0])
            if "cached_context" in chain:
                if chain[0] == "type":
                    r = _strip(x["inner"][1])
                    if not (r.get("kind") == "DeclRefExpr" and r.get("referencedDecl", {}).get("kind") == "EnumConstantDecl"):
                        raise GenError(f"{name}: the element type stored is not a single AWS_CBOR_TYPE_* constant")
                    types.append(r["referencedDecl"]["name"])
                else:
                    if _direct_param(x["inner"][1], params) is None:
                        raise GenError(f"{name}: the value stored into cached_context.u.{chain[-3] if len(chain) > 2 else chain[0]} is not the "
                                       "callback argument passed through casts only")
                    fields.append(".".join(reversed(chain[:chain.index("u")])))
                    c = x["inner"][1]
                    while c.get("kind") in ("ImplicitCastExpr", "CStyleCastExpr", "ParenExpr"):
                        if c.get("kind") != "ParenExpr" and c.get("castKind") in ("IntegralCast", "FloatingCast"):
                            casts.append(c.get("type", {}).get("qualType", "?"))
                        c = c["inner"][0]
        cal = _callee(x)
        if cal and cal.startswith("s_") and cal.endswith("_callback"):
            args = x["inner"][1:]
            if _direct_param(args[0], params) != params[0]:
                raise GenError(f"{name}: does not pass its context on")
            for a in args[1:]:
                if _direct_param(a, params) is None:
                    raise GenError(f"{name}: passes something other than its argument (through casts) to {cal}")
                c = a
                while c.get("kind") in ("ImplicitCastExpr", "CStyleCastExpr", "ParenExpr"):
                    if c.get("kind") != "ParenExpr" and c.get("castKind") in ("IntegralCast", "FloatingCast"):
                        casts.append(c.get("type", {}).get("qualType", "?"))
                    c = c["inner"][0]
            t, f, cs = _callback_effect(cal, fns, depth + 1)
            return t, f, casts + cs
    if len(set(types)) != 1:
        raise GenError(f"{name}: stores {sorted(set(types))} as element type (expected exactly one)")
    return types[0], ",".join(sorted(set(fields))), casts


def callbacks_table(objs_cb, objs_rec, fns):
    var = [o for o in objs_cb if o.get("kind") == "VarDecl" and o.get("name") == "s_callbacks"]
    rec = [o for o in objs_rec if o.get("kind") == "RecordDecl" and o.get("name") == "cbor_callbacks" and o.get("inner")]
    if len(var) != 1 or not rec:
        raise GenError("s_callbacks / struct cbor_callbacks not found")
    slots = [c["name"] for c in rec[0]["inner"] if c.get("kind") == "FieldDecl"]
    il = [c for c in var[0].get("inner", []) if c.get("kind") == "InitListExpr"]
    if len(il) != 1 or len(il[0]["inner"]) != len(slots):
        raise GenError("s_callbacks is not initialised field by field")
    rows = []
    for slot, e in zip(slots, il[0]["inner"]):
        fname = _ref_name(e)
        if fname is None:
            raise GenError(f"s_callbacks.{slot} is not a function")
        t, f, casts = _callback_effect(fname, fns)
        rows.append((slot, fname, t, f, " ".join(casts)))
    return rows


# ---------------------------------------------------------------------------------------------- byte_buf.c: reserve_smart
def _const_eval(e):
    e = _strip(e)
    v = _lit(e)
    if v is not None:
        return v
    if e.get("kind") == "BinaryOperator" and e.get("opcode") in ("*", "+", "-", "<<"):
        a, b = _const_eval(e["inner"][0]), _const_eval(e["inner"][1])
        if a is None or b is None:
            return None
        return {"*": a * b, "+": a + b, "-": a - b, "<<": a << b}[e["opcode"]]
    return None


def reserve_smart_function(repo, inc):
    """`aws_byte_buf_reserve_smart` as the capacity the buffer has afterwards: `buffer->capacity` lifted to a parameter, the
    early `return AWS_OP_SUCCESS` -> the unchanged capacity, `return aws_byte_buf_reserve(buffer, n)` -> n (reserve
    reallocates to exactly n when n > capacity); file-scope constants replaced by their values; the two math.inl helpers
    it calls are translated alongside"""
    src = os.path.join(repo, "source", "byte_buf.c")
    tu = f'#include "{src}"\n'
    fns = {}
    for pre in ("aws_add_size_saturating", "aws_add_u64_saturating", "aws_max_size", "aws_min_size", "aws_byte_buf_reserve_smart"):
        fns.update(cfun.dump_functions(tu, pre, inc))
    if "aws_byte_buf_reserve_smart" not in fns:
        raise GenError("aws_byte_buf_reserve_smart not found in byte_buf.c")
    globs = {}
    for o in _objs(tu, "s_", inc):
        if o.get("kind") == "VarDecl" and o.get("inner"):
            v = _const_eval([c for c in o["inner"] if isinstance(c, dict)][-1])
            if v is not None:
                globs[o["name"]] = v
    SZ = {"qualType": "size_t", "desugaredQualType": "unsigned long"}
    fn = fns["aws_byte_buf_reserve_smart"]
    if [p["name"] for p in _params(fn)] != ["buffer", "requested_capacity"]:
        raise GenError("aws_byte_buf_reserve_smart: unexpected parameter list")
    cap = {"kind": "DeclRefExpr", "type": dict(SZ), "referencedDecl": {"kind": "ParmVarDecl", "name": "capacity", "type": dict(SZ)}}
    reserves = []

    def rw(n):
        k = n.get("kind")
        if k == "MemberExpr" and n.get("name") == "capacity" and _ref_name(n["inner"][0]) == "buffer":
            return dict(cap)
        if k == "DeclRefExpr" and n.get("referencedDecl", {}).get("kind") == "VarDecl" and n["referencedDecl"]["name"] in globs:
            return {"kind": "IntegerLiteral", "type": dict(SZ), "value": str(globs[n["referencedDecl"]["name"]])}
        if k == "ReturnStmt":
            e = _strip(n["inner"][0])
            if _lit(e) == 0 or (e.get("kind") == "DeclRefExpr" and e["referencedDecl"]["name"] == "AWS_OP_SUCCESS"):
                return {"kind": "ReturnStmt", "inner": [dict(cap)]}
            if _callee(e) == "aws_byte_buf_reserve" and _ref_name(e["inner"][1]) == "buffer":
                reserves.append(1)
                return {"kind": "ReturnStmt", "inner": [rw(e["inner"][2])]}
            raise GenError("aws_byte_buf_reserve_smart: a return that is neither success nor aws_byte_buf_reserve(buffer, n)")
        if k == "CompoundStmt":
            m = dict(n)
            m["inner"] = [rw(c) for c in n.get("inner", []) if c.get("kind") != "NullStmt"]
            return m
        m = dict(n)
        if "inner" in n:
            m["inner"] = [rw(c) if isinstance(c, dict) else c for c in n["inner"]]
        return m
    nb = rw(_body(fn))
    if not reserves:
        raise GenError("aws_byte_buf_reserve_smart no longer ends in aws_byte_buf_reserve(buffer, n)")
    _no_ref(nb, "buffer", "aws_byte_buf_reserve_smart")
    node = {"kind": "FunctionDecl", "name": "aws_byte_buf_reserve_smart", "type": {"qualType": "size_t (void)"},
            "inner": [{"kind": "ParmVarDecl", "name": "capacity", "type": dict(SZ)}] + [p for p in _params(fn) if p["name"] != "buffer"] + [nb]}
    info, texts = {}, []
    for nm in ("aws_add_u64_saturating", "aws_add_size_saturating", "aws_max_size", "aws_min_size"):
        if nm in fns:
            t, i = cfun.FnTranslator(fns[nm], nm, lambda c: info.get(c), {}, fuel=4).translate()
            info[nm] = (nm, i)
            texts.append(t)
    t, _ = cfun.FnTranslator(_unsign_shifts(node), "reserveSmartCap", lambda c: info.get(c), {}, fuel=4).translate()
    rel = fns.get("aws_byte_buf_reserve_smart_relative")
    if rel is None:
        raise GenError("aws_byte_buf_reserve_smart_relative not found in byte_buf.c")
    return "\n".join(texts) + "\n/-- `aws_byte_buf_reserve_smart`: capacity of the buffer afterwards (see gen/cbor_gen.py) -/\n" + t, _render(_body(rel))


# ---------------------------------------------------------------------------------------------- small accessors
def _render(n):
    """compact C-like rendering of a statement / expression tree (casts and parentheses dropped): the *shape* of a
    small accessor function, compared literally by a theorem"""
    k = n.get("kind")
    inner = [c for c in n.get("inner", []) or [] if isinstance(c, dict)]
    if k == "CStyleCastExpr" and n.get("castKind") not in ("NoOp", "ToVoid"):
        return "(" + n.get("type", {}).get("qualType", "?") + ")" + _render(inner[0])
    if k in ("ImplicitCastExpr", "ParenExpr", "ConstantExpr", "CStyleCastExpr"):
        return _render(inner[0])
    if k == "FloatingLiteral":
        return str(n.get("value"))
    if k == "CompoundStmt":
        return "{" + " ".join(_render(c) for c in inner) + "}"
    if k == "ReturnStmt":
        return "return " + (_render(inner[0]) if inner else "") + ";"
    if k == "DeclStmt":
        return " ".join(_render(c) for c in inner)
    if k == "VarDecl":
        return f"{n.get('name')}=" + (_render(inner[0]) if inner else "?") + ";"
    if k == "IfStmt":
        return "if(" + _render(inner[0]) + ")" + _render(inner[1]) + ("else" + _render(inner[2]) if len(inner) > 2 else "")
    if k == "DeclRefExpr":
        return n["referencedDecl"]["name"]
    if k == "MemberExpr":
        return _render(inner[0]) + ("->" if n.get("isArrow") else ".") + n.get("name", "?")
    if k in ("BinaryOperator", "CompoundAssignOperator"):
        return "(" + _render(inner[0]) + n.get("opcode", "?") + _render(inner[1]) + ")"
    if k == "UnaryOperator":
        return (_render(inner[0]) + n.get("opcode") if n.get("isPostfix") else n.get("opcode", "?") + _render(inner[0]))
    if k == "CallExpr":
        return _render(inner[0]) + "(" + ",".join(_render(c) for c in inner[1:]) + ")"
    if k == "IntegerLiteral":
        return str(n.get("value"))
    if k == "CXXBoolLiteralExpr":
        return "true" if n.get("value") else "false"
    if k == "ConditionalOperator":
        return "(" + _render(inner[0]) + "?" + _render(inner[1]) + ":" + _render(inner[2]) + ")"
    if k == "NullStmt":
        return ";"
    return "<" + str(k) + ">" + "".join(_render(c) for c in inner)


def _is_log_or_assert(n):
    txt = json.dumps(n)
    return "aws_logger_get" in txt or "aws_fatal_assert" in txt


def _render_fn(n):
    """like _render, with the expansions of the logging / assertion macros collapsed to LOG; / ASSERT;"""
    k = n.get("kind")
    inner = [c for c in n.get("inner", []) or [] if isinstance(c, dict)]
    if k in ("DoStmt", "IfStmt"):
        txt = json.dumps(n)
        if k == "DoStmt" and "aws_logger_get" in txt and "s_get_encoder" not in txt:
            return "LOG;"
        if "aws_fatal_assert" in txt and all(_callee(x) in (None, "aws_fatal_assert") for x in _walk(n)):
            conds = [c for c in _walk(n) if c.get("kind") == "IfStmt"]
            return "ASSERT(" + (_render(conds[0]["inner"][0]) if conds else "?") + ");"
    if k == "CompoundStmt":
        return "{" + " ".join(_render_fn(c) for c in inner) + "}"
    if k == "IfStmt":
        return "if(" + _render(inner[0]) + ")" + _render_fn(inner[1]) + ("else" + _render_fn(inner[2]) if len(inner) > 2 else "")
    if k == "ForStmt":
        parts = [c for c in n.get("inner", [])]
        hdr = ";".join(_render(c) if isinstance(c, dict) and c else "" for c in parts[:-1])
        return "for(" + hdr + ")" + _render_fn(parts[-1])
    if k == "WhileStmt":
        return "while(" + _render(inner[0]) + ")" + _render_fn(inner[1])
    if k == "DoStmt":
        return "do" + _render_fn(inner[0]) + "while(" + _render(inner[1]) + ");"
    if k == "SwitchStmt":
        return "switch(" + _render(inner[0]) + ")" + _render_fn(inner[-1])
    if k == "CaseStmt":
        return "case " + _render(inner[0]) + ":" + _render_fn(inner[-1])
    if k == "DefaultStmt":
        return "default:" + _render_fn(inner[-1])
    if k == "BreakStmt":
        return "break;"
    if k == "LabelStmt":
        return n.get("name", "?") + ":" + _render_fn(inner[0])
    if k == "GotoStmt":
        return "goto;"
    if k in ("ReturnStmt", "DeclStmt", "NullStmt"):
        return _render(n)
    return _render(n) + ";"


ENCODER_FNS = ["aws_cbor_encoder_write_uint", "aws_cbor_encoder_write_float", "aws_cbor_encoder_write_bytes", "aws_cbor_encoder_write_text",
               "aws_cbor_encoder_write_bool", "s_cbor_encoder_write_type_only"]
DECODER_FNS = ["s_cbor_decode_next_element", "aws_cbor_decoder_peek_type", "aws_cbor_decoder_consume_next_whole_data_item",
               "aws_cbor_decoder_consume_next_single_element"]
POP_FNS = [("unsigned_int_val", "AWS_CBOR_TYPE_UINT"), ("negative_int_val", "AWS_CBOR_TYPE_NEGINT"), ("float_val", "AWS_CBOR_TYPE_FLOAT"),
           ("boolean_val", "AWS_CBOR_TYPE_BOOL"), ("text_val", "AWS_CBOR_TYPE_TEXT"), ("bytes_val", "AWS_CBOR_TYPE_BYTES"),
           ("map_start", "AWS_CBOR_TYPE_MAP_START"), ("array_start", "AWS_CBOR_TYPE_ARRAY_START"), ("tag_val", "AWS_CBOR_TYPE_TAG")]

ACCESSORS = ["aws_cbor_encoder_new", "aws_cbor_encoder_reset", "aws_cbor_encoder_get_encoded_data", "s_get_encoder_current_position",
             "s_get_encoder_remaining_len", "aws_cbor_decoder_new", "aws_cbor_decoder_get_remaining_length"]


def _objs(tu, filt, inc):
    import subprocess, tempfile
    with tempfile.TemporaryDirectory() as d:
        p = os.path.join(d, "tu.c")
        open(p, "w").write(tu)
        cmd = [cfun.CLANG, "-std=gnu99", "-fsyntax-only", "-w"] + inc + ["-Xclang", "-ast-dump=json", "-Xclang", "-ast-dump-filter=" + filt, p]
        r = subprocess.run(cmd, stdout=subprocess.PIPE, stderr=subprocess.PIPE, text=True)
        if r.returncode != 0:
            raise GenError("clang rejected the translation unit: " + r.stderr[-1500:])
    return cfun.parse_concatenated_json(r.stdout)


def _s(x):
    return json.dumps(x)


def generate(repo, cfg_inc):
    inc = _includes(repo, cfg_inc)
    lib = os.path.join(repo, "source", "external", "libcbor", "cbor")
    out = ["/-! GENERATED by gen/cbor_gen.py from /repo's source/cbor.c and source/external/libcbor/cbor/{internal/encoders.c,",
           "encoding.c,streaming.c,internal/loaders.c} — do not edit. -/",
           "set_option linter.unusedVariables false", "namespace AwsVerif.Gen.Cbor", ""]
    # encoders.c
    enc = cfun.dump_functions(f'#include "{os.path.join(lib, "internal", "encoders.c")}"\n', "_cbor_encode_uint", inc)
    for w in (8, 16, 32, 64):
        if f"_cbor_encode_uint{w}" not in enc:
            raise GenError(f"_cbor_encode_uint{w} not found in encoders.c")
    if "_cbor_encode_uint" not in enc:
        raise GenError("_cbor_encode_uint not found in encoders.c")
    stored = {}
    for w in (8, 16, 32, 64):
        text, k = encoder_functions(enc[f"_cbor_encode_uint{w}"], w)
        stored[w] = k
        out.append(text)
    out.append("/-- `_cbor_encode_uint`: which `_cbor_encode_uintN` it returns (8 / 16 / 32 / 64) -/")
    out.append(width_decision(enc["_cbor_encode_uint"]))
    out.append("/-- number of `buffer[i] = …` stores in `_cbor_encode_uintN` -/")
    out.append("def storedBytes : List (Nat × Nat) := [" + ", ".join(f"({w}, {k})" for w, k in stored.items()) + "]\n")
    # encoding.c
    ef = cfun.dump_functions(f'#include "{os.path.join(lib, "encoding.c")}"\n', "cbor_encode_", inc)
    ef.update(cfun.dump_functions(f'#include "{os.path.join(lib, "encoding.c")}"\n', "_cbor_encode_byte", inc))
    if "_cbor_encode_byte" not in ef:
        raise GenError("_cbor_encode_byte not found in encoding.c")
    out.append("/-- `_cbor_encode_byte`: returned length -/")
    out.append(byte_len_function(ef["_cbor_encode_byte"]))
    rows = encoding_table(ef)
    out.append("/-- `cbor_encode_X` of encoding.c = `return inner(value, buffer, buffer_size, offset)` resp. `_cbor_encode_byte(byte, …)`:")
    out.append("(name, inner writer, offset or byte) -/")
    out.append("def encFns : List (String × String × Nat) := [\n" + ",\n".join(f"  ({_s(a)}, {_s(b)}, {c})" for a, b, c in rows) + "]\n")
    # cbor.c
    src = os.path.join(repo, "source", "cbor.c")
    objs = _objs(f'#include "{src}"\n', "s_cbor_", inc)
    consts = _const_vars(objs, "s_cbor_element_width_")
    if not consts:
        raise GenError("no s_cbor_element_width_* constants found in cbor.c")
    simple = _enum_values(objs, "s_cbor_simple_val")
    for k, v in sorted(consts.items()):
        out.append(f"def {k} : Nat := {v}")
    for k, v in sorted(simple.items()):
        out.append(f"def {k} : Nat := {v}")
    wf = cfun.dump_functions(f'#include "{src}"\n', "aws_cbor_encoder_write_", inc)
    wf.update(cfun.dump_functions(f'#include "{src}"\n', "s_cbor_encoder_write_type_only", inc))
    if "s_cbor_encoder_write_type_only" not in wf:
        raise GenError("s_cbor_encoder_write_type_only not found in cbor.c")
    sites = writer_sites(wf, consts, simple)
    out.append("")
    out.append("/-- one libcbor encode call of cbor.c with the reserve call in front of it -/")
    out.append("structure Site where\n  writer : String\n  reserveFn : String\n  base : Nat\n  plusLen : Bool\n  encoder : String\n  values : List Nat\nderiving Repr, DecidableEq\n")
    out.append("def sites : List Site := [\n" + ",\n".join(
        f"  ⟨{_s(a)}, {_s(b)}, {c}, {'true' if d else 'false'}, {_s(e)}, [{', '.join(map(str, f))}]⟩" for a, b, c, d, e, f in sites) + "]\n")
    # writers that can leave before / without reaching their encode call
    early = sorted(n for n, fn in wf.items() if any(x.get("kind") in ("ReturnStmt", "GotoStmt") for x in _walk(_body(fn))))
    out.append("/-- writer functions containing a `return` (any other writer runs its reserve + encode unconditionally) -/")
    out.append("def writersWithReturn : List String := [" + ", ".join(_s(n) for n in early) + "]\n")
    cond = sorted({a for a, *_ in sites for fn in [wf[a]] if a != "s_cbor_encoder_write_type_only" and a != "aws_cbor_encoder_write_float"
                   and any(x.get("kind") in ("IfStmt", "SwitchStmt", "ConditionalOperator", "WhileStmt", "ForStmt") and "aws_fatal_assert" not in json.dumps(x)
                           and not _only_value_choice(x) for x in _walk(_body(fn)))})
    out.append("/-- writers (other than write_float and the type-only switch) with a branch that is not a fatal assertion or a choice of the value passed -/")
    out.append("def writersWithBranch : List String := [" + ", ".join(_s(n) for n in cond) + "]\n")
    # bookkeeping accessors: their whole (tiny) body, rendered
    acc = {}
    for pre in ("aws_cbor_encoder_", "aws_cbor_decoder_", "s_get_encoder_"):
        acc.update(cfun.dump_functions(f'#include "{src}"\n', pre, inc))
    rows_acc = []
    for nm in ACCESSORS:
        if nm not in acc:
            raise GenError(f"{nm} not found in cbor.c")
        rows_acc.append((nm, _render(_body(acc[nm]))))
    bbf = {}
    for pre in ("aws_byte_buf_append", "aws_byte_buf_reserve", "aws_byte_buf_reset"):
        bbf.update(cfun.dump_functions(f'#include "{os.path.join(repo, "source", "byte_buf.c")}"\n', pre, inc))
    rows_bb = []
    for nm in ("aws_byte_buf_append", "aws_byte_buf_reserve", "aws_byte_buf_reset"):
        if nm not in bbf:
            raise GenError(f"{nm} not found in byte_buf.c")
        rows_bb.append((nm, _render_fn(_body(bbf[nm]))))
    out.append("/-- bodies of the byte_buf.c functions the encoder relies on (pre/post-condition macros expand to nothing here) -/")
    out.append("def byteBufBodies : List (String × String) := [\n" + ",\n".join(f"  ({_s(a)}, {_s(b)})" for a, b in rows_bb) + "]\n")
    rs_text, rel_body = reserve_smart_function(repo, inc)
    rows_acc.append(("aws_byte_buf_reserve_smart_relative", rel_body))
    out.append(rs_text)
    out.append("/-- bodies of the bookkeeping functions of cbor.c (casts / parentheses dropped) -/")
    out.append("def accessorBodies : List (String × String) := [\n" + ",\n".join(f"  ({_s(a)}, {_s(b)})" for a, b in rows_acc) + "]\n")
    # the decoder's state machine, as text: the functions Model/Cbor.lean transcribes by hand
    dec = {}
    for pre in ("aws_cbor_decoder_", "s_cbor_decode_next_element"):
        dec.update(cfun.dump_functions(f'#include "{src}"\n', pre, inc))
    rows_dec = []
    for nm in DECODER_FNS:
        if nm not in dec:
            raise GenError(f"{nm} not found in cbor.c")
        rows_dec.append((nm, _render_fn(_body(dec[nm]))))
    encf = dict(wf)
    rows_enc = []
    for nm in ENCODER_FNS:
        if nm not in encf:
            raise GenError(f"{nm} not found in cbor.c")
        rows_enc.append((nm, _render_fn(_body(encf[nm]))))
    out.append("/-- bodies of the encoder functions of cbor.c that carry the ENCODE_THROUGH_LIBCBOR expansion, the narrowing and the")
    out.append("type-only switch (assertion macros collapsed) -/")
    out.append("def encoderBodies : List (String × String) := [\n" + ",\n".join(f"  ({_s(a)}, {_s(b)})" for a, b in rows_enc) + "]\n")
    out.append("/-- bodies of the decoder functions of cbor.c that Model/Cbor.lean transcribes (logging / assertion macros collapsed) -/")
    out.append("def decoderBodies : List (String × String) := [\n" + ",\n".join(f"  ({_s(a)}, {_s(b)})" for a, b in rows_dec) + "]\n")
    pops = []
    for field, ty in POP_FNS:
        nm = "aws_cbor_decoder_pop_next_" + field
        if nm not in dec:
            raise GenError(f"{nm} not found in cbor.c")
        pops.append((field, ty, _render_fn(_body(dec[nm]))))
    out.append("/-- the nine expansions of GET_NEXT_ITEM: (union field, expected type, body) -/")
    out.append("def popBodies : List (String × String × String) := [\n" + ",\n".join(f"  ({_s(a)}, {_s(b)}, {_s(c)})" for a, b, c in pops) + "]\n")
    # the callback table handed to libcbor
    cbf = cfun.dump_functions(f'#include "{src}"\n', "s_", inc)
    cbf = {k: v for k, v in cbf.items() if k.endswith("_callback")}
    cb_rows = callbacks_table(_objs(f'#include "{src}"\n', "s_callbacks", inc), _objs(f'#include "{src}"\n', "cbor_callbacks", inc), cbf)
    out.append("/-- `s_callbacks` of cbor.c, slot by slot: (libcbor callback slot, aws function, AWS_CBOR_TYPE_* it stores, union field it")
    out.append("fills, casts applied to the libcbor argument on the way — the argument is stored through casts only) -/")
    out.append("def awsCallbacks : List (String × String × String × String × String) := [\n" + ",\n".join(
        f"  ({_s(a)}, {_s(b)}, {_s(c)}, {_s(d)}, {_s(e)})" for a, b, c, d, e in cb_rows) + "]\n")
    # delegation: which writer functions the type-only writers call
    deleg = []
    for name, fn in sorted(wf.items()):
        for x in _walk(_body(fn)):
            cal = _callee(x)
            if cal and (cal.startswith("aws_cbor_encoder_write_") or cal == "s_cbor_encoder_write_type_only"):
                deleg.append((name, cal))
    out.append("/-- writer functions that delegate to another writer -/")
    out.append("def delegates : List (String × String) := [" + ", ".join(f"({_s(a)}, {_s(b)})" for a, b in sorted(set(deleg))) + "]\n")
    # loaders.c
    lf = cfun.dump_functions(f'#include "{os.path.join(lib, "internal", "loaders.c")}"\n', "_cbor_", inc)
    widths = loader_info(lf)
    out.append("/-- bytes read from its argument by every loader of loaders.c -/")
    out.append("def loaderWidths : List (String × Nat) := [" + ", ".join(f"({_s(k)}, {v})" for k, v in sorted(widths.items())) + "]\n")
    for nm, k in (("_cbor_load_uint16", 2), ("_cbor_load_uint32", 4), ("_cbor_load_uint64", 8)):
        if nm not in lf or widths.get(nm) != k:
            raise GenError(f"{nm} does not read exactly {k} bytes")
        out.append(f"/-- `{nm}` with the reads `*(source + i)` as parameters -/")
        out.append(loader_function(lf[nm], k))
    # streaming.c
    sf = cfun.dump_functions(f'#include "{os.path.join(lib, "streaming.c")}"\n', "c", inc)
    if "claim_bytes" not in sf or "cbor_stream_decode" not in sf:
        raise GenError("claim_bytes / cbor_stream_decode not found in streaming.c")
    out.append("/-- `claim_bytes(required, provided, result)`: the value returned, `result->read` as a parameter -/")
    out.append(claim_bytes_function(sf["claim_bytes"]))
    table = decode_table(sf["cbor_stream_decode"], widths)
    out.append("/-- one case of the switch of `cbor_stream_decode` -/")
    out.append("structure Row where\n  error : Bool\n  claim : Nat          -- literal length claimed after the initial byte (0 = none)\n"
               "  payload : Bool       -- a second claim of `length` bytes (strings)\n  loader : String\n  loadWidth : Nat      -- bytes the loader reads\n"
               "  loadOff : Nat        -- … starting at source + loadOff\n  sub : Nat            -- literal subtracted from an embedded value\n"
               "  callback : String\n  dataOff : Nat        -- string callbacks: data = source + dataOff\n  lit : Nat            -- literal callback argument (booleans)\n"
               "deriving Repr, DecidableEq\n")
    out.append("def decodeTable : List Row := [\n" + ",\n".join(
        f"  ⟨{'true' if r[0] else 'false'}, {r[1]}, {'true' if r[2] else 'false'}, {_s(r[3])}, {r[4]}, {r[5]}, {r[6]}, {_s(r[7])}, {r[8]}, {r[9]}⟩"
        for r in table) + "]\n")
    out.append("end AwsVerif.Gen.Cbor\n")
    return "\n".join(out), dict(sites=len(sites), enc_fns=len(rows))
