"""Generated layer for C06 / C07: re-derived from /repo's source on every run (gen/cfun.py).

From source/priority_queue.c:
  * the index macros PARENT_OF / LEFT_OF / RIGHT_OF, through one-line stub functions in a generated translation
    unit that #includes the .c file (so the macro bodies are /repo's text, expanded by clang);
  * the guards of `aws_priority_queue_remove` in front of `s_remove_node` (the stale-handle test) as a function
    `remove_guard(current_index, length, backpointers_data)` = 0 or the error code raised: the function's own AST
    with its three state reads (`node->current_index`, `aws_array_list_length(&queue->container)`,
    `queue->backpointers.data`) lifted to parameters.
From source/task_scheduler.c:
  * `s_compare_timestamps`, with its two reads `(*(struct aws_task **)x)->timestamp` lifted to uint64_t parameters.

Output: lean/AwsVerif/Gen/HeapIdx.lean (namespace AwsVerif.Gen.HeapIdx).
"""
import copy, os
from . import cfun
from .cfun import GenError

MACROS = ["PARENT_OF", "LEFT_OF", "RIGHT_OF"]
SIZE_T = {"qualType": "size_t", "desugaredQualType": "unsigned long"}
U64 = {"qualType": "uint64_t", "desugaredQualType": "unsigned long"}
PASS = ("ImplicitCastExpr", "ParenExpr", "CStyleCastExpr", "ConstantExpr")


def _includes(repo, cfg_inc):
    return ["-I" + os.path.join(repo, "include"), "-I" + cfg_inc, "-D_POSIX_C_SOURCE=200809L", "-D_XOPEN_SOURCE=500"]


def _param(name, ty):
    return {"kind": "ParmVarDecl", "name": name, "type": dict(ty)}


def _ref(name, ty):
    return {"kind": "DeclRefExpr", "type": dict(ty), "referencedDecl": {"kind": "ParmVarDecl", "name": name, "type": dict(ty)}}


def _base_param(n, through_deref):
    """the parameter a chain of casts / parentheses (/ dereferences) ends in, or None"""
    while True:
        k = n.get("kind")
        if k in PASS:
            n = n["inner"][0]
        elif through_deref and k == "UnaryOperator" and n.get("opcode") == "*":
            n = n["inner"][0]
        elif k == "DeclRefExpr" and n.get("referencedDecl", {}).get("kind") == "ParmVarDecl":
            return n["referencedDecl"]["name"]
        else:
            return None


def _no_param_refs(n, names, where):
    if n.get("kind") == "DeclRefExpr" and n.get("referencedDecl", {}).get("kind") == "ParmVarDecl" \
            and n["referencedDecl"]["name"] in names:
        raise GenError(f"{where}: parameter `{n['referencedDecl']['name']}` is used other than through the lifted state reads")
    for c in n.get("inner", []) or []:
        if isinstance(c, dict):
            _no_param_refs(c, names, where)


# ------------------------------------------------------------------------------------------ s_compare_timestamps
def comparator_node(fn):
    params = [c["name"] for c in fn.get("inner", []) if c.get("kind") == "ParmVarDecl"]
    if len(params) != 2:
        raise GenError("s_compare_timestamps no longer takes two parameters")

    def rw(n):
        if n.get("kind") == "MemberExpr" and n.get("name") == "timestamp":
            p = _base_param(n["inner"][0], True)
            if p in params:
                return _ref(p + "_timestamp", U64)
        m = dict(n)
        if "inner" in n:
            m["inner"] = [rw(c) if isinstance(c, dict) else c for c in n["inner"]]
        return m
    body = [c for c in fn["inner"] if c.get("kind") == "CompoundStmt"]
    if len(body) != 1:
        raise GenError("s_compare_timestamps has no body")
    nb = rw(body[0])
    _no_param_refs(nb, params, "s_compare_timestamps")
    node = {"kind": "FunctionDecl", "name": "s_compare_timestamps", "type": {"qualType": fn["type"]["qualType"]},
            "inner": [_param(p + "_timestamp", U64) for p in params] + [nb]}
    return node, [p + "_timestamp" for p in params]


# ------------------------------------------------------------------------------------------ guards of remove
def guard_node(fn):
    params = [c["name"] for c in fn.get("inner", []) if c.get("kind") == "ParmVarDecl"]
    body = [c for c in fn["inner"] if c.get("kind") == "CompoundStmt"]
    if len(body) != 1:
        raise GenError("aws_priority_queue_remove has no body")
    stmts = body[0].get("inner", [])
    cut = None
    for i, s in enumerate(stmts):
        if "s_remove_node" in repr(s):
            cut = i
            break
    if cut is None:
        raise GenError("aws_priority_queue_remove no longer calls s_remove_node")

    def rw(n):
        k = n.get("kind")
        if k == "MemberExpr" and n.get("name") == "current_index" and _base_param(n["inner"][0], False) == "node":
            return _ref("current_index", SIZE_T)
        if k == "CallExpr":
            cal = cfun.FnTranslator._strip(n["inner"][0])
            name = cal.get("referencedDecl", {}).get("name")
            if name == "aws_array_list_length" and len(n["inner"]) == 2:
                a = n["inner"][1]
                while a.get("kind") in PASS:
                    a = a["inner"][0]
                if a.get("kind") == "UnaryOperator" and a.get("opcode") == "&":
                    m = a["inner"][0]
                    if m.get("kind") == "MemberExpr" and m.get("name") == "container" and _base_param(m["inner"][0], False) == "queue":
                        return _ref("length", SIZE_T)
                raise GenError("aws_priority_queue_remove: length of something other than queue->container")
            if name == "aws_raise_error" and len(n["inner"]) == 2:
                return rw(n["inner"][1])
        if k == "MemberExpr" and n.get("name") == "data":
            m = n["inner"][0]
            if m.get("kind") == "MemberExpr" and m.get("name") == "backpointers" and _base_param(m["inner"][0], False) == "queue":
                return _ref("backpointers_data", SIZE_T)
        m = dict(n)
        if "inner" in n:
            m["inner"] = [rw(c) if isinstance(c, dict) else c for c in n["inner"]]
        return m
    new = [rw(s) for s in stmts[:cut]]
    new.append({"kind": "ReturnStmt", "inner": [{"kind": "IntegerLiteral", "type": {"qualType": "int"}, "value": "0"}]})
    nb = {"kind": "CompoundStmt", "inner": new}
    _no_param_refs(nb, params, "aws_priority_queue_remove (guards)")
    return {"kind": "FunctionDecl", "name": "remove_guard", "type": {"qualType": "int (size_t, size_t, size_t)"},
            "inner": [_param("current_index", SIZE_T), _param("length", SIZE_T), _param("backpointers_data", SIZE_T), nb]}


# ------------------------------------------------------------------------------------------ comparison sites
RELOPS = ("<", ">", "<=", ">=", "==", "!=")
INT = {"qualType": "int"}


def _is_pred_call(n):
    if n.get("kind") != "CallExpr":
        return False
    c = n["inner"][0]
    while c.get("kind") in PASS:
        c = c["inner"][0]
    return c.get("kind") == "MemberExpr" and c.get("name") == "pred"


def pred_sites(fn, fname):
    """every use of `queue->pred(x, y)` in the function, in source order: it must be one operand of a relational
    operator, its arguments plain local variables.  Returns [(arg names, synthetic `_Bool site(int r)` node)] where the
    call is replaced by the parameter r (the comparator's int result)."""
    sites, loose = [], []

    def strip(n):
        while n.get("kind") in PASS:
            n = n["inner"][0]
        return n

    def walk(n, parent_ok):
        if _is_pred_call(n) and not parent_ok:
            loose.append(n)
        if n.get("kind") == "BinaryOperator" and n.get("opcode") in RELOPS:
            ops = [strip(c) for c in n["inner"]]
            idx = [i for i, o in enumerate(ops) if _is_pred_call(o)]
            if len(idx) == 1:
                call = ops[idx[0]]
                names = []
                for a in call["inner"][1:]:
                    a = strip(a)
                    if a.get("kind") != "DeclRefExpr" or a.get("referencedDecl", {}).get("kind") != "VarDecl":
                        raise GenError(f"{fname}: comparator argument is not a local variable")
                    names.append(a["referencedDecl"]["name"])
                inner = list(n["inner"])
                inner[idx[0]] = _ref("r", INT)
                cmpn = dict(n); cmpn["inner"] = inner
                body = {"kind": "CompoundStmt", "inner": [{"kind": "ReturnStmt", "inner": [cmpn]}]}
                node = {"kind": "FunctionDecl", "name": "site", "type": {"qualType": "_Bool (int)"},
                        "inner": [_param("r", INT), body]}
                sites.append((names, node))
                for i, c in enumerate(n["inner"]):
                    if i != idx[0]:
                        walk(c, False)
                return
        for c in n.get("inner", []) or []:
            if isinstance(c, dict):
                walk(c, False)
    body = [c for c in fn["inner"] if c.get("kind") == "CompoundStmt"]
    if len(body) != 1:
        raise GenError(f"{fname} has no body")
    walk(body[0], False)
    if loose:
        raise GenError(f"{fname}: the comparator's result is used other than as an operand of a relational operator")
    return sites


def _translate(node, lean_name, enums, want_params, want_ret):
    tr = cfun.FnTranslator(node, lean_name, lambda c: None, enums, fuel=4)
    text, info = tr.translate()
    if [tuple(p) for p in info["params"]] != want_params or info["ret"] != want_ret or info["kind"] != "value" or info["abort"]:
        raise GenError(f"{lean_name}: unexpected signature {info['params']} -> {info['ret']} ({info['kind']})")
    return text


def generate(repo, cfg_inc):
    inc = _includes(repo, cfg_inc)
    pq = os.path.join(repo, "source", "priority_queue.c")
    ts = os.path.join(repo, "source", "task_scheduler.c")
    # index macros: the stubs only name the macro; its body is the text of /repo's priority_queue.c
    tu = f'#include "{pq}"\n' + "".join(
        f"static inline size_t verif_c06_{m}(size_t index) {{ return {m}(index); }}\n" for m in MACROS)
    nodes = cfun.dump_functions(tu, "verif_c06_", inc)
    out = ["/-! GENERATED by gen/heap_gen.py from /repo's source/priority_queue.c and source/task_scheduler.c — do not edit. -/",
           "set_option linter.unusedVariables false", "namespace AwsVerif.Gen.HeapIdx", ""]
    for m in MACROS:
        if "verif_c06_" + m not in nodes:
            raise GenError(f"macro {m} is no longer defined (or no longer an expression) in priority_queue.c")
        out.append(f"/-- `#define {m}(index)` of priority_queue.c, expanded on a `size_t` argument -/")
        out.append(_translate(nodes["verif_c06_" + m], m, {}, [("index", (64, False))], (64, False)))
    # guards of aws_priority_queue_remove
    rn = cfun.dump_functions(f'#include "{pq}"\n', "aws_priority_queue_remove", inc)
    if "aws_priority_queue_remove" not in rn:
        raise GenError("aws_priority_queue_remove not found in priority_queue.c")
    g = guard_node(rn["aws_priority_queue_remove"])
    names = set()
    cfun.collect_enum_names(g, names)
    names.add("AWS_ERROR_PRIORITY_QUEUE_BAD_NODE")
    enums = cfun.enum_probe(sorted(names), inc)
    out.append("/-- the statements of `aws_priority_queue_remove` in front of the call of `s_remove_node`, as a function of the three")
    out.append("state reads `node->current_index`, `aws_array_list_length(&queue->container)`, `queue->backpointers.data`")
    out.append("(pointer as integer): 0 = proceed, otherwise the error code raised -/")
    out.append(_translate(g, "remove_guard", enums,
                          [("current_index", (64, False)), ("length", (64, False)), ("backpointers_data", (64, False))], (32, True)))
    out.append(f"def AWS_ERROR_PRIORITY_QUEUE_BAD_NODE : Nat := {enums['AWS_ERROR_PRIORITY_QUEUE_BAD_NODE']}")
    out.append("")
    # the comparison sites of the two sift loops: argument order and relational test
    for fname, want in (("s_sift_down", 2), ("s_sift_up", 1)):
        fnodes = cfun.dump_functions(f'#include "{pq}"\n', fname, inc)
        if fname not in fnodes:
            raise GenError(f"{fname} not found in priority_queue.c")
        sites = pred_sites(fnodes[fname], fname)
        if len(sites) != want:
            raise GenError(f"{fname}: expected {want} comparator call(s), found {len(sites)}")
        for k, (names, node) in enumerate(sites, 1):
            base = f"{fname[2:]}_site{k}"
            out.append(f"/-- comparison site {k} of `{fname}`: `queue->pred({', '.join(names)})` — the local variables passed, in order -/")
            out.append(f"def {base}_args : List String := [" + ", ".join('"' + x + '"' for x in names) + "]")
            out.append(f"/-- … and the test applied to the comparator's `int` result `r` (32-bit two's complement) -/")
            out.append(_translate(node, f"{base}_test", {}, [("r", (32, True))], (1, False)))
    # scheduler comparator
    cn = cfun.dump_functions(f'#include "{ts}"\n', "s_compare_timestamps", inc)
    if "s_compare_timestamps" not in cn:
        raise GenError("s_compare_timestamps not found in task_scheduler.c")
    node, ps = comparator_node(cn["s_compare_timestamps"])
    out.append("/-- `static int s_compare_timestamps(const void *a, const void *b)` of task_scheduler.c as a function of the two")
    out.append("`timestamp` fields it reads; the `int` result is a `Nat` in 32-bit two's complement -/")
    out.append(_translate(node, "s_compare_timestamps", {}, [(p, (64, False)) for p in ps], (32, True)))
    out.append("end AwsVerif.Gen.HeapIdx\n")
    return "\n".join(out), dict(bad_node=enums["AWS_ERROR_PRIORITY_QUEUE_BAD_NODE"])
