"""Generated layer for C14 (logging): re-derived from /repo's source on every run.

  * `s_advance_and_clamp_index` (static, source/log_formatter.c) through gen/cfun.py
  * integer constants of log_formatter.c / logging.c / headers, evaluated by clang (array-size trick:
    `char probe[(K) + 1]` -> the AST carries the evaluated bound)
  * `s_log_level_strings` (logging.c) and the literal format strings of the five snprintf calls of
    `aws_format_standard_log_line`, read from the AST

Output: lean/AwsVerif/Gen/LogClamp.lean (namespace AwsVerif.Gen.Log).
"""
import json, os, re, subprocess, tempfile
from . import cfun
from .cfun import GenError

FORMATTER_CONSTS = ["LOG_LEVEL_PREFIX_PADDING", "THREAD_ID_PREFIX_PADDING", "MISC_PADDING", "MAX_LOG_LINE_PREFIX_SIZE",
                    "AWS_DATE_TIME_STR_MAX_LEN", "AWS_THREAD_ID_T_REPR_BUFSZ"]
LOGGING_CONSTS = ["MAXIMUM_NO_ALLOC_LOG_LINE_SIZE", "AWS_LL_COUNT", "AWS_LOG_SUBJECT_STRIDE_BITS", "AWS_PACKAGE_SLOTS"]
ERRORS = ["AWS_ERROR_INVALID_ARGUMENT", "AWS_ERROR_UNKNOWN", "AWS_ERROR_SHORT_BUFFER"]
FMT_NAMES = ["fmtLevel", "fmtThread", "fmtSubject", "fmtSeparator", "fmtNewline"]


def _includes(repo, cfg_inc):
    return ["-I" + os.path.join(repo, "include"), "-I" + cfg_inc]


def _ast(tu_text, filt, inc):
    with tempfile.TemporaryDirectory() as d:
        p = os.path.join(d, "tu.c")
        open(p, "w").write(tu_text)
        cmd = [cfun.CLANG, "-std=gnu99", "-fsyntax-only", "-w", "-D_POSIX_C_SOURCE=200809L", "-D_XOPEN_SOURCE=500"] + inc + \
              ["-Xclang", "-ast-dump=json", "-Xclang", "-ast-dump-filter=" + filt, p]
        r = subprocess.run(cmd, stdout=subprocess.PIPE, stderr=subprocess.PIPE, text=True)
        if r.returncode != 0:
            raise GenError("clang rejected the translation unit: " + r.stderr[-1500:])
    return cfun.parse_concatenated_json(r.stdout)


def constants(src, names, inc):
    """evaluate integer constant expressions in the scope of a source file"""
    tu = f'#include "{src}"\n' + "".join(f"char verif_c14_probe_{n}[({n}) + 1];\n" for n in names)
    out = {}
    for o in _ast(tu, "verif_c14_probe_", inc):
        if o.get("kind") == "VarDecl" and o.get("name", "").startswith("verif_c14_probe_"):
            m = re.match(r"char\s*\[(\d+)\]", o["type"]["qualType"])
            if not m:
                raise GenError("constant probe: unexpected type " + o["type"]["qualType"])
            out[o["name"][len("verif_c14_probe_"):]] = int(m.group(1)) - 1
    for n in names:
        if n not in out:
            raise GenError(f"constant {n} not found in {os.path.basename(src)}")
    return out


def _c_string_value(lit):
    """clang prints StringLiteral.value as C source text with quotes: decode the escapes"""
    s = lit["value"]
    if not (s.startswith('"') and s.endswith('"')):
        raise GenError("unexpected string literal form " + s)
    body, out, i = s[1:-1], bytearray(), 0
    simple = {"n": 10, "t": 9, "r": 13, "0": 0, "\\": 92, '"': 34, "'": 39, "a": 7, "b": 8, "f": 12, "v": 11}
    while i < len(body):
        c = body[i]
        if c != "\\":
            out += c.encode("utf-8"); i += 1; continue
        i += 1
        e = body[i]
        if e == "x":
            j = i + 1
            while j < len(body) and body[j] in "0123456789abcdefABCDEF":
                j += 1
            out.append(int(body[i + 1:j], 16) & 255); i = j; continue
        if e in "01234567":
            j = i
            while j < len(body) and j < i + 3 and body[j] in "01234567":
                j += 1
            out.append(int(body[i:j], 8) & 255); i = j; continue
        if e not in simple:
            raise GenError("unsupported escape in string literal " + s)
        out.append(simple[e]); i += 1
    return bytes(out)


def _walk(n, f):
    f(n)
    for c in n.get("inner", []) or []:
        if isinstance(c, dict):
            _walk(c, f)


def level_strings(repo, inc):
    tu = f'#include "{os.path.join(repo, "source", "logging.c")}"\n'
    for o in _ast(tu, "s_log_level_strings", inc):
        if o.get("kind") == "VarDecl" and o.get("name") == "s_log_level_strings":
            lits = []
            _walk(o, lambda n: lits.append(n) if n.get("kind") == "StringLiteral" else None)
            if not lits:
                raise GenError("s_log_level_strings has no string initialisers")
            return [_c_string_value(l) for l in lits]
    raise GenError("s_log_level_strings not found in logging.c")


def format_strings(fn_node):
    """literal format argument of every snprintf call in aws_format_standard_log_line, in source order"""
    res = []

    def visit(n):
        if n.get("kind") == "CallExpr":
            try:
                cal = cfun.FnTranslator._strip(n["inner"][0])
                name = cal.get("referencedDecl", {}).get("name")
            except Exception:
                name = None
            if name == "snprintf":
                a = n["inner"][3]
                while a.get("kind") in ("ImplicitCastExpr", "ParenExpr", "CStyleCastExpr"):
                    a = a["inner"][0]
                if a.get("kind") != "StringLiteral":
                    raise GenError("snprintf with a non-literal format in aws_format_standard_log_line")
                res.append((_c_string_value(a), len(n["inner"]) - 4))
    _walk(fn_node, visit)
    return res


def _replace(n, pred, make):
    """copy of the AST with every node satisfying pred replaced by make(node)"""
    if isinstance(n, dict):
        if pred(n):
            return make(n)
        return {k: _replace(v, pred, make) for k, v in n.items()}
    if isinstance(n, list):
        return [_replace(x, pred, make) for x in n]
    return n


def _synthetic(name, ret, params, expr):
    ps = [{"kind": "ParmVarDecl", "name": pn, "type": {"qualType": pt}} for pn, pt in params]
    return {"kind": "FunctionDecl", "name": name, "type": {"qualType": f"{ret} ({', '.join(pt for _, pt in params)})"},
            "inner": ps + [{"kind": "CompoundStmt", "inner": [{"kind": "ReturnStmt", "inner": [expr]}]}]}


def subject_lookup(repo, inc):
    """the integer skeleton of s_get_log_subject_info_by_id (logging.c): range guard, slot index, index within the slot and
    the bound test against the slot's count, each translated by gen/cfun.py from the expression found in the AST; the
    pointer part (slot table, &list[index]) is checked to have the expected shape and is modelled by hand"""
    tu = f'#include "{os.path.join(repo, "source", "logging.c")}"\n'
    nodes = cfun.dump_functions(tu, "s_get_log_subject_info_by_id", inc)
    if "s_get_log_subject_info_by_id" not in nodes:
        raise GenError("s_get_log_subject_info_by_id not found in logging.c")
    fn = nodes["s_get_log_subject_info_by_id"]
    smax = None
    for o in _ast(tu, "S_MAX_LOG_SUBJECT", inc):
        if o.get("kind") == "VarDecl" and o.get("name") == "S_MAX_LOG_SUBJECT" and o.get("inner"):
            smax = o["inner"][0]
    if smax is None:
        raise GenError("S_MAX_LOG_SUBJECT with an initialiser not found in logging.c")
    body = [c for c in fn["inner"] if c["kind"] == "CompoundStmt"][0]["inner"]
    kinds = [c["kind"] for c in body]
    if kinds != ["IfStmt", "DeclStmt", "DeclStmt", "DeclStmt", "IfStmt", "ReturnStmt"]:
        raise GenError(f"s_get_log_subject_info_by_id changed its shape: {kinds}")
    decls = [c["inner"][0] for c in body[1:4]]
    if [d.get("name") for d in decls] != ["slot_index", "subject_index", "subject_slot"]:
        raise GenError("s_get_log_subject_info_by_id: unexpected locals " + str([d.get("name") for d in decls]))
    names = lambda n: {x for x in re.findall(r'"name": "(\w+)"', json.dumps(n))}
    if not {"s_log_subject_slots", "slot_index"} <= names(decls[2]):
        raise GenError("subject_slot is no longer s_log_subject_slots[slot_index]")
    if not {"subject_list", "subject_index", "subject_slot"} <= names(body[5]) or '"opcode": "&"' not in json.dumps(body[5]):
        raise GenError("the result is no longer &subject_slot->subject_list[subject_index]")
    for k in (0, 4):
        if "NullToPointer" not in json.dumps(body[k]["inner"][1]) or len(body[k]["inner"]) != 2:
            raise GenError("a guard of s_get_log_subject_info_by_id no longer returns NULL")
    guard2 = cfun.FnTranslator._strip(body[4]["inner"][0])
    if guard2.get("opcode") != "||" or cfun.FnTranslator._strip(guard2["inner"][0]).get("opcode") != "!" or \
            "subject_slot" not in names(guard2["inner"][0]):
        raise GenError("second guard is no longer `!subject_slot || <bound test>`")
    is_smax = lambda n: n.get("kind") == "DeclRefExpr" and n.get("referencedDecl", {}).get("name") == "S_MAX_LOG_SUBJECT"
    is_count = lambda n: n.get("kind") == "MemberExpr" and n.get("name") == "count"
    count_ref = lambda n: {"kind": "DeclRefExpr", "type": {"qualType": "unsigned long"},
                           "referencedDecl": {"kind": "ParmVarDecl", "name": "count", "type": {"qualType": "unsigned long"}}}
    bound = guard2["inner"][1]
    if not any(is_count(x) for x in _iter(bound)):
        raise GenError("the bound test no longer reads subject_slot->count")
    parts = [
        ("s_subject_too_big", "_Bool", [("subject", "unsigned int")],
         _replace(body[0]["inner"][0], is_smax, lambda n: {"kind": "ParenExpr", "type": smax["type"], "inner": [smax]})),
        ("s_subject_slot", "unsigned int", [("subject", "unsigned int")], decls[0]["inner"][0]),
        ("s_subject_index", "unsigned int", [("subject", "unsigned int")], decls[1]["inner"][0]),
        ("s_subject_index_rejected", "_Bool", [("subject_index", "unsigned int"), ("count", "unsigned long")],
         _replace(bound, is_count, count_ref)),
    ]
    enum_names = set()
    for p in parts:
        cfun.collect_enum_names(p[3], enum_names)
    cfun.collect_enum_names(smax, enum_names)
    enums = constants(os.path.join(repo, "source", "logging.c"), sorted(enum_names), inc) if enum_names else {}
    out = []
    for name, ret, params, expr in parts:
        try:
            text, info = cfun.FnTranslator(_synthetic(name, ret, params, expr), name, lambda c: None, enums, fuel=4).translate()
        except GenError as e:
            raise GenError(f"s_get_log_subject_info_by_id / {name}: {e}")
        out.append(text)
    return "\n".join(out)


def _iter(n):
    if isinstance(n, dict):
        yield n
        for v in n.values():
            yield from _iter(v)
    elif isinstance(n, list):
        for x in n:
            yield from _iter(x)


def lean_bytes(b):
    return "[" + ", ".join(str(x) for x in b) + "]"


def generate(repo, cfg_inc):
    inc = _includes(repo, cfg_inc)
    fsrc = os.path.join(repo, "source", "log_formatter.c")
    lsrc = os.path.join(repo, "source", "logging.c")
    tu = f'#include "{fsrc}"\n'
    nodes = cfun.dump_functions(tu, "s_advance_and_clamp_index", inc)
    if "s_advance_and_clamp_index" not in nodes:
        raise GenError("s_advance_and_clamp_index not found in log_formatter.c")
    tr = cfun.FnTranslator(nodes["s_advance_and_clamp_index"], "s_advance_and_clamp_index", lambda c: None, {}, fuel=8)
    clamp_text, info = tr.translate()
    want = [("current_index", (64, False)), ("amount", (32, True)), ("maximum", (64, False))]
    if [tuple(p) for p in info["params"]] != want or info["ret"] != (64, False) or info["kind"] != "value":
        raise GenError(f"s_advance_and_clamp_index changed its signature: {info['params']} -> {info['ret']}")
    fnodes = cfun.dump_functions(tu, "aws_format_standard_log_line", inc)
    if "aws_format_standard_log_line" not in fnodes:
        raise GenError("aws_format_standard_log_line not found in log_formatter.c")
    fmts = format_strings(fnodes["aws_format_standard_log_line"])
    if len(fmts) != len(FMT_NAMES):
        raise GenError(f"aws_format_standard_log_line: expected {len(FMT_NAMES)} snprintf calls with literal formats, found {len(fmts)}")
    nargs = [k for _, k in fmts]
    if nargs != [1, 1, 1, 0, 0]:
        raise GenError(f"aws_format_standard_log_line: snprintf argument shapes changed: {nargs}")
    for (f, k) in fmts:
        if f.count(b"%") != k or (k == 1 and f.count(b"%s") != 1):
            raise GenError(f"format string {f!r} is outside the subset (only one %s per segment)")
    cf = constants(fsrc, FORMATTER_CONSTS, inc)
    cl = constants(lsrc, LOGGING_CONSTS, inc)
    ce = constants(lsrc, ERRORS, inc)
    levels = level_strings(repo, inc)
    if len(levels) != cl["AWS_LL_COUNT"]:
        raise GenError(f"s_log_level_strings has {len(levels)} entries, AWS_LL_COUNT = {cl['AWS_LL_COUNT']}")
    out = ["/-! GENERATED by gen/log_gen.py from /repo's source/log_formatter.c, source/logging.c and headers — do not edit. -/",
           "set_option linter.unusedVariables false", "namespace AwsVerif.Gen.Log", "",
           "/-- `static size_t s_advance_and_clamp_index(size_t current_index, int amount, size_t maximum)`;",
           "C integers as `Nat` in two's complement (`amount` is a 32-bit `int`). -/", clamp_text]
    for k, v in list(cf.items()) + list(cl.items()) + list(ce.items()):
        out.append(f"def {k} : Nat := {v}")
    out.append("")
    out.append("/-- `s_log_level_strings` of logging.c, indexed by `enum aws_log_level` -/")
    out.append("def levelStrings : List (List UInt8) := [" + ", ".join(lean_bytes(b) for b in levels) + "]")
    out.append("")
    out.append("/-! literal format strings of the five `snprintf` calls of `aws_format_standard_log_line`, in source order -/")
    for nm, (f, k) in zip(FMT_NAMES, fmts):
        out.append(f"def {nm} : List UInt8 := {lean_bytes(f)}   -- {f!r}")
    out.append("")
    out.append("/-! integer skeleton of `s_get_log_subject_info_by_id` (logging.c): range guard, slot, index in the slot, bound test -/")
    out.append(subject_lookup(repo, inc))
    out.append("end AwsVerif.Gen.Log\n")
    meta = dict(consts={**cf, **cl, **ce}, levels=[l.decode() for l in levels], fmts=[f.decode() for f, _ in fmts])
    return "\n".join(out), meta
