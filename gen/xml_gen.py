"""Generated layer for C12 (XML): re-derived from /repo's source on every run.

From source/xml_parser.c and include/aws/common/private/xml_parser_impl.h:
  * limits: s_max_document_depth, MAX_NAME_LEN, NODE_CLOSE_OVERHEAD (evaluated by a compiled probe that #includes
    the .c file), the sizes of the local arrays name_close / name_open *as written*, the capacities the two compare
    buffers are created with, the overhead added to the name length, the array whose sizeof limits the name;
  * the capacities of parser->split_scratch and parser->attributes (sizeof probe on the struct of the private
    header) and, for each of the three aws_array_list_init_static calls of s_load_node_decl, the backing array and
    the capacity expression actually passed (pasted into the probe and evaluated by the compiler);
  * literal sets: the name-end delimiters of s_advance_to_closing_tag, the preamble markers, the split characters and
    the n of aws_byte_cursor_split_on_char_n, the '/' tests, the "<" "/" ">" pieces of the compare buffers and the
    order they are appended in;
  * through gen/cfun.py (condition text cut out into stub functions, state reads lifted to parameters): the depth
    test and the loop guard of aws_xml_node_traverse, the defaulting of options->max_depth, and s_double_quote_fn.

Output: lean/AwsVerif/Gen/XmlConsts.lean (namespace AwsVerif.Gen.XmlConsts).  Anything not recognised raises
GenError (a broken correspondence of the generated layer).
"""
import os, re, subprocess, tempfile
from . import cfun
from .cfun import GenError

CHAR = r"'(?:\\.|[^'\\])'"


def strip_comments(txt):
    return re.sub(r"/\*.*?\*/", lambda m: " " * 0 + "\n" * m.group(0).count("\n"), txt, flags=re.S)


def fn_body(txt, name):
    """text between the braces of the definition of `name`"""
    for m in re.finditer(r"\b" + re.escape(name) + r"\s*\(", txt):
        i, depth = m.end(), 1
        while i < len(txt) and depth:
            depth += {"(": 1, ")": -1}.get(txt[i], 0)
            i += 1
        j = i
        while j < len(txt) and txt[j] in " \t\r\n":
            j += 1
        if j < len(txt) and txt[j] == "{":
            k, depth = j + 1, 1
            while k < len(txt) and depth:
                depth += {"{": 1, "}": -1}.get(txt[k], 0)
                k += 1
            return txt[j + 1:k - 1]
    raise GenError(f"xml_parser.c: definition of {name} not found")


def c_char(lit):
    body = lit[1:-1]
    simple = {"n": 10, "t": 9, "r": 13, "0": 0, "\\": 92, '"': 34, "'": 39, "a": 7, "b": 8, "f": 12, "v": 11}
    if body.startswith("\\"):
        if body[1] == "x":
            return int(body[2:], 16) & 255
        if body[1] not in simple:
            raise GenError("unsupported character literal " + lit)
        return simple[body[1]]
    if len(body.encode()) != 1:
        raise GenError("unsupported character literal " + lit)
    return body.encode()[0]


def one(pattern, text, what, flags=re.S):
    ms = list(re.finditer(pattern, text, flags))
    if len(ms) != 1:
        raise GenError(f"xml_parser.c: {what}: expected exactly one match, found {len(ms)}")
    return ms[0]


def norm(s):
    return " ".join(s.split())


def disjunction_of_eq(cond, lhs_pattern, what):
    """cond must be `L == 'c' || L == 'c' || …` with every L matching lhs_pattern; returns the bytes in order"""
    parts = [p.strip() for p in cond.split("||")]
    out = []
    for p in parts:
        m = re.fullmatch(r"(.+?)\s*==\s*(" + CHAR + r")", p, re.S)
        if not m or not re.fullmatch(lhs_pattern, norm(m.group(1))):
            raise GenError(f"xml_parser.c: {what}: `{norm(p)}` is not of the form <operand> == '<char>'")
        out.append(c_char(m.group(2)))
    return out


def probe(repo, cfg_inc, exprs, decls=""):
    """evaluate size_t constant expressions in the scope of xml_parser.c (compiled, so sizeof / AWS_ARRAY_SIZE /
    macros mean what the compiler says)"""
    src = os.path.join(repo, "source", "xml_parser.c")
    body = "".join(f'    printf("{k} %llu\\n", (unsigned long long)({e}));\n' for k, e in exprs)
    tu = (f'#include "{src}"\n#include <stdio.h>\nint main(void) {{\n    struct aws_xml_parser *parser = NULL; (void)parser;\n'
          f"{decls}{body}    return 0;\n}}\n")
    inc = ["-I" + os.path.join(repo, "include"), "-I" + cfg_inc, "-D_POSIX_C_SOURCE=200809L", "-D_XOPEN_SOURCE=500"]
    with tempfile.TemporaryDirectory() as d:
        p = os.path.join(d, "probe.c")
        open(p, "w").write(tu)
        exe = os.path.join(d, "probe")
        r = subprocess.run(["gcc", "-std=gnu99", "-w", "-O0", "-ffunction-sections", "-fdata-sections"] + inc +
                           [p, "-Wl,--gc-sections", "-Wl,--unresolved-symbols=ignore-all", "-o", exe],
                           stdout=subprocess.PIPE, stderr=subprocess.STDOUT, text=True)
        if r.returncode != 0:
            raise GenError("xml constant probe does not compile: " + r.stdout[-1500:])
        r = subprocess.run([exe], stdout=subprocess.PIPE, stderr=subprocess.STDOUT, text=True, timeout=20)
        if r.returncode != 0:
            raise GenError("xml constant probe failed: " + r.stdout[-500:])
    out = {}
    for line in r.stdout.splitlines():
        t = line.split()
        if len(t) == 2:
            out[t[0]] = int(t[1])
    for k, _ in exprs:
        if k not in out:
            raise GenError("xml constant probe: no value for " + k)
    return out


def init_static_calls(body):
    """[(list expr, backing array expr, capacity expr, item size expr)] of aws_array_list_init_static calls, in order"""
    out = []
    for m in re.finditer(r"aws_array_list_init_static\s*\(", body):
        i, depth, args, cur = m.end(), 1, [], ""
        while i < len(body) and depth:
            c = body[i]
            if c == "(":
                depth += 1
            elif c == ")":
                depth -= 1
                if depth == 0:
                    break
            if c == "," and depth == 1:
                args.append(norm(cur)); cur = ""
            else:
                cur += c
            i += 1
        args.append(norm(cur))
        if len(args) != 4:
            raise GenError("xml_parser.c: aws_array_list_init_static call with %d arguments" % len(args))
        out.append(tuple(args))
    return out


def lean_bytes(bs):
    return "[" + ", ".join(str(b) for b in bs) + "]"


def _chars_to_ints(n):
    """gen/cfun.py has no CharacterLiteral: a character constant is an `int` literal of its value"""
    if isinstance(n, dict):
        if n.get("kind") == "CharacterLiteral":
            return {"kind": "IntegerLiteral", "type": {"qualType": "int"}, "value": str(n["value"])}
        return {k: _chars_to_ints(v) for k, v in n.items()}
    if isinstance(n, list):
        return [_chars_to_ints(x) for x in n]
    return n


def _stub(name, params, expr, inc):
    """translate `return (expr) ? 1 : 0;`-style stubs through gen/cfun.py"""
    sig = ", ".join(f"{t} {n}" for n, t in params)
    tu = f"#include <stddef.h>\n#include <stdint.h>\n#include <stdbool.h>\nstatic inline {expr[0]} {name}({sig}) {{ return {expr[1]}; }}\n"
    nodes = cfun.dump_functions(tu, name, inc)
    if name not in nodes:
        raise GenError(f"stub {name} did not parse")
    tr = cfun.FnTranslator(nodes[name], name[len("verif_c12_"):], lambda c: None, {}, fuel=4)
    text, info = tr.translate()
    if info["kind"] != "value" or info["abort"]:
        raise GenError(f"stub {name}: unexpected translation kind")
    return text


def only_identifiers(expr, allowed, what):
    ids = set(re.findall(r"[A-Za-z_]\w*", expr))
    if not ids <= set(allowed):
        raise GenError(f"xml_parser.c: {what}: unexpected identifiers {sorted(ids - set(allowed))} in `{norm(expr)}`")


LOCAL_FNS = ["s_load_node_decl", "aws_xml_parse", "s_advance_to_closing_tag", "aws_xml_node_as_body", "aws_xml_node_traverse",
             "s_node_next_sibling", "aws_xml_node_get_name", "aws_xml_node_get_num_attributes", "aws_xml_node_get_attribute",
             "s_double_quote_fn"]


def _int_type(n):
    try:
        t = cfun.ctype_of(n)
    except GenError:
        return None
    return t if isinstance(t, tuple) and len(t) == 2 and isinstance(t[0], int) else None


def locals_table(repo, inc):
    """declared integer width and storage class of every local variable, and every narrowing integer cast, in the
    functions of xml_parser.c (clang AST): ([(fn, name, bits)], [(fn, name)] with static storage, [(fn, type)] casts)"""
    src = os.path.join(repo, "source", "xml_parser.c")
    ints, statics, casts = [], [], []
    flags = inc + ["-D_POSIX_C_SOURCE=200809L", "-D_XOPEN_SOURCE=500"]
    for fn in LOCAL_FNS:
        nodes = cfun.dump_functions(f'#include "{src}"\n', fn, flags)
        if fn not in nodes:
            raise GenError(f"xml_parser.c: function {fn} not found")

        def walk(n):
            if not isinstance(n, dict):
                return
            k = n.get("kind")
            if k == "VarDecl":
                if n.get("storageClass") == "static":
                    statics.append((fn, n.get("name", "?")))
                t = _int_type(n)
                if t:
                    ints.append((fn, n.get("name", "?"), t[0]))
            elif k == "CStyleCastExpr":
                t = _int_type(n)
                if t and t[0] < 64:
                    casts.append((fn, n.get("type", {}).get("qualType", "?")))
            for c in n.get("inner", []) or []:
                walk(c)
        walk(nodes[fn])
    return ints, statics, casts


def bytebuf_guards(repo, inc):
    """guards and index expressions of aws_byte_cursor_{left,right}_trim_pred, aws_byte_cursor_next_split,
    aws_byte_cursor_split_on_char_n and aws_byte_buf_append, as cfun-translated stubs (state reads lifted to parameters)"""
    path = os.path.join(repo, "source", "byte_buf.c")
    if not os.path.exists(path):
        raise GenError("source/byte_buf.c not found")
    txt = strip_comments(open(path).read())
    texts, docs = [], []

    def stub(name, params, ret, expr, doc):
        texts.append(_stub("verif_c12_" + name, params, (ret, expr), inc))
        docs.append(doc)

    # right trim: `while (trimmed.len > 0 && predicate(*(trimmed.ptr + trimmed.len - 1))) { --trimmed.len; }`
    rt = fn_body(txt, "aws_byte_cursor_right_trim_pred")
    m = one(r"\b(while|if)\s*\(\s*(.+?)\s*&&\s*predicate\s*\(\s*\*\s*\(\s*trimmed\.ptr\s*\+\s*(.+?)\)\s*\)\s*\)\s*\{\s*--trimmed\.len\s*;\s*\}",
            rt, "loop of aws_byte_cursor_right_trim_pred")
    g, ix = m.group(2).replace("trimmed.len", "len"), m.group(3).replace("trimmed.len", "len")
    only_identifiers(g, ["len"], "right trim guard"); only_identifiers(ix, ["len"], "right trim index")
    stub("right_trim_guard", [("len", "size_t")], "int", f"({g}) ? 1 : 0", f"`{m.group(1)} ({norm(m.group(2))} && predicate(…))` of aws_byte_cursor_right_trim_pred: the length guard")
    stub("right_trim_index", [("len", "size_t")], "size_t", ix, f"… the byte tested: `*(trimmed.ptr + {norm(m.group(3))})`")
    texts.append(f"def right_trim_is_loop : Bool := {'true' if m.group(1) == 'while' else 'false'}"); docs.append("… it is a `while` loop")
    # left trim: `while (trimmed.len > 0 && predicate(*(trimmed.ptr))) { --trimmed.len; ++trimmed.ptr; }`
    lt = fn_body(txt, "aws_byte_cursor_left_trim_pred")
    m = one(r"\b(while|if)\s*\(\s*(.+?)\s*&&\s*predicate\s*\(\s*\*\s*\(\s*trimmed\.ptr\s*\)\s*\)\s*\)\s*\{\s*--trimmed\.len\s*;\s*\+\+trimmed\.ptr\s*;\s*\}",
            lt, "loop of aws_byte_cursor_left_trim_pred")
    g = m.group(2).replace("trimmed.len", "len")
    only_identifiers(g, ["len"], "left trim guard")
    stub("left_trim_guard", [("len", "size_t")], "int", f"({g}) ? 1 : 0", f"`{m.group(1)} ({norm(m.group(2))} && predicate(*(trimmed.ptr)))` of aws_byte_cursor_left_trim_pred: the length guard")
    texts.append(f"def left_trim_is_loop : Bool := {'true' if m.group(1) == 'while' else 'false'}"); docs.append("… it is a `while` loop")
    tp = fn_body(txt, "aws_byte_cursor_trim_pred")
    one(r"left_trimmed\s*=\s*aws_byte_cursor_left_trim_pred\s*\(\s*source\s*,\s*predicate\s*\)\s*;\s*struct\s+aws_byte_cursor\s+dest\s*=\s*"
        r"aws_byte_cursor_right_trim_pred\s*\(\s*&left_trimmed\s*,\s*predicate\s*\)\s*;", tp, "aws_byte_cursor_trim_pred = right trim of the left trim")
    # next_split
    ns = fn_body(txt, "aws_byte_cursor_next_split")
    one(r"substr->ptr\s*\+=\s*substr->len\s*\+\s*1\s*;", ns, "next_split: advance past the previous piece")
    m = one(r"if\s*\(([^{}]*?)\)\s*\{\s*AWS_ZERO_STRUCT\(\*substr\);\s*return\s+false;\s*\}\s*substr->len\s*=", ns, "next_split: done test")
    e = m.group(1).replace("substr->ptr", "p").replace("input_str->ptr", "start")
    only_identifiers(e, ["p", "input_end", "start"], "next_split done test")
    stub("next_split_done", [("p", "size_t"), ("input_end", "size_t"), ("start", "size_t")], "int", f"({e}) ? 1 : 0",
         f"`if ({norm(m.group(1))})` of aws_byte_cursor_next_split -> no further piece (pointers as integers)")
    m = one(r"substr->len\s*=\s*(input_str->len\s*-\s*\(substr->ptr\s*-\s*input_str->ptr\))\s*;\s*\}\s*uint8_t\s*\*\s*new_location\s*=\s*memchr\s*\(\s*substr->ptr\s*,\s*split_on\s*,\s*substr->len\s*\)",
            ns, "next_split: remainder length and search")
    one(r"if\s*\(\s*new_location\s*\)\s*\{\s*substr->len\s*=\s*new_location\s*-\s*substr->ptr\s*;\s*\}", ns, "next_split: piece ends at the split character")
    # split_on_char_n
    sn = fn_body(txt, "aws_byte_cursor_split_on_char_n")
    m = one(r"size_t\s+max_splits\s*=\s*([^;]+);", sn, "split_on_char_n: max_splits")
    only_identifiers(m.group(1), ["n", "SIZE_MAX"], "max_splits")
    stub("split_max", [("n", "size_t")], "size_t", m.group(1).replace("SIZE_MAX", "18446744073709551615UL"), f"`size_t max_splits = {norm(m.group(1))};` of aws_byte_cursor_split_on_char_n")
    m = one(r"while\s*\(\s*(split_count\s*\S+\s*max_splits)\s*&&\s*aws_byte_cursor_next_split\s*\(\s*input_str\s*,\s*split_on\s*,\s*&substr\s*\)\s*\)", sn, "split_on_char_n: loop guard")
    stub("split_continue", [("split_count", "size_t"), ("max_splits", "size_t")], "int", f"({m.group(1)}) ? 1 : 0", f"`while ({norm(m.group(1))} && next_split(…))`")
    m = one(r"if\s*\(\s*(split_count\s*\S+\s*max_splits)\s*\)\s*\{\s*substr\.len\s*=\s*input_str->len\s*-\s*\(substr\.ptr\s*-\s*input_str->ptr\)\s*;\s*\}", sn,
            "split_on_char_n: last piece takes the rest")
    stub("split_is_last", [("split_count", "size_t"), ("max_splits", "size_t")], "int", f"({m.group(1)}) ? 1 : 0", f"`if ({norm(m.group(1))})` -> the piece takes the rest of the string")
    sc = fn_body(txt, "aws_byte_cursor_split_on_char")
    m = one(r"return\s+aws_byte_cursor_split_on_char_n\s*\(\s*input_str\s*,\s*split_on\s*,\s*([^,]+?)\s*,\s*output\s*\)\s*;", sc, "split_on_char -> split_on_char_n")
    stub("split_on_char_n_arg", [], "size_t", m.group(1), f"`aws_byte_cursor_split_on_char_n(input_str, split_on, {norm(m.group(1))}, output)` of aws_byte_cursor_split_on_char")
    # aws_byte_buf_append
    ap = fn_body(txt, "aws_byte_buf_append")
    m = one(r"if\s*\(([^{}]*?)\)\s*\{[^{}]*return\s+aws_raise_error\s*\(\s*AWS_ERROR_DEST_COPY_TOO_SMALL\s*\)\s*;\s*\}", ap, "aws_byte_buf_append: capacity test")
    e = m.group(1).replace("to->capacity", "capacity").replace("to->len", "len").replace("from->len", "n")
    only_identifiers(e, ["capacity", "len", "n"], "append capacity test")
    stub("append_refused", [("capacity", "size_t"), ("len", "size_t"), ("n", "size_t")], "int", f"({e}) ? 1 : 0", f"`if ({norm(m.group(1))})` of aws_byte_buf_append -> refused")
    one(r"memcpy\s*\(\s*to->buffer\s*\+\s*to->len\s*,\s*from->ptr\s*,\s*from->len\s*\)\s*;\s*to->len\s*\+=\s*from->len\s*;", ap, "aws_byte_buf_append: copy and length update")
    return texts, docs


def generate(repo, cfg_inc):
    src = os.path.join(repo, "source", "xml_parser.c")
    hdr = os.path.join(repo, "include", "aws", "common", "private", "xml_parser_impl.h")
    if not os.path.exists(src) or not os.path.exists(hdr):
        raise GenError("xml_parser.c / xml_parser_impl.h not found")
    txt = strip_comments(open(src).read())
    inc = ["-I" + os.path.join(repo, "include"), "-I" + cfg_inc]

    adv = fn_body(txt, "s_advance_to_closing_tag")
    load = fn_body(txt, "s_load_node_decl")
    parse = fn_body(txt, "aws_xml_parse")
    trav = fn_body(txt, "aws_xml_node_traverse")

    # ---- s_advance_to_closing_tag: arrays, buffers, limit
    m_close = one(r"uint8_t\s+name_close\s*\[([^\]]+)\]", adv, "declaration of name_close")
    m_open = one(r"uint8_t\s+name_open\s*\[([^\]]+)\]", adv, "declaration of name_open")
    bufs = {}
    for m in re.finditer(r"struct\s+aws_byte_buf\s+(\w+)\s*=\s*aws_byte_buf_from_empty_array\s*\(\s*(\w+)\s*,\s*([^;]+?)\)\s*;", adv):
        bufs[m.group(1)] = (m.group(2), norm(m.group(3)))
    if set(bufs) != {"closing_cmp_buf", "open_cmp_buf"}:
        raise GenError("xml_parser.c: the two compare buffers of s_advance_to_closing_tag are no longer recognised: " + repr(bufs))
    if bufs["closing_cmp_buf"][0] != "name_close" or bufs["open_cmp_buf"][0] != "name_open":
        raise GenError("xml_parser.c: compare buffers are no longer backed by name_close / name_open: " + repr(bufs))
    m_ovh = one(r"size_t\s+closing_name_len\s*=\s*node->name\.len\s*\+\s*([^;]+);", adv, "closing_name_len")
    m_lim = one(r"if\s*\(\s*sizeof\s*\(\s*(\w+)\s*\)\s*(<=|<)\s*closing_name_len\s*\)", adv, "name length limit test")
    if m_lim.group(1) not in ("name_close", "name_open"):
        raise GenError("xml_parser.c: name length is limited by sizeof(" + m_lim.group(1) + ")")
    m_body = one(r"if\s*\(\s*closing_name_len\s*(>=|>)\s*node->doc_at_body\.len\s*\)", adv, "closing tag must fit the rest of the document")
    # order of appends
    appends = {"open_cmp_buf": [], "closing_cmp_buf": []}
    for m in re.finditer(r"aws_byte_buf_append\s*\(\s*&(\w+)\s*,\s*&([\w>\-\.]+)\s*\)", adv):
        if m.group(1) not in appends:
            raise GenError("xml_parser.c: append to unknown buffer " + m.group(1))
        appends[m.group(1)].append(m.group(2))
    pieces = {}
    for m in re.finditer(r"struct\s+aws_byte_cursor\s+(\w+)\s*=\s*aws_byte_cursor_from_c_str\s*\(\s*\"((?:[^\"\\]|\\.)*)\"\s*\)", adv):
        if "\\" in m.group(2):
            raise GenError("xml_parser.c: escape in a compare-buffer piece")
        pieces[m.group(1)] = list(m.group(2).encode())

    def split_at_name(seq, what):
        if seq.count("node->name") != 1:
            raise GenError(f"xml_parser.c: {what}: node->name is not appended exactly once: {seq}")
        i = seq.index("node->name")
        pre, post = [], []
        for nm in seq[:i]:
            if nm not in pieces:
                raise GenError(f"xml_parser.c: {what}: unknown piece {nm}")
            pre += pieces[nm]
        for nm in seq[i + 1:]:
            if nm not in pieces:
                raise GenError(f"xml_parser.c: {what}: unknown piece {nm}")
            post += pieces[nm]
        return pre, post
    open_pre, open_post = split_at_name(appends["open_cmp_buf"], "open compare buffer")
    close_pre, close_post = split_at_name(appends["closing_cmp_buf"], "closing compare buffer")
    # name-end delimiters
    m_ne = one(r"if\s*\(\s*(name_end\s*==.*?)\)\s*\{\s*depth_count\+\+", adv, "name-end test")
    name_end = disjunction_of_eq(m_ne.group(1), r"name_end", "name-end test")
    one(r"uint8_t\s+name_end\s*=\s*open_find_result\.ptr\s*\[\s*to_find_open\.len\s*\]\s*;", adv, "read of the byte after `<name`")

    # cursor movements of the closing-tag search, as modelled by closeInner (one byte past a counted / uncounted "<name",
    # the whole closing tag behind the match) and the body length
    one(r"aws_byte_cursor_advance\s*\(\s*&parser->doc\s*,\s*skip_len\s*\+\s*1\s*\)\s*;", adv, "advance past a nested opening")
    one(r"size_t\s+skip_len\s*=\s*close_find_result\.ptr\s*-\s*parser->doc\.ptr\s*;\s*aws_byte_cursor_advance\s*\(\s*&parser->doc\s*,\s*"
        r"skip_len\s*\+\s*closing_cmp_buf\.len\s*\)\s*;\s*depth_count--\s*;\s*break\s*;", adv, "advance behind the closing tag")
    one(r"size_t\s+len\s*=\s*close_find_result\.ptr\s*-\s*node->doc_at_body\.ptr\s*;", adv, "body length")
    one(r"if\s*\(\s*open_find_result\.ptr\s*<\s*close_find_result\.ptr\s*\)", adv, "opening found in front of the closing tag")
    one(r"\}\s*while\s*\(\s*depth_count\s*>\s*0\s*\)\s*;", adv, "loop until the depth counter is 0")
    one(r"size_t\s+depth_count\s*=\s*1\s*;", adv, "depth counter starts at 1")

    # ---- s_load_node_decl
    m_empty = one(r"node->is_empty\s*=\s*decl_body->ptr\s*\[\s*decl_body->len\s*-\s*1\s*\]\s*==\s*(" + CHAR + r")\s*;", load, "is_empty test")
    m_sp = one(r"aws_byte_cursor_split_on_char\s*\(\s*decl_body\s*,\s*(" + CHAR + r")\s*,\s*&splits\s*\)", load, "split of the declaration")
    m_eq = one(r"aws_byte_cursor_split_on_char_n\s*\(\s*&attribute_pair\s*,\s*(" + CHAR + r")\s*,\s*([^,]+?)\s*,\s*&att_val_pair_lst\s*\)", load,
               "split of an attribute piece")
    m_trim = one(r"aws_byte_cursor_trim_pred\s*\(\s*&att_val_pair\s*\[\s*1\s*\]\s*,\s*(\w+)\s*\)", load, "value trimming")
    one(r"\.name\s*=\s*att_val_pair\s*\[\s*0\s*\]", load, "attribute name piece")
    m_loop = one(r"for\s*\(\s*size_t\s+i\s*=\s*([^;]+);\s*i\s*<\s*splits\.length\s*;\s*\+\+i\s*\)", load, "attribute loop")
    m_pairdecl = one(r"struct\s+aws_byte_cursor\s+att_val_pair\s*\[([^\]]+)\]\s*;", load, "declaration of att_val_pair")
    calls = init_static_calls(load)
    by_list = {c[0]: c for c in calls}
    if set(by_list) != {"&splits", "&node->attributes", "&att_val_pair_lst"} or len(calls) != 3:
        raise GenError("xml_parser.c: the static lists of s_load_node_decl are no longer recognised: " + repr(calls))
    backing_size = {"parser->split_scratch": "sizeof(parser->split_scratch) / sizeof(struct aws_byte_cursor)",
                    "parser->attributes": "sizeof(parser->attributes) / sizeof(struct aws_xml_attribute)",
                    "att_val_pair": "sizeof(att_val_pair) / sizeof(struct aws_byte_cursor)"}
    item = {"&splits": "sizeof(struct aws_byte_cursor)", "&node->attributes": "sizeof(struct aws_xml_attribute)",
            "&att_val_pair_lst": "sizeof(struct aws_byte_cursor)"}
    exprs = [("MAX_DEPTH", "s_max_document_depth"), ("MAX_NAME_LEN", "MAX_NAME_LEN"), ("NODE_CLOSE_OVERHEAD", "NODE_CLOSE_OVERHEAD"),
             ("NAME_CLOSE_SIZE", m_close.group(1)), ("NAME_OPEN_SIZE", m_open.group(1)),
             ("CLOSE_BUF_CAP", bufs["closing_cmp_buf"][1]), ("OPEN_BUF_CAP", bufs["open_cmp_buf"][1]),
             ("CLOSING_OVERHEAD", m_ovh.group(1)), ("NAME_LIMIT_SIZE", f"sizeof({m_lim.group(1)})"),
             ("SPLIT_SCRATCH_SIZE", backing_size["parser->split_scratch"]), ("ATTRIBUTES_SIZE", backing_size["parser->attributes"]),
             ("ATTR_SPLIT_N", m_eq.group(2)), ("ATTR_LOOP_START", m_loop.group(1))]
    for key, lst in (("SPLIT", "&splits"), ("ATTR", "&node->attributes"), ("PAIR", "&att_val_pair_lst")):
        _, backing, cap, isz = by_list[lst]
        if backing not in backing_size:
            raise GenError(f"xml_parser.c: list {lst} is backed by `{backing}`")
        if norm(isz) != item[lst]:
            raise GenError(f"xml_parser.c: list {lst} has item size `{isz}`")
        exprs += [(key + "_LIST_CAP", cap), (key + "_LIST_BACKING", backing_size[backing])]
    decls = (f"    uint8_t name_close[{m_close.group(1)}]; uint8_t name_open[{m_open.group(1)}]; (void)name_close; (void)name_open;\n"
             f"    struct aws_byte_cursor att_val_pair[{m_pairdecl.group(1)}]; (void)att_val_pair;\n")
    c = probe(repo, cfg_inc, exprs, decls)

    # ---- aws_xml_parse
    m_pre = one(r"if\s*\(\s*(\*\s*\(\s*parser\.doc\.ptr\s*\+\s*1\s*\)\s*==.*?)\)\s*\{", parse, "preamble marker test")
    markers = disjunction_of_eq(m_pre.group(1), r"\* ?\( ?parser\.doc\.ptr \+ 1 ?\)", "preamble marker test")
    m_md = one(r"\.max_depth\s*=\s*([^,]+),", parse, "defaulting of max_depth")
    md_expr = m_md.group(1).replace("options->max_depth", "opt").replace("s_max_document_depth", str(c["MAX_DEPTH"]))
    only_identifiers(md_expr, ["opt"], "defaulting of max_depth")

    # the callback stack: its length is what the depth test reads, and aws_xml_node_traverse ignores the result of the
    # push, so it must be a list that grows (a static list silently stops growing at its capacity and the depth guard
    # never fires for a larger options.max_depth)
    if re.search(r"aws_array_list_init_static\s*\(\s*&parser\.callback_stack", parse):
        raise GenError("xml_parser.c: parser.callback_stack is a static list: its length cannot follow the nesting beyond its "
                       "capacity, the depth test of aws_xml_node_traverse relies on it")
    m_cs = one(r"aws_array_list_init_dynamic\s*\(\s*&parser\.callback_stack\s*,\s*allocator\s*,\s*([^,]+?)\s*,\s*sizeof\s*\(\s*struct\s+cb_stack_data\s*\)\s*\)\s*;",
               parse, "parser.callback_stack is a dynamic list")
    one(r"aws_array_list_clean_up\s*\(\s*&parser\.callback_stack\s*\)\s*;", parse, "clean-up of the callback stack")

    # ---- aws_xml_node_traverse
    one(r"aws_array_list_push_back\s*\(\s*&parser->callback_stack\s*,\s*&stack_data\s*\)\s*;", trav, "push of the callback stack")
    one(r"aws_array_list_pop_back\s*\(\s*&parser->callback_stack\s*\)\s*;\s*return\s+parser->error\s*;", trav, "pop of the callback stack")
    m_dt = one(r"if\s*\(([^{}]*?)\)\s*\{\s*AWS_LOGF_ERROR\s*\([^;]*exceeds max depth", trav, "depth test")
    # the refusal must be recorded in parser->error (the `error:` label is the only place that sets it): a callback that
    # ignores the failing aws_xml_node_traverse must not be able to turn a too deep document into a successful parse
    one(r"exceeds max depth\.\"\s*\)\s*;\s*aws_raise_error\s*\(\s*AWS_ERROR_INVALID_XML\s*\)\s*;\s*goto\s+error\s*;\s*\}", trav,
        "the depth refusal goes through the error label")
    one(r"\berror\s*:\s*parser->error\s*=\s*AWS_OP_ERR\s*;\s*return\s+parser->error\s*;", trav, "the error label records the failure in parser->error")
    one(r"size_t\s+doc_depth\s*=\s*aws_array_list_length\s*\(\s*&parser->callback_stack\s*\)\s*;", trav, "doc_depth")
    dt_expr = m_dt.group(1).replace("parser->max_depth", "max_depth")
    only_identifiers(dt_expr, ["doc_depth", "max_depth"], "depth test")
    m_wh = one(r"while\s*\(([^{}]*?)\)\s*\{\s*const\s+uint8_t\s*\*\s*next_location", trav, "loop guard of aws_xml_node_traverse")
    wh_expr = m_wh.group(1).replace("parser->error", "error")
    only_identifiers(wh_expr, ["error"], "loop guard")
    m_pc = one(r"if\s*\(\s*\*\s*\(\s*next_location\s*\+\s*1\s*\)\s*==\s*(" + CHAR + r")\s*\)\s*\{\s*parent_closed\s*=\s*true", trav, "parent-closed test")
    # the skip of a node the callback did not process, at both call sites
    one(r"if\s*\(\s*!next_node\.processed\s*\)\s*\{\s*if\s*\(\s*s_advance_to_closing_tag\s*\(\s*parser\s*,\s*&next_node\s*,\s*NULL\s*\)\s*\)\s*\{\s*goto\s+error\s*;",
        trav, "skip of an unprocessed child")
    one(r"if\s*\(\s*!sibling_node\.processed\s*\)\s*\{\s*if\s*\(\s*s_advance_to_closing_tag\s*\(\s*parser\s*,\s*&sibling_node\s*,\s*NULL\s*\)\s*\)\s*\{\s*return\s+AWS_OP_ERR\s*;",
        fn_body(txt, "s_node_next_sibling"), "skip of an unprocessed root")
    # order: push happens after the depth test
    if trav.find("exceeds max depth") > trav.find("aws_array_list_push_back(&parser->callback_stack"):
        raise GenError("xml_parser.c: the callback stack is pushed before the depth test")

    stubs = [
        _stub("verif_c12_depth_exceeded", [("doc_depth", "size_t"), ("max_depth", "size_t")], ("int", f"({dt_expr}) ? 1 : 0"), inc),
        _stub("verif_c12_loop_continues", [("error", "int")], ("int", f"({wh_expr}) ? 1 : 0"), inc),
        _stub("verif_c12_effective_max_depth", [("opt", "size_t")], ("size_t", md_expr), inc),
    ]
    # the quote predicate, as written
    qn = cfun.dump_functions(f'#include "{src}"\n', m_trim.group(1), inc + ["-D_POSIX_C_SOURCE=200809L", "-D_XOPEN_SOURCE=500"])
    if m_trim.group(1) not in qn:
        raise GenError(f"xml_parser.c: trim predicate {m_trim.group(1)} not found")
    qt, qinfo = cfun.FnTranslator(_chars_to_ints(qn[m_trim.group(1)]), "quote_pred", lambda cc: None, {}, fuel=4).translate()
    if [tuple(p) for p in qinfo["params"]] != [("value", (8, False))] or qinfo["kind"] != "value":
        raise GenError("xml_parser.c: unexpected signature of the trim predicate")

    bb_text, bb_docs = bytebuf_guards(repo, inc)
    loc_ints, loc_statics, loc_casts = locals_table(repo, inc)

    lim_op = m_lim.group(2)
    body_op = m_body.group(1)
    L = []
    a = L.append
    a("/-! GENERATED by gen/xml_gen.py from /repo's source/xml_parser.c and include/aws/common/private/xml_parser_impl.h")
    a("(compiled sizeof probe + source text + gen/cfun.py) — do not edit. -/")
    a("set_option linter.unusedVariables false")
    a("namespace AwsVerif.Gen.XmlConsts")
    a("")

    def d(name, val, doc, ty="Nat"):
        a(f"/-- {doc} -/")
        a(f"def {name} : {ty} := {val}")
    d("maxDocumentDepth", c["MAX_DEPTH"], "`s_max_document_depth`")
    d("maxNameLen", c["MAX_NAME_LEN"], "`MAX_NAME_LEN`")
    d("nodeCloseOverhead", c["NODE_CLOSE_OVERHEAD"], "`NODE_CLOSE_OVERHEAD`")
    d("nameCloseSize", c["NAME_CLOSE_SIZE"], f"`uint8_t name_close[{norm(m_close.group(1))}]`")
    d("nameOpenSize", c["NAME_OPEN_SIZE"], f"`uint8_t name_open[{norm(m_open.group(1))}]`")
    d("closeBufCap", c["CLOSE_BUF_CAP"], f"capacity of `closing_cmp_buf`: `aws_byte_buf_from_empty_array(name_close, {bufs['closing_cmp_buf'][1]})`")
    d("openBufCap", c["OPEN_BUF_CAP"], f"capacity of `open_cmp_buf`: `aws_byte_buf_from_empty_array(name_open, {bufs['open_cmp_buf'][1]})`")
    d("closingOverhead", c["CLOSING_OVERHEAD"], f"`closing_name_len = node->name.len + {norm(m_ovh.group(1))}`")
    d("nameLimitSize", c["NAME_LIMIT_SIZE"], f"`sizeof({m_lim.group(1)})` of the name length test")
    a(f"/-- `if (sizeof({m_lim.group(1)}) {lim_op} closing_name_len)` -> invalid document -/")
    a(f"def nameTooLong (closingNameLen : Nat) : Bool := decide (nameLimitSize {'<' if lim_op == '<' else '≤'} closingNameLen)")
    a(f"/-- `if (closing_name_len {body_op} node->doc_at_body.len)` -> invalid document -/")
    a(f"def closingTagCannotFit (closingNameLen bodyLen : Nat) : Bool := decide (closingNameLen {'>' if body_op == '>' else '≥'} bodyLen)")
    d("openPrefix", lean_bytes(open_pre), "pieces appended to `open_cmp_buf` before `node->name`: " + " ".join(appends["open_cmp_buf"]), "List UInt8")
    d("openSuffix", lean_bytes(open_post), "… and after it", "List UInt8")
    d("closePrefix", lean_bytes(close_pre), "pieces appended to `closing_cmp_buf` before `node->name`: " + " ".join(appends["closing_cmp_buf"]), "List UInt8")
    d("closeSuffix", lean_bytes(close_post), "… and after it", "List UInt8")
    d("nameEndBytes", lean_bytes(name_end), "`name_end == …` alternatives of s_advance_to_closing_tag", "List UInt8")
    d("splitScratchSize", c["SPLIT_SCRATCH_SIZE"], "`AWS_ARRAY_SIZE(parser->split_scratch)` (struct aws_xml_parser, private header)")
    d("attributesSize", c["ATTRIBUTES_SIZE"], "`AWS_ARRAY_SIZE(parser->attributes)` (struct aws_xml_parser, private header)")
    for key, lst, nm in (("SPLIT", "&splits", "split"), ("ATTR", "&node->attributes", "attr"), ("PAIR", "&att_val_pair_lst", "pair")):
        _, backing, cap, _ = by_list[lst]
        d(nm + "ListCap", c[key + "_LIST_CAP"], f"`aws_array_list_init_static({lst}, {backing}, {cap}, …)`: capacity passed")
        d(nm + "ListBacking", c[key + "_LIST_BACKING"], f"… number of items the backing array `{backing}` holds")
    d("declSplitChar", c_char(m_sp.group(1)), f"`aws_byte_cursor_split_on_char(decl_body, {m_sp.group(1)}, &splits)`", "UInt8")
    d("attrSplitChar", c_char(m_eq.group(1)), f"`aws_byte_cursor_split_on_char_n(&attribute_pair, {m_eq.group(1)}, {norm(m_eq.group(2))}, …)`", "UInt8")
    d("attrSplitN", c["ATTR_SPLIT_N"], "… its `n`")
    d("attrLoopStart", c["ATTR_LOOP_START"], f"`for (size_t i = {norm(m_loop.group(1))}; i < splits.length; ++i)`")
    d("emptyMarker", c_char(m_empty.group(1)), "`node->is_empty = decl_body->ptr[decl_body->len - 1] == …`", "UInt8")
    d("parentCloseMarker", c_char(m_pc.group(1)), "`*(next_location + 1) == …` -> parent closed", "UInt8")
    d("callbackStackDynamic", "true", f"`aws_array_list_init_dynamic(&parser.callback_stack, allocator, {norm(m_cs.group(1))}, …)`: the stack whose "
      "length the depth test reads grows with every push (a push cannot fail short of allocation failure, which aborts)", "Bool")
    d("depthRefusalRecorded", "true", "the depth-test block of aws_xml_node_traverse ends in `aws_raise_error(AWS_ERROR_INVALID_XML); goto error;` and "
      "`error:` is `parser->error = AWS_OP_ERR; return parser->error;`", "Bool")
    d("preambleMarkers", lean_bytes(markers), "`*(parser.doc.ptr + 1) == …` alternatives of the preamble loop", "List UInt8")
    a("")
    a(f"/-- `if ({norm(m_dt.group(1))})` of aws_xml_node_traverse (-> \"XML document exceeds max depth.\"), reads lifted to parameters -/")
    a(stubs[0])
    a(f"/-- `while ({norm(m_wh.group(1))})` of aws_xml_node_traverse, `parser->error` lifted to a parameter -/")
    a(stubs[1])
    a(f"/-- `.max_depth = {norm(m_md.group(1))}` of aws_xml_parse (s_max_document_depth substituted by its value) -/")
    a(stubs[2])
    a(f"/-- `{m_trim.group(1)}`, the predicate of `aws_byte_cursor_trim_pred(&att_val_pair[1], …)` -/")
    a(qt)
    a("")
    a("/-- every integer local of the functions of xml_parser.c: (function, name, declared width in bits) -/")
    a("def intLocals : List (String × String × Nat) := [" + ", ".join(f'("{f}", "{n}", {b})' for f, n, b in loc_ints) + "]")
    a("/-- function-local variables of xml_parser.c with static storage duration (shared between threads) -/")
    a("def staticLocals : List (String × String) := [" + ", ".join(f'("{f}", "{n}")' for f, n in loc_statics) + "]")
    a("/-- explicit casts to an integer type narrower than 64 bits in those functions: (function, target type) -/")
    a("def narrowCasts : List (String × String) := [" + ", ".join(f'("{f}", "{t}")' for f, t in loc_casts) + "]")
    a("")
    a("/-! Guards of the byte-cursor helpers the parser calls (source/byte_buf.c), cut out as stubs -/")
    for doc, text in zip(bb_docs, bb_text):
        a(f"/-- {doc} -/")
        a(text)
    a("end AwsVerif.Gen.XmlConsts")
    return "\n".join(L) + "\n", c
