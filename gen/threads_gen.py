"""Generated layer for C20 (threads): the integer arithmetic of the managed-join timeout, re-derived from /repo's
source on every run through gen/cfun.py.

From `aws_thread_join_all_managed` (source/thread_shared.c), located by shape in the AST:
  ja_has_timeout(timeout_in_ns)            the guard `timeout_in_ns > 0` that arms the deadline
  ja_deadline(now_in_ns, timeout_in_ns)    right-hand side of `timeout_timestamp_ns = now_in_ns + timeout_in_ns`
  ja_timed(timeout_timestamp_ns)           the guard that selects the timed wait inside the loop
  ja_wait_ns(now_in_ns, timeout_timestamp_ns)
                                           the statements in front of aws_condition_variable_wait_for_pred in the timed
                                           branch, returning the duration argument passed to it (as int64_t)
  ja_done(count)                           `done = s_unjoined_thread_count == 0`
  ja_timed_out(now_in_ns, timeout_timestamp_ns)
                                           the deadline test after the wait
from `s_one_or_fewer_managed_threads_unjoined`:
  ja_pred(count)                           the wait predicate
from `aws_condition_variable_wait_for` (source/posix/condition_variable.c):
  cv_abs_deadline(time_to_wait, current_sys_time)
                                           the absolute time handed to aws_timestamp_convert for pthread_cond_timedwait

Besides, `lock_discipline` checks by AST shape that every access to the shared count / timeout / pending list of
thread_shared.c sits inside s_managed_thread_lock in the order the model uses (a swap or push moved behind the unlock
cannot be seen by a scheduler that only switches at pthread calls).

Output: lean/AwsVerif/Gen/ThreadsTime.lean (namespace AwsVerif.Gen.Threads).  The bridge theorems in
lean/AwsVerif/Props/C20.lean state that the model's arithmetic is exactly these functions.
"""
import json, os
from . import cfun
from .cfun import GenError

U64 = "unsigned long"
I64 = "long"


def _strip(n):
    return cfun.FnTranslator._strip(n)


def _iter(n):
    if isinstance(n, dict):
        yield n
        for v in n.values():
            yield from _iter(v)
    elif isinstance(n, list):
        for x in n:
            yield from _iter(x)


def _replace(n, pred, make):
    if isinstance(n, dict):
        if pred(n):
            return make(n)
        return {k: _replace(v, pred, make) for k, v in n.items()}
    if isinstance(n, list):
        return [_replace(x, pred, make) for x in n]
    return n


def _refs(n):
    return {x.get("referencedDecl", {}).get("name") for x in _iter(n) if x.get("kind") == "DeclRefExpr"}


def _callee(n):
    if n.get("kind") != "CallExpr":
        return None
    for x in _iter(n["inner"][0]):
        if x.get("kind") == "DeclRefExpr":
            return x.get("referencedDecl", {}).get("name")
    return None


def _synthetic(name, ret, params, stmts):
    ps = [{"kind": "ParmVarDecl", "name": pn, "type": {"qualType": pt}} for pn, pt in params]
    return {"kind": "FunctionDecl", "name": name, "type": {"qualType": f"{ret} ({', '.join(pt for _, pt in params)})"},
            "inner": ps + [{"kind": "CompoundStmt", "inner": stmts}]}


def _ret(expr):
    return {"kind": "ReturnStmt", "inner": [expr]}


def _body(fn):
    return [c for c in fn["inner"] if c["kind"] == "CompoundStmt"][0]["inner"]


def _count_param(n):
    """s_unjoined_thread_count (a file-scope uint32_t) becomes the parameter `count`"""
    is_g = lambda x: x.get("kind") == "DeclRefExpr" and x.get("referencedDecl", {}).get("name") == "s_unjoined_thread_count"
    ref = lambda x: {"kind": "DeclRefExpr", "type": {"qualType": "unsigned int"},
                     "referencedDecl": {"kind": "ParmVarDecl", "name": "count", "type": {"qualType": "unsigned int"}}}
    return _replace(n, is_g, ref)


def _assign_rhs(stmt, lhs):
    s = _strip(stmt)
    if s.get("kind") == "BinaryOperator" and s.get("opcode") == "=" and _refs(s["inner"][0]) == {lhs}:
        return s["inner"][1]
    return None


def parts(repo, inc):
    tsrc = os.path.join(repo, "source", "thread_shared.c")
    tu = f'#include "{tsrc}"\n'
    nodes = cfun.dump_functions(tu, "aws_thread_join_all_managed", inc)
    if "aws_thread_join_all_managed" not in nodes:
        raise GenError("aws_thread_join_all_managed not found in thread_shared.c")
    body = _body(nodes["aws_thread_join_all_managed"])
    # --- before the loop: if (timeout_in_ns > 0) { get_ticks(&now); timeout_timestamp_ns = now + timeout; }
    arm = [c for c in body if c["kind"] == "IfStmt" and "timeout_in_ns" in _refs(c["inner"][0])]
    if len(arm) != 1:
        raise GenError("aws_thread_join_all_managed: the `if (timeout_in_ns ...)` that arms the deadline was not found")
    arm = arm[0]
    if _refs(arm["inner"][0]) != {"timeout_in_ns"} or len(arm["inner"]) != 2:
        raise GenError("aws_thread_join_all_managed: unexpected shape of the deadline-arming guard")
    then = arm["inner"][1]["inner"] if arm["inner"][1]["kind"] == "CompoundStmt" else [arm["inner"][1]]
    rhs = [r for r in (_assign_rhs(st, "timeout_timestamp_ns") for st in then) if r is not None]
    if len(rhs) != 1 or not _refs(rhs[0]) <= {"now_in_ns", "timeout_in_ns"}:
        raise GenError("aws_thread_join_all_managed: `timeout_timestamp_ns = f(now_in_ns, timeout_in_ns)` not found")
    if [_callee(_strip(st)) for st in then if _strip(st).get("kind") == "CallExpr"] != ["aws_sys_clock_get_ticks"]:
        raise GenError("aws_thread_join_all_managed: the deadline is no longer armed from one aws_sys_clock_get_ticks read")
    # --- the loop
    loops = [c for c in body if c["kind"] == "WhileStmt"]
    if len(loops) != 1:
        raise GenError("aws_thread_join_all_managed: expected exactly one while loop")
    lbody = loops[0]["inner"][1]["inner"]
    sel = [c for c in lbody if c["kind"] == "IfStmt" and any(_callee(x) == "aws_condition_variable_wait_for_pred" for x in _iter(c))]
    if len(sel) != 1 or len(sel[0]["inner"]) != 3:
        raise GenError("aws_thread_join_all_managed: timed / untimed wait selection not found")
    sel = sel[0]
    if _refs(sel["inner"][0]) != {"timeout_timestamp_ns"}:
        raise GenError("aws_thread_join_all_managed: the wait selection no longer tests timeout_timestamp_ns alone")
    if not any(_callee(x) == "aws_condition_variable_wait_pred" for x in _iter(sel["inner"][2])):
        raise GenError("aws_thread_join_all_managed: the else branch is no longer the untimed predicate wait")
    tb = sel["inner"][1]["inner"]
    if _callee(_strip(tb[-1])) != "aws_condition_variable_wait_for_pred":
        raise GenError("aws_thread_join_all_managed: the timed branch does not end with aws_condition_variable_wait_for_pred")
    call = _strip(tb[-1])
    args = call["inner"][1:]
    if len(args) != 5 or "s_one_or_fewer_managed_threads_unjoined" not in _refs(args[3]):
        raise GenError("aws_condition_variable_wait_for_pred call changed (arguments / predicate)")
    pre = tb[:-1]
    for st in pre:
        if any(x.get("kind") == "CallExpr" for x in _iter(st)):
            raise GenError("a call in front of the timed wait (the clock must not be read again there)")
    if not _refs(pre + [args[2]]) <= {"now_in_ns", "timeout_timestamp_ns", "wait_ns"}:
        raise GenError("the wait duration depends on something else than now_in_ns / timeout_timestamp_ns")
    # --- after the wait: done = count == 0; get_ticks(&now); if (deadline test) { done = true; successful = false; }
    done_rhs = [r for r in (_assign_rhs(st, "done") for st in lbody) if r is not None]
    if len(done_rhs) != 1 or _refs(done_rhs[0]) != {"s_unjoined_thread_count"}:
        raise GenError("`done = <test of s_unjoined_thread_count>` not found in the loop")
    dl = [c for c in lbody if c["kind"] == "IfStmt" and c is not sel]
    if len(dl) != 1 or not _refs(dl[0]["inner"][0]) <= {"now_in_ns", "timeout_timestamp_ns"} or len(dl[0]["inner"]) != 2:
        raise GenError("the deadline test after the wait was not found")
    eff = {}
    for st in dl[0]["inner"][1]["inner"]:
        s = _strip(st)
        if s.get("kind") == "BinaryOperator" and s.get("opcode") == "=":
            v = [x for x in _iter(s["inner"][1]) if x.get("kind") in ("CXXBoolLiteralExpr", "IntegerLiteral")]
            eff["/".join(sorted(_refs(s["inner"][0])))] = str(v[0].get("value")) if v else "?"
    if eff not in ({"done": "1", "successful": "0"}, {"done": "true", "successful": "false"}):
        raise GenError(f"the deadline branch no longer sets done = true, successful = false: {eff}")
    order = []
    for c in lbody:
        s = _strip(c)
        if c is sel:
            order.append("wait")
        elif c is dl[0]:
            order.append("deadline")
        elif _callee(s) == "aws_sys_clock_get_ticks":
            order.append("clock")
        elif _assign_rhs(c, "done") is not None:
            order.append("done")
    if order != ["wait", "done", "clock", "deadline"]:
        raise GenError(f"loop order changed: {order}")
    # --- predicate
    pn = cfun.dump_functions(tu, "s_one_or_fewer_managed_threads_unjoined", inc)
    if "s_one_or_fewer_managed_threads_unjoined" not in pn:
        raise GenError("s_one_or_fewer_managed_threads_unjoined not found")
    rets = [c for c in _body(pn["s_one_or_fewer_managed_threads_unjoined"]) if c["kind"] == "ReturnStmt"]
    if len(rets) != 1 or _refs(rets[0]) != {"s_unjoined_thread_count"}:
        raise GenError("s_one_or_fewer_managed_threads_unjoined is no longer `return <test of s_unjoined_thread_count>`")
    # --- condition variable: absolute deadline
    csrc = os.path.join(repo, "source", "posix", "condition_variable.c")
    cn = cfun.dump_functions(f'#include "{csrc}"\n', "aws_condition_variable_wait_for", inc)
    if "aws_condition_variable_wait_for" not in cn:
        raise GenError("aws_condition_variable_wait_for not found in posix/condition_variable.c")
    conv = [x for x in _iter(cn["aws_condition_variable_wait_for"]) if _callee(x) == "aws_timestamp_convert"]
    if len(conv) != 1 or not _refs(conv[0]["inner"][1]) <= {"time_to_wait", "current_sys_time"}:
        raise GenError("aws_condition_variable_wait_for: the argument of aws_timestamp_convert is not f(time_to_wait, current_sys_time)")
    tw = [x for x in _iter(cn["aws_condition_variable_wait_for"]) if _callee(x) == "pthread_cond_timedwait"]
    if len(tw) != 1:
        raise GenError("aws_condition_variable_wait_for: pthread_cond_timedwait call not found")
    return [
        ("ja_has_timeout", "_Bool", [("timeout_in_ns", U64)], [_ret(arm["inner"][0])]),
        ("ja_deadline", U64, [("now_in_ns", U64), ("timeout_in_ns", U64)], [_ret(rhs[0])]),
        ("ja_timed", "_Bool", [("timeout_timestamp_ns", U64)], [_ret(sel["inner"][0])]),
        ("ja_wait_ns", I64, [("now_in_ns", U64), ("timeout_timestamp_ns", U64)], pre + [_ret(args[2])]),
        ("ja_done", "_Bool", [("count", "unsigned int")], [_ret(_count_param(done_rhs[0]))]),
        ("ja_timed_out", "_Bool", [("now_in_ns", U64), ("timeout_timestamp_ns", U64)], [_ret(dl[0]["inner"][0])]),
        ("ja_pred", "_Bool", [("count", "unsigned int")], [_ret(_count_param(rets[0]["inner"][0]))]),
        ("cv_abs_deadline", U64, [("time_to_wait", I64), ("current_sys_time", U64)], [_ret(conv[0]["inner"][1])]),
    ]


GLOBALS = ("s_unjoined_thread_count", "s_default_managed_join_timeout_ns", "s_pending_join_managed_threads")


def _events(n, out):
    """calls (by callee name) and writes to the shared variables of thread_shared.c, in source order"""
    if isinstance(n, list):
        for x in n:
            _events(x, out)
        return
    if not isinstance(n, dict):
        return
    k = n.get("kind")
    if k == "CallExpr":
        for a in n["inner"][1:]:
            _events(a, out)
        out.append(_callee(n))
        return
    if k == "UnaryOperator" and n.get("opcode") in ("++", "--"):
        g = _refs(n) & set(GLOBALS)
        if g:
            out.append(n["opcode"] + sorted(g)[0])
            return
    if k in ("BinaryOperator", "CompoundAssignOperator") and n.get("opcode", "").endswith("=") and n.get("opcode") not in ("==", "!=", "<=", ">="):
        g = _refs(n["inner"][0]) & set(GLOBALS)
        _events(n["inner"][1], out)
        if g:
            out.append("write " + sorted(g)[0])
        return
    if k == "DeclRefExpr" and n.get("referencedDecl", {}).get("name") in GLOBALS[:2]:
        out.append("read " + n["referencedDecl"]["name"])
        return
    _events(n.get("inner", []), out)


def lock_discipline(repo, inc):
    """the lock scopes of thread_shared.c that the model takes as atomic sections (everything between `lock` and `unlock`
    is one critical section there, and what follows an unlock up to the next pthread call cannot be interleaved under
    detsched): every access to the count / timeout / pending list must sit inside the lock, in the modelled order"""
    tsrc = os.path.join(repo, "source", "thread_shared.c")
    tu = f'#include "{tsrc}"\n'
    L, U = "aws_mutex_lock", "aws_mutex_unlock"
    want = {
        "aws_thread_increment_unjoined_count": [L, "++s_unjoined_thread_count", U],
        "aws_thread_decrement_unjoined_count": [L, "--s_unjoined_thread_count", "aws_condition_variable_notify_one", U],
        "aws_thread_get_managed_thread_count": [L, "read s_unjoined_thread_count", U],
        "aws_thread_set_managed_join_timeout_ns": [L, "write s_default_managed_join_timeout_ns", U],
        "aws_thread_pending_join_add": ["aws_linked_list_init", L, "aws_linked_list_swap_contents", "aws_linked_list_push_back", U,
                                        "aws_thread_join_and_free_wrapper_list"],
        "aws_thread_initialize_thread_management": ["aws_linked_list_init"],
    }
    for fn, seq in want.items():
        nodes = cfun.dump_functions(tu, fn, inc)
        if fn not in nodes:
            raise GenError(f"{fn} not found in thread_shared.c")
        ev = []
        _events(_body(nodes[fn]), ev)
        if ev != seq:
            raise GenError(f"{fn}: lock discipline / statement order changed: {ev} (modelled: {seq})")
    nodes = cfun.dump_functions(tu, "aws_thread_join_all_managed", inc)
    body = _body(nodes["aws_thread_join_all_managed"])
    loop = [c for c in body if c["kind"] == "WhileStmt"][0]
    pre = []
    _events(body[:body.index(loop)], pre)
    if pre[:3] != [L, "read s_default_managed_join_timeout_ns", U] or [e for e in pre[3:] if e != "aws_sys_clock_get_ticks"]:
        raise GenError(f"aws_thread_join_all_managed: the timeout is no longer read once under the lock: {pre}")
    ev = []
    _events(loop["inner"][1], ev)
    waits = {"aws_condition_variable_wait_for_pred", "aws_condition_variable_wait_pred"}
    core_ev = [e for e in ev if e not in waits]
    seq = [L, "read s_unjoined_thread_count", "aws_sys_clock_get_ticks", "aws_linked_list_init", "aws_linked_list_swap_contents", U,
           "aws_thread_join_and_free_wrapper_list"]
    if core_ev != seq or ev[1] not in waits:
        raise GenError(f"aws_thread_join_all_managed: loop body lock discipline / order changed: {ev} (modelled: lock, wait, {seq[1:]})")
    after = []
    _events(body[body.index(loop) + 1:], after)
    if after:
        raise GenError(f"aws_thread_join_all_managed: calls / shared accesses after the loop: {after}")


def generate(repo, cfg_inc):
    inc = ["-I" + os.path.join(repo, "include"), "-I" + cfg_inc, "-D_GNU_SOURCE"]
    out = ["/-! GENERATED by gen/threads_gen.py from /repo's source/thread_shared.c and source/posix/condition_variable.c",
           "— do not edit.  C integers as `Nat` (two's complement for the signed ones). -/",
           "set_option linter.unusedVariables false", "namespace AwsVerif.Gen.Threads", ""]
    for name, ret, params, stmts in parts(repo, inc):
        try:
            text, info = cfun.FnTranslator(_synthetic(name, ret, params, stmts), name, lambda c: None, {}, fuel=8).translate()
        except GenError as e:
            raise GenError(f"C20 timeout arithmetic / {name}: {e}")
        out.append(text)
    lock_discipline(repo, inc)
    out.append("/-- lock scopes of thread_shared.c checked by gen/threads_gen.py `lock_discipline` (a change raises a generation error) -/")
    out.append("def lockDisciplineChecked : Bool := true")
    out.append("")
    out.append("end AwsVerif.Gen.Threads")
    return "\n".join(out) + "\n"
