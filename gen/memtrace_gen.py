"""Generated layer for C17: the configuration logic of `s_alloc_tracer_init` in /repo/source/memtrace.c —
the level clamp applied when `aws_backtrace()` is unavailable and the `frames_per_stack` clamp — and the
numeric values of `enum aws_mem_trace_level` (include/aws/common/allocator.h), as Lean definitions.
The statements are small (one assignment of a conditional expression over `level` and the enum constants; one
guarded assignment and one `?:` with literals); anything else is rejected (GenError) rather than guessed."""
import os, re


class GenError(Exception):
    pass


_TOK = re.compile(r"\s*(>=|<=|==|!=|[?:()<>]|[A-Za-z_][A-Za-z_0-9]*|\d+)")


def _tokens(s):
    out, i = [], 0
    s = s.strip()
    while i < len(s):
        m = _TOK.match(s, i)
        if not m:
            raise GenError(f"memtrace.c: cannot tokenise level expression at {s[i:i+20]!r}")
        out.append(m.group(1))
        i = m.end()
    return out


class _P:
    """cond := rel ('?' cond ':' cond)? ; rel := atom (relop atom)? ; atom := level | ENUM | number | '(' cond ')'"""

    def __init__(self, toks, consts):
        self.t, self.i, self.c = toks, 0, consts

    def peek(self):
        return self.t[self.i] if self.i < len(self.t) else None

    def eat(self, x=None):
        t = self.peek()
        if t is None or (x is not None and t != x):
            raise GenError(f"memtrace.c: level expression outside the translated subset near {t!r}")
        self.i += 1
        return t

    def cond(self):
        a, is_bool = self.rel()
        if self.peek() == "?":
            if not is_bool:
                raise GenError("memtrace.c: non-boolean condition in ?:")
            self.eat("?")
            x = self.cond()
            self.eat(":")
            y = self.cond()
            return f"(if {a} then {x} else {y})"
        if is_bool:
            raise GenError("memtrace.c: boolean used as a level value")
        return a

    def rel(self):
        a = self.atom()
        if self.peek() in (">", "<", ">=", "<=", "==", "!="):
            op = self.eat()
            b = self.atom()
            lop = {">=": "≥", "<=": "≤", "==": "=", "!=": "≠"}.get(op, op)
            return f"{a} {lop} {b}", True
        return a, False

    def atom(self):
        t = self.eat()
        if t == "(":
            e = self.cond()
            self.eat(")")
            return e
        if t == "level":
            return "level"
        if t in self.c:
            return t.replace("AWS_", "")
        if t.isdigit():
            return t
        raise GenError(f"memtrace.c: unknown identifier {t!r} in the level clamp")


def generate(repo):
    hdr = open(os.path.join(repo, "include", "aws", "common", "allocator.h")).read()
    m = re.search(r"enum\s+aws_mem_trace_level\s*\{(.*?)\}", hdr, re.S)
    if not m:
        raise GenError("allocator.h: enum aws_mem_trace_level not found")
    body = re.sub(r"/\*.*?\*/", "", m.group(1), flags=re.S)
    consts = {}
    nxt = 0
    for ent in body.split(","):
        ent = ent.strip()
        if not ent:
            continue
        mm = re.fullmatch(r"(AWS_MEMTRACE_[A-Z]+)(?:\s*=\s*(\d+))?", ent)
        if not mm:
            raise GenError(f"allocator.h: enumerator {ent!r} not understood")
        v = int(mm.group(2)) if mm.group(2) is not None else nxt
        consts[mm.group(1)] = v
        nxt = v + 1
    for k in ("AWS_MEMTRACE_NONE", "AWS_MEMTRACE_BYTES", "AWS_MEMTRACE_STACKS"):
        if k not in consts:
            raise GenError(f"allocator.h: {k} missing")
    src = open(os.path.join(repo, "source", "memtrace.c")).read()
    m = re.search(r"static void s_alloc_tracer_init\(.*?\n\}\n", src, re.S)
    if not m:
        raise GenError("memtrace.c: s_alloc_tracer_init not found")
    fn = re.sub(r"/\*.*?\*/", "", m.group(0), flags=re.S)
    # --- level clamp when aws_backtrace() is unavailable
    m = re.search(r"if\s*\(\s*!\s*aws_backtrace\s*\(\s*stack\s*,\s*1\s*\)\s*\)\s*\{(.*?)\}", fn, re.S)
    if not m:
        raise GenError("memtrace.c: the `if (!aws_backtrace(stack, 1))` block of s_alloc_tracer_init was not found")
    stmts = [x.strip() for x in m.group(1).split(";") if x.strip()]
    if len(stmts) != 1 or not re.match(r"level\s*=[^=]", stmts[0]):
        raise GenError("memtrace.c: the no-backtrace block is not a single assignment to `level`: " + "; ".join(stmts)[:200])
    p = _P(_tokens(stmts[0].split("=", 1)[1]), consts)
    clamp = p.cond()
    if p.peek() is not None:
        raise GenError("memtrace.c: trailing tokens in the level clamp")
    if "tracer->level = level;" not in fn.replace("  ", " "):
        raise GenError("memtrace.c: `tracer->level = level;` not found")
    # --- frames_per_stack clamp
    m = re.search(r"if\s*\(\s*frames_per_stack\s*>\s*(\d+)\s*\)\s*\{\s*frames_per_stack\s*=\s*(\d+)\s*;\s*\}\s*"
                  r"tracer->frames_per_stack\s*=\s*frames_per_stack\s*\?\s*frames_per_stack\s*:\s*(\d+)\s*;", fn)
    if not m:
        raise GenError("memtrace.c: the frames_per_stack clamp of s_alloc_tracer_init has an unexpected shape")
    lim, to, dflt = m.groups()
    lean = f"""/-! GENERATED by gen/memtrace_gen.py from /repo/source/memtrace.c (`s_alloc_tracer_init`) and
include/aws/common/allocator.h (`enum aws_mem_trace_level`).  Do not edit. -/
namespace AwsVerif.Gen.MemTraceInit

def MEMTRACE_NONE : Nat := {consts['AWS_MEMTRACE_NONE']}
def MEMTRACE_BYTES : Nat := {consts['AWS_MEMTRACE_BYTES']}
def MEMTRACE_STACKS : Nat := {consts['AWS_MEMTRACE_STACKS']}

/-- `level` after the block guarded by `if (!aws_backtrace(stack, 1))`:  `{stmts[0]}` -/
def clampNoBacktrace (level : Nat) : Nat := {clamp}

/-- `if (frames_per_stack > {lim}) frames_per_stack = {to}; tracer->frames_per_stack = frames_per_stack ? frames_per_stack : {dflt};` -/
def framesClamp (frames : Nat) : Nat :=
  let f := if frames > {lim} then {to} else frames
  if f ≠ 0 then f else {dflt}

end AwsVerif.Gen.MemTraceInit
"""
    return lean
