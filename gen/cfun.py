"""Translator: small pure C integer functions (clang-14 JSON AST) -> shallow Lean 4 definitions.

Values of every C integer type are represented as `Nat` (two's complement for signed types), and each
operation that can wrap in C is emitted with its explicit `% 2^w`.  ISO-C undefined behaviour (signed
overflow / shifting into the sign bit) is given the two's-complement meaning (stated in DESIGN.md 6).

Supported subset (anything else raises GenError — a broken correspondence, see DESIGN 4.5):
  integer/bool locals and parameters, literals, + - * / % & | ^ ~ << >> unary -, comparisons, && || !,
  casts between integer types, ?:, if/else, return, while (with break), = and compound assignment to locals,
  ++/--, one-level out-parameter stores (*r = e), pointer-against-NULL tests on parameters, sizeof,
  calls to other translated functions, __builtin_{add,mul}_overflow, __builtin_c[lt]z*, aws_raise_error(K),
  AWS_FATAL_ASSERT (-> `none`).
"""
import json, os, re, subprocess, tempfile

CLANG = "clang-14"

INT_TYPES = {
    "unsigned long": (64, False), "unsigned long long": (64, False), "unsigned int": (32, False),
    "unsigned short": (16, False), "unsigned char": (8, False), "long": (64, True), "long long": (64, True),
    "int": (32, True), "short": (16, True), "signed char": (8, True), "char": (8, True), "_Bool": (1, False),
    "bool": (1, False), "unsigned": (32, False),
}


class GenError(Exception):
    pass


TYPEDEFS = {"uint64_t": (64, False), "uint32_t": (32, False), "uint16_t": (16, False), "uint8_t": (8, False),
            "int64_t": (64, True), "int32_t": (32, True), "int16_t": (16, True), "int8_t": (8, True),
            "size_t": (64, False)}


def _scalar(q):
    q = q.replace("const ", "").replace("volatile ", "").replace("restrict", "").strip()
    if q.startswith("enum "):
        return (32, False)
    if q in INT_TYPES:
        return INT_TYPES[q]
    if q in TYPEDEFS:
        return TYPEDEFS[q]
    return None


def ctype_of(node_or_type):
    t = node_or_type.get("type", node_or_type) if isinstance(node_or_type, dict) else node_or_type
    for key in ("desugaredQualType", "qualType"):
        q = t.get(key)
        if not q:
            continue
        q = q.strip()
        if q.endswith("*"):
            base = _scalar(q[:-1])
            if base is not None:
                return ("ptr", base)
            continue
        sc = _scalar(q)
        if sc is not None:
            return sc
    q = t.get("qualType", "")
    if q.strip().endswith("*"):
        return ("ptr", None)
    raise GenError(f"unsupported C type {t.get('qualType')!r}")


def P2(w):
    return str(1 << w)


# ------------------------------------------------------------------------------------------------ AST access
def parse_concatenated_json(txt):
    dec = json.JSONDecoder()
    i, objs = 0, []
    while True:
        i = txt.find("{", i)
        if i < 0:
            break
        try:
            o, j = dec.raw_decode(txt, i)
        except json.JSONDecodeError:
            i += 1
            continue
        objs.append(o)
        i = j
    return objs


def dump_functions(tu_text, prefix, includes):
    """returns {name: FunctionDecl-with-body}"""
    with tempfile.TemporaryDirectory() as d:
        p = os.path.join(d, "tu.c")
        open(p, "w").write(tu_text)
        cmd = [CLANG, "-std=gnu99", "-fsyntax-only", "-w"] + includes + ["-Xclang", "-ast-dump=json", "-Xclang",
                                                                         "-ast-dump-filter=" + prefix, p]
        r = subprocess.run(cmd, stdout=subprocess.PIPE, stderr=subprocess.PIPE, text=True)
        if r.returncode != 0:
            raise GenError("clang rejected the translation unit: " + r.stderr[-1500:])
    out = {}
    for o in parse_concatenated_json(r.stdout):
        if o.get("kind") == "FunctionDecl" and o.get("name", "").startswith(prefix):
            if any(c.get("kind") == "CompoundStmt" for c in o.get("inner", [])):
                out[o["name"]] = o
    return out


def inl_functions(path):
    """[(ret, name, params)] for every AWS_STATIC_IMPL function defined in an .inl file"""
    txt = open(path).read()
    txt = re.sub(r"/\*.*?\*/", "", txt, flags=re.S)
    res = []
    for m in re.finditer(r"AWS_STATIC_IMPL\s+([A-Za-z_][\w\s\*]*?)\s*\b(\w+)\s*\(([^)]*)\)\s*\{", txt):
        res.append((" ".join(m.group(1).split()), m.group(2), " ".join(m.group(3).split())))
    return res


# ------------------------------------------------------------------------------------------------ translation
class Env:
    def __init__(self):
        self.vars = {}      # C name -> (lean name, ctype)
        self.order = []     # C names in declaration order
        self.outs = {}      # pointer param name -> lean expr of the stored value (or None)
        self.n = 0

    def copy(self):
        e = Env()
        e.vars = dict(self.vars); e.order = list(self.order); e.outs = dict(self.outs); e.n = self.n
        return e


class FnTranslator:
    def __init__(self, node, lean_name, resolve_call, enum_values, fuel=200, strict_unwritten=False):
        # strict_unwritten: an out-parameter never stored through / a local read before assignment is modelled by
        # CSem.unwritten / CSem.indeterminate (non-zero sentinels) instead of 0 (opt-in: C16)
        self.strict_unwritten = strict_unwritten
        self.node = node
        self.lean_name = lean_name
        self.resolve_call = resolve_call    # C callee name -> (lean function name, info dict) | None
        self.enum_values = enum_values
        self.fuel = fuel
        self.aux = []            # auxiliary loop definitions
        self.fresh = 0
        self.params = []
        self.ptr_params = []
        for c in node.get("inner", []):
            if c["kind"] == "ParmVarDecl":
                ct = ctype_of(c)
                self.params.append((c["name"], ct))
                if ct[0] == "ptr":
                    self.ptr_params.append(c["name"])
        rt = node["type"]["qualType"].split("(")[0].strip()
        self.ret = ctype_of({"qualType": rt})
        self.body = [c for c in node["inner"] if c["kind"] == "CompoundStmt"][0]
        txt = json.dumps(self.body)
        self.may_abort = "aws_fatal_assert" in txt
        self.raises = "aws_raise_error" in txt
        # kind
        if self.ret == (32, True) and self.ptr_params and (self.raises or self._calls_status()):
            self.kind = "status"
        else:
            self.kind = "value"
        self.null_tested = [p for p in self.ptr_params if self.kind == "value"]
        self.may_abort = self.may_abort or self._calls_aborting()

    def _calls_status(self):
        found = []

        def walk(n):
            if n.get("kind") == "CallExpr":
                cal = self._callee(n)
                r = self.resolve_call(cal)
                if r and r[1].get("kind") == "status":
                    found.append(cal)
            for c in n.get("inner", []):
                walk(c)
        walk(self.body)
        return bool(found)

    def _calls_aborting(self):
        found = []

        def walk(n):
            if n.get("kind") == "CallExpr":
                try:
                    r = self.resolve_call(self._callee(n))
                except GenError:
                    r = None
                if r and r[1].get("abort"):
                    found.append(1)
            for c in n.get("inner", []):
                walk(c)
        walk(self.body)
        return bool(found)

    # ---- helpers
    def new(self, base):
        self.fresh += 1
        return f"{base}_{self.fresh}"

    @staticmethod
    def _strip(n):
        while n["kind"] in ("ParenExpr", "ConstantExpr") or (
                n["kind"] == "ImplicitCastExpr" and n.get("castKind") in ("LValueToRValue", "NoOp", "FunctionToPointerDecay", "BuiltinFnToFnPtr")):
            n = n["inner"][0]
        return n

    def _callee(self, call):
        f = self._strip(call["inner"][0])
        if f["kind"] == "DeclRefExpr":
            return f["referencedDecl"]["name"]
        raise GenError("indirect call")

    def result_type(self):
        if self.kind == "status":
            t = "CSem.Res"
        elif self.ret == (1, False):
            t = "Bool"
        else:
            t = "Nat"
        if self.kind == "value" and self.null_tested:
            t = "(" + " × ".join([t] + ["Nat"] * len(self.null_tested)) + ")"
        if self.may_abort:
            t = f"Option {t}"
        return t

    # ---- expressions
    def conv(self, e, frm, to):
        """convert Nat representation between integer types"""
        if frm == to or to[0] == "ptr" or frm[0] == "ptr":
            return e
        fw, fs = frm
        tw, ts = to
        if e.isdigit():
            v = int(e)
            if to == (1, False):
                return "1" if v != 0 else "0"
            if fs and v >= (1 << (fw - 1)):
                v -= (1 << fw)
            return str(v % (1 << tw))
        if tw == 1 and to == (1, False):
            return f"(if {e} ≠ 0 then 1 else 0)"
        if tw > fw:
            if fs:
                return f"(if {e} < {P2(fw - 1)} then {e} else {e} + {(1 << tw) - (1 << fw)})"
            return e
        if tw < fw:
            return f"({e} % {P2(tw)})"
        return e

    def expr(self, n, env):
        k = n["kind"]
        if k in ("ParenExpr", "ConstantExpr"):
            return self.expr(n["inner"][0], env)
        if k == "IntegerLiteral":
            t = ctype_of(n)
            v = int(n["value"])
            if v < 0:
                v += 1 << t[0]
            return str(v), t
        if k == "DeclRefExpr":
            rd = n["referencedDecl"]
            if rd["kind"] == "EnumConstantDecl":
                if rd["name"] not in self.enum_values:
                    raise GenError("unknown enum constant " + rd["name"])
                return str(self.enum_values[rd["name"]]), (32, True)
            nm = rd["name"]
            if nm not in env.vars:
                raise GenError(f"reference to unknown variable {nm}")
            return env.vars[nm][0], env.vars[nm][1]
        if k in ("ImplicitCastExpr", "CStyleCastExpr"):
            ck = n.get("castKind")
            inner = n["inner"][0]
            if ck in ("LValueToRValue", "NoOp"):
                return self.expr(inner, env)
            if ck == "IntegralCast":
                e, t = self.expr(inner, env)
                to = ctype_of(n)
                return self.conv(e, t, to), to
            if ck == "IntegralToBoolean":
                return f"(if {self.cond(inner, env)} then 1 else 0)", (1, False)
            if ck in ("BitCast", "NullToPointer"):
                return self.expr(inner, env)
            raise GenError(f"unsupported cast kind {ck}")
        if k == "UnaryExprOrTypeTraitExpr":
            if n.get("name") != "sizeof":
                raise GenError("unsupported trait " + str(n.get("name")))
            if "argType" in n:
                t = ctype_of({"qualType": n["argType"]["qualType"], "desugaredQualType": n["argType"].get("desugaredQualType", n["argType"]["qualType"])})
            else:
                t = ctype_of(self._strip(n["inner"][0]))
            return str(t[0] // 8 if t[0] != 1 else 1), (64, False)
        if k == "UnaryOperator":
            op = n["opcode"]
            inner = n["inner"][0]
            if op == "!":
                return f"(if {self.cond(inner, env)} then 0 else 1)", (32, True)
            if op == "~":
                e, t = self.expr(inner, env)
                t2 = ctype_of(n)
                e = self.conv(e, t, t2)
                return f"({(1 << t2[0]) - 1} - {e})", t2
            if op == "-":
                e, t = self.expr(inner, env)
                t2 = ctype_of(n)
                e = self.conv(e, t, t2)
                return f"(({P2(t2[0])} - {e}) % {P2(t2[0])})", t2
            if op == "+":
                return self.expr(inner, env)
            raise GenError(f"unary operator {op} in value position")
        if k == "BinaryOperator":
            op = n["opcode"]
            if op in ("&&", "||", "<", ">", "<=", ">=", "==", "!="):
                return f"(if {self.cond(n, env)} then 1 else 0)", (32, True)
            if op == ",":
                raise GenError("comma operator")
            a, ta = self.expr(n["inner"][0], env)
            b, tb = self.expr(n["inner"][1], env)
            t = ctype_of(n)
            w = t[0]
            if op in ("+", "-", "*", "/", "%", "&", "|", "^"):
                if ta != t or (tb != t):
                    a = self.conv(a, ta, t); b = self.conv(b, tb, t)
            if a.isdigit() and b.isdigit() and (not t[1] or (int(a) < (1 << (w - 1)) and int(b) < (1 << (w - 1)))):
                x, y = int(a), int(b)
                m = 1 << w
                r = {"+": lambda: (x + y) % m, "-": lambda: (x - y) % m, "*": lambda: (x * y) % m,
                     "/": lambda: x // y if y else None, "%": lambda: x % y if y else None, "&": lambda: x & y,
                     "|": lambda: x | y, "^": lambda: x ^ y, "<<": lambda: (x << y) % m if y < w else None,
                     ">>": lambda: x >> y}.get(op, lambda: None)()
                if r is not None and (not t[1] or r < (1 << (w - 1))):
                    return str(r), t
            if op == "+":
                return f"(({a} + {b}) % {P2(w)})", t
            if op == "-":
                return f"(({a} + {P2(w)} - {b}) % {P2(w)})", t
            if op == "*":
                return f"(({a} * {b}) % {P2(w)})", t
            if op in ("/", "%"):
                if t[1]:
                    raise GenError("signed division")
                return f"({a} {op} {b})", t
            if op == "&":
                return f"({a} &&& {b})", t
            if op == "|":
                return f"({a} ||| {b})", t
            if op == "^":
                return f"({a} ^^^ {b})", t
            if op == "<<":
                return f"(({a} <<< {b}) % {P2(w)})", t
            if op == ">>":
                if t[1]:
                    raise GenError("signed right shift")
                return f"({a} >>> {b})", t
            raise GenError(f"binary operator {op}")
        if k == "ConditionalOperator":
            c = self.cond(n["inner"][0], env)
            a, ta = self.expr(n["inner"][1], env)
            b, tb = self.expr(n["inner"][2], env)
            t = ctype_of(n)
            return f"(if {c} then {self.conv(a, ta, t)} else {self.conv(b, tb, t)})", t
        if k == "CallExpr":
            cal = self._callee(n)
            args = n["inner"][1:]
            if cal in ("__builtin_clz", "__builtin_clzl", "__builtin_clzll", "__builtin_ctz", "__builtin_ctzl", "__builtin_ctzll"):
                w = 32 if cal in ("__builtin_clz", "__builtin_ctz") else 64
                e, t = self.expr(args[0], env)
                e = self.conv(e, t, (w, False))
                fn = "CSem.clz" if "clz" in cal else "CSem.ctz"
                return f"({fn} {w} {e})", (32, True)
            r = self.resolve_call(cal)
            if r and r[1].get("kind") == "value" and not r[1].get("outs") and not r[1].get("abort"):
                es = []
                for a, (pn, pt) in zip(args, r[1]["params"]):
                    e, t = self.expr(a, env)
                    es.append(self.conv(e, t, pt))
                e = f"({r[0]} {' '.join(es)})"
                rt = r[1]["ret"]
                if rt == (1, False):
                    e = f"(if {e} then 1 else 0)"
                return e, rt
            raise GenError(f"call to {cal} in value position is outside the supported subset")
        raise GenError(f"unsupported expression kind {k}")

    def cond(self, n, env):
        n0 = n
        k = n["kind"]
        if k in ("ParenExpr", "ConstantExpr"):
            return self.cond(n["inner"][0], env)
        if k == "ImplicitCastExpr" and n.get("castKind") in ("IntegralToBoolean", "LValueToRValue", "NoOp", "IntegralCast") \
                and self._strip(n)["kind"] in ("BinaryOperator", "UnaryOperator", "ParenExpr") and n.get("castKind") != "LValueToRValue":
            inner = n["inner"][0]
            st = self._strip(inner)
            if st["kind"] == "BinaryOperator" and st["opcode"] in ("&&", "||", "<", ">", "<=", ">=", "==", "!="):
                return self.cond(inner, env)
            if st["kind"] == "UnaryOperator" and st["opcode"] == "!":
                return self.cond(inner, env)
        if k == "UnaryOperator" and n["opcode"] == "!":
            return f"(¬ {self.cond(n['inner'][0], env)})"
        if k == "BinaryOperator":
            op = n["opcode"]
            if op == "&&":
                return f"({self.cond(n['inner'][0], env)} ∧ {self.cond(n['inner'][1], env)})"
            if op == "||":
                return f"({self.cond(n['inner'][0], env)} ∨ {self.cond(n['inner'][1], env)})"
            if op in ("<", ">", "<=", ">=", "==", "!="):
                l, r = n["inner"]
                # pointer parameter against NULL
                ls, rs = self._strip(l), self._strip(r)
                for x, y in ((ls, rs), (rs, ls)):
                    if x["kind"] == "DeclRefExpr" and x["referencedDecl"]["name"] in self.ptr_params and op in ("==", "!="):
                        pn = x["referencedDecl"]["name"]
                        if pn not in self.null_tested:
                            raise GenError("NULL test on an out-parameter of a status function")
                        return f"({pn}_present = {'true' if op == '!=' else 'false'})"
                a, ta = self.expr(l, env)
                b, tb = self.expr(r, env)
                if ta != tb:
                    # usual arithmetic conversions were applied by clang through casts; equal widths expected
                    if ta[0] != tb[0]:
                        raise GenError("comparison between different widths")
                lop = {"<": "<", ">": ">", "<=": "≤", ">=": "≥", "==": "=", "!=": "≠"}[op]
                if ta[1] and op in ("<", ">", "<=", ">="):
                    w = ta[0]
                    bias = P2(w - 1)
                    return f"((({a} + {bias}) % {P2(w)}) {lop} (({b} + {bias}) % {P2(w)}))"
                return f"({a} {lop} {b})"
        e, t = self.expr(n0, env)
        return f"({e} ≠ 0)"

    # ---- statements (continuation-passing: `rest` = statements still to run after this one)
    def leaf_return(self, val_expr, env):
        """value-kind return"""
        # an out-parameter that was passed but never stored through on this path keeps what the caller had there:
        # `CSem.unwritten w` (the sentinel the C harness initialises it with) — never silently 0
        ptw = {pn: pt[1][0] for pn, pt in self.params if pt[0] == "ptr" and pt[1]}
        dflt = (lambda p: f"(if {p}_present = true then CSem.unwritten {ptw.get(p, 64)} else 0)") if self.strict_unwritten \
            else (lambda p: "0")
        parts = [val_expr] + [(env.outs.get(p) or dflt(p)) for p in self.null_tested]
        e = parts[0] if len(parts) == 1 else "(" + ", ".join(parts) + ")"
        return f"some {e}" if self.may_abort else e

    def do_return(self, n, env):
        inner = n.get("inner", [])
        if not inner:
            raise GenError("void return")
        e = self._strip(inner[0])
        if self.kind == "status":
            if e["kind"] == "CallExpr":
                cal = self._callee(e)
                if cal == "aws_raise_error":
                    code, _ = self.expr(e["inner"][1], env)
                    return f"CSem.Res.err {code}"
                r = self.resolve_call(cal)
                if r and r[1].get("kind") == "status":
                    args = e["inner"][1:]
                    es = []
                    for a, (pn, pt) in zip(args, r[1]["params"]):
                        if pt[0] == "ptr":
                            sa = self._strip(a)
                            while sa["kind"] in ("CStyleCastExpr", "ImplicitCastExpr"):
                                sa = self._strip(sa["inner"][0])
                            if not (sa["kind"] == "DeclRefExpr" and sa["referencedDecl"]["name"] in self.ptr_params):
                                raise GenError("status call with a pointer that is not our out-parameter")
                            continue
                        x, t = self.expr(a, env)
                        es.append(self.conv(x, t, pt))
                    return f"{r[0]} {' '.join(es)}"
                raise GenError(f"return of call to {cal}")
            v, _ = self.expr(inner[0], env)
            if v == "0":
                out = env.outs.get(self.ptr_params[0])
                if out is None:
                    raise GenError("success return without a stored result")
                return f"CSem.Res.ok {out}"
            raise GenError("status function returns something other than 0 / aws_raise_error(k)")
        # value kind: tail call of a value function that takes our pointer parameters through
        if e["kind"] == "CallExpr":
            r = self.resolve_call(self._callee(e))
            if r and r[1].get("kind") == "value" and (r[1].get("outs") or r[1].get("abort")):
                if r[1].get("abort") != self.may_abort or len(r[1].get("outs", [])) != len(self.null_tested):
                    raise GenError("tail call with a different result shape")
                es = []
                for a, (pn, pt) in zip(e["inner"][1:], r[1]["params"]):
                    if pt[0] == "ptr":
                        sa = self._strip(a)
                        while sa["kind"] in ("CStyleCastExpr", "ImplicitCastExpr"):
                            sa = self._strip(sa["inner"][0])
                        if not (sa["kind"] == "DeclRefExpr" and sa["referencedDecl"]["name"] in self.ptr_params):
                            raise GenError("tail call with a pointer that is not our parameter")
                        if env.outs.get(sa["referencedDecl"]["name"]) is not None:
                            raise GenError("tail call after a store through the pointer")
                        es.append(sa["referencedDecl"]["name"] + "_present")
                        continue
                    x, t = self.expr(a, env)
                    es.append(self.conv(x, t, pt))
                return f"{r[0]} {' '.join(es)}"
        if self.ret == (1, False):
            return self.leaf_return(f"decide {self.cond(inner[0], env)}", env)
        v, t = self.expr(inner[0], env)
        return self.leaf_return(self.conv(v, t, self.ret), env)

    def assign(self, name, value_expr, env, ind):
        if name not in env.vars:
            raise GenError(f"assignment to unknown variable {name}")
        ln = self.new(name)
        env.vars[name] = (ln, env.vars[name][1])
        return f"{ind}let {ln} := {value_expr}\n"

    def lvalue_name(self, n):
        s = self._strip(n)
        if s["kind"] == "DeclRefExpr" and s["referencedDecl"]["kind"] in ("VarDecl", "ParmVarDecl"):
            return ("var", s["referencedDecl"]["name"])
        if s["kind"] == "UnaryOperator" and s["opcode"] == "*":
            t = self._strip(s["inner"][0])
            if t["kind"] == "DeclRefExpr" and t["referencedDecl"]["name"] in self.ptr_params:
                return ("out", t["referencedDecl"]["name"])
        raise GenError("unsupported assignment target")

    def stmts(self, lst, env, ind, on_end, loop_exit=None):
        """translate statement list; `on_end(env)` gives the term when control falls off the end"""
        if not lst:
            return ind + on_end(env) + "\n"
        n, rest = lst[0], lst[1:]
        k = n["kind"]
        if k == "CompoundStmt":
            return self.stmts(n.get("inner", []) + rest, env, ind, on_end, loop_exit)
        if k == "NullStmt":
            return self.stmts(rest, env, ind, on_end, loop_exit)
        if k == "DeclStmt":
            out = ""
            for d in n["inner"]:
                if d["kind"] != "VarDecl":
                    raise GenError("unsupported declaration")
                ct = ctype_of(d)
                if ct[0] == "ptr":
                    raise GenError("pointer local")
                nm = d["name"]
                env.vars[nm] = (None, ct)
                env.order.append(nm)
                if d.get("inner"):
                    e, t = self.expr(d["inner"][0], env_without(env, nm))
                    ln = self.new(nm)
                    env.vars[nm] = (ln, ct)
                    out += f"{ind}let {ln} := {self.conv(e, t, ct)}\n"
                else:
                    ln = self.new(nm)
                    env.vars[nm] = (ln, ct)
                    w = ct[0] if ct[0] != "ptr" else 64
                    if self.strict_unwritten:
                        out += f"{ind}let {ln} := CSem.indeterminate {w}  -- uninitialised in C: never silently 0\n"
                    else:
                        out += f"{ind}let {ln} := 0  -- uninitialised in C\n"
            return out + self.stmts(rest, env, ind, on_end, loop_exit)
        if k == "ReturnStmt":
            return ind + self.do_return(n, env) + "\n"
        if k == "BreakStmt":
            if loop_exit is None:
                raise GenError("break outside loop")
            return ind + loop_exit(env) + "\n"
        if k == "IfStmt":
            parts = n["inner"]
            c = self.cond(parts[0], env)
            # AWS_FATAL_ASSERT(cond) expands to if (!(cond)) aws_fatal_assert(...)
            then_s = parts[1]
            if self.may_abort and "aws_fatal_assert" in json.dumps(then_s):
                return f"{ind}if {c} then none else\n" + self.stmts(rest, env, ind, on_end, loop_exit)
            e1 = env.copy()
            t_txt = self.stmts([then_s] + rest, e1, ind + "  ", on_end, loop_exit)
            e2 = env.copy()
            e_txt = self.stmts(([parts[2]] if len(parts) > 2 else []) + rest, e2, ind + "  ", on_end, loop_exit)
            self.fresh = max(self.fresh, 0)
            return f"{ind}if {c} then\n{t_txt}{ind}else\n{e_txt}"
        if k == "WhileStmt":
            return self.loop(n, rest, env, ind, on_end, loop_exit)
        if k == "DoStmt":
            # only the macro idiom `do { … } while (0)`
            c = self._strip(n["inner"][1])
            if c["kind"] == "IntegerLiteral" and int(c["value"]) == 0 and "BreakStmt" not in json.dumps(n["inner"][0]) \
                    and "ContinueStmt" not in json.dumps(n["inner"][0]):
                return self.stmts([n["inner"][0]] + rest, env, ind, on_end, loop_exit)
            raise GenError("do-while loop outside the supported subset")
        if k in ("BinaryOperator", "CompoundAssignOperator", "UnaryOperator", "CallExpr", "ParenExpr", "CStyleCastExpr"):
            out = self.effect(n, env, ind)
            return out + self.stmts(rest, env, ind, on_end, loop_exit)
        raise GenError(f"unsupported statement kind {k}")

    def effect(self, n, env, ind):
        n = self._strip(n)
        k = n["kind"]
        if k == "CStyleCastExpr":   # (void)x;
            return ""
        if k == "BinaryOperator" and n["opcode"] == "=":
            kind, nm = self.lvalue_name(n["inner"][0])
            e, t = self.expr(n["inner"][1], env)
            if kind == "var":
                return self.assign(nm, self.conv(e, t, env.vars[nm][1]), env, ind)
            ln = self.new(nm + "_out")
            pt = dict(self.params)[nm][1]
            env.outs[nm] = ln
            return f"{ind}let {ln} := {self.conv(e, t, pt) if pt else e}\n"
        if k == "CompoundAssignOperator":
            kind, nm = self.lvalue_name(n["inner"][0])
            if kind != "var":
                raise GenError("compound assignment through pointer")
            op = n["opcode"][:-1]
            fake = {"kind": "BinaryOperator", "opcode": op, "type": n.get("computeResultType", n["type"]), "inner": n["inner"]}
            e, t = self.expr(fake, env)
            return self.assign(nm, self.conv(e, t, env.vars[nm][1]), env, ind)
        if k == "UnaryOperator" and n["opcode"] in ("++", "--"):
            kind, nm = self.lvalue_name(n["inner"][0])
            if kind != "var":
                raise GenError("++/-- through pointer")
            cur, t = env.vars[nm]
            w = t[0]
            e = f"(({cur} + 1) % {P2(w)})" if n["opcode"] == "++" else f"(({cur} + {P2(w)} - 1) % {P2(w)})"
            return self.assign(nm, e, env, ind)
        if k == "CallExpr":
            cal = self._callee(n)
            raise GenError(f"call statement {cal} outside the supported subset")
        raise GenError(f"unsupported expression statement {k}")

    def cond_with_builtin(self, c, env, ind):
        """if (__builtin_X_overflow(a, b, p)) …  — returns (prefix lets, condition)"""
        s = self._strip(c)
        if s["kind"] == "CallExpr" and self._callee(s) in ("__builtin_mul_overflow", "__builtin_add_overflow", "__builtin_sub_overflow"):
            cal = self._callee(s)
            a, ta = self.expr(s["inner"][1], env)
            b, tb = self.expr(s["inner"][2], env)
            p = self._strip(s["inner"][3])
            # destination: &local or out-parameter
            if p["kind"] == "UnaryOperator" and p["opcode"] == "&":
                tgt = ("var", self._strip(p["inner"][0])["referencedDecl"]["name"])
                dt = env.vars[tgt[1]][1]
            elif p["kind"] == "DeclRefExpr" and p["referencedDecl"]["name"] in self.ptr_params:
                tgt = ("out", p["referencedDecl"]["name"])
                dt = dict(self.params)[tgt[1]][1]
            else:
                raise GenError("unsupported overflow-builtin destination")
            if ta[1] or tb[1] or dt[1]:
                raise GenError("signed overflow builtin")
            w = dt[0]
            exact = {"__builtin_mul_overflow": f"{a} * {b}", "__builtin_add_overflow": f"{a} + {b}"}.get(cal)
            if exact is None:
                raise GenError("sub overflow builtin")
            ex = self.new("exact")
            pre = f"{ind}let {ex} := {exact}\n"
            if tgt[0] == "var":
                pre += self.assign(tgt[1], f"({ex} % {P2(w)})", env, ind)
            else:
                ln = self.new(tgt[1] + "_out")
                env.outs[tgt[1]] = ln
                pre += f"{ind}let {ln} := ({ex} % {P2(w)})\n"
            return pre, f"({ex} ≥ {P2(w)})"
        return "", None

    def loop(self, n, rest, env, ind, on_end, outer_exit):
        cond_n, body = n["inner"][0], n["inner"][1]
        names = [v for v in env.order if env.vars[v][0] is not None] if False else list(env.vars.keys())
        names = [v for v in names if env.vars[v][0] is not None and env.vars[v][1][0] != "ptr"]
        lname = f"{self.lean_name}_loop{len(self.aux) + 1}"
        # loop function over all scalar variables in scope
        lenv = Env()
        lenv.n = env.n
        for v in names:
            lenv.vars[v] = (v + "_l", env.vars[v][1])
        lenv.order = list(names)
        lenv.outs = dict(env.outs)
        tup = lambda e: (e.vars[names[0]][0] if len(names) == 1 else "(" + ", ".join(e.vars[v][0] for v in names) + ")")
        c = self.cond(cond_n, lenv)
        benv = lenv.copy()
        body_txt = self.stmts([body], benv, "      ",
                              on_end=lambda e: f"{lname} fuel {' '.join(e.vars[v][0] for v in names)}",
                              loop_exit=lambda e: tup(e))
        rtype = "Nat" if len(names) == 1 else "(" + " × ".join(["Nat"] * len(names)) + ")"
        aux = (f"def {lname} (fuel : Nat) {' '.join('(' + v + '_l : Nat)' for v in names)} : {rtype} :=\n"
               f"  match fuel with\n  | 0 => {tup(lenv)}\n  | fuel + 1 =>\n    if {c} then\n{body_txt}    else\n      {tup(lenv)}\n")
        self.aux.append(aux)
        call = f"{lname} {self.fuel} {' '.join(env.vars[v][0] for v in names)}"
        out = ""
        if len(names) == 1:
            out += self.assign(names[0], call, env, ind)
        else:
            r = self.new("loop_r")
            out += f"{ind}let {r} := {call}\n"
            acc = r
            for i, v in enumerate(names):
                proj = f"{acc}.1" if i < len(names) - 1 else acc
                out += self.assign(v, proj, env, ind)
                acc = f"{acc}.2"
        return out + self.stmts(rest, env, ind, on_end, outer_exit)

    def translate(self):
        env = Env()
        sig = []
        for pn, pt in self.params:
            if pt[0] == "ptr":
                if self.kind == "value":
                    sig.append(f"({pn}_present : Bool)")
                    env.outs[pn] = None
                continue
            env.vars[pn] = (pn, pt)
            env.order.append(pn)
            sig.append(f"({pn} : Nat)")

        def on_end(e):
            raise GenError("control reaches end of non-void function")
        # IfStmt conditions with overflow builtins need pre-statements: handle by rewriting in stmts via hook
        orig_stmts = self.stmts

        def stmts_hook(lst, env_, ind, on_end, loop_exit=None):
            if lst and lst[0]["kind"] == "IfStmt":
                pre, c = self.cond_with_builtin(lst[0]["inner"][0], env_, ind)
                if c is not None:
                    parts = lst[0]["inner"]
                    e1 = env_.copy()
                    t_txt = stmts_hook([parts[1]] + lst[1:], e1, ind + "  ", on_end, loop_exit)
                    e2 = env_.copy()
                    e_txt = stmts_hook(([parts[2]] if len(parts) > 2 else []) + lst[1:], e2, ind + "  ", on_end, loop_exit)
                    return pre + f"{ind}if {c} then\n{t_txt}{ind}else\n{e_txt}"
            return orig_stmts(lst, env_, ind, on_end, loop_exit)
        self.stmts = stmts_hook
        body = self.stmts([self.body], env, "  ", on_end)
        hdr = f"def {self.lean_name} {' '.join(sig)} : {self.result_type()} :=\n"
        info = {"kind": self.kind, "params": self.params, "ret": self.ret, "outs": list(self.null_tested),
                "abort": self.may_abort}
        return "".join(a + "\n" for a in self.aux) + hdr + body, info


def env_without(env, nm):
    e = env.copy()
    e.vars = {k: v for k, v in env.vars.items() if k != nm}
    return e


def enum_probe(names, includes, header="#include <aws/common/common.h>\n#include <aws/common/error.h>\n"):
    if not names:
        return {}
    src = header + "#include <stdio.h>\nint main(void){\n" + "".join(f'printf("{n} %lld\\n",(long long)({n}));\n' for n in names) + "return 0;}\n"
    with tempfile.TemporaryDirectory() as d:
        p = os.path.join(d, "probe.c")
        open(p, "w").write(src)
        exe = os.path.join(d, "probe")
        r = subprocess.run(["gcc", "-w"] + includes + [p, "-o", exe], stdout=subprocess.PIPE, stderr=subprocess.STDOUT, text=True)
        if r.returncode != 0:
            raise GenError("enum probe does not compile: " + r.stdout[-800:])
        out = subprocess.run([exe], stdout=subprocess.PIPE, text=True).stdout
    return {l.split()[0]: int(l.split()[1]) for l in out.splitlines() if l.strip()}


def collect_enum_names(node, acc):
    if node.get("kind") == "DeclRefExpr" and node.get("referencedDecl", {}).get("kind") == "EnumConstantDecl":
        acc.add(node["referencedDecl"]["name"])
    for c in node.get("inner", []):
        collect_enum_names(c, acc)
