"""Generated layer for C13 (uri.c): re-derived from /repo's *current* source on every run into
lean/AwsVerif/Gen/UriFns.lean (namespace AwsVerif.Gen.UriFns), through gen/cfun.py where the code is an integer
expression, by cutting text where it is a constant or the name of a callee:

  * verif_uri_path_safe / verif_uri_param_safe   the "copy unchanged" test of s_unchecked_append_canonicalized_path_character
                                                 and s_raw_append_canonicalized_param_character (aws_isalnum + the case labels
                                                 of the copy group) as a predicate over one byte; the rest of each function
                                                 (copy group, '%' + two nibbles escape) must have the known shape
  * s_to_uppercase_hex                           translated as is
  * verif_uri_scheme_delim                       the condition in the loop body of s_parse_scheme
  * verif_uri_port_too_big                       the `> UINT32_MAX` refusal of s_parse_authority
  * PORT_BUFFER_SIZE, verif_uri_size_estimate, verif_uri_param_estimate
                                                 the buffer_size computation of aws_uri_init_from_builder_options (the loop over
                                                 the parameter list is replaced by its per-element increment and a sum)
  * encodeReserveFactor / encodeReserveCallee / decodeReserveCallee / decodeReserveArg
                                                 s_encode_cursor_to_buffer and aws_byte_buf_append_decoding_uri
  * encodePathAppender / encodeParamAppender     which per-character function each public encoder passes

`AwsVerif/Props/C13.lean` proves Model.f = Gen.f for each (bridge theorems) and that the generated estimate covers ':' + 10
digits.  Anything outside the recognised shape raises GenError."""
import os, re
from . import cfun, bytebuf_fns, log_gen
from .cfun import GenError
from .bytebuf_fns import function_body, if_condition, _strip_comments

ISALNUM = "AwsVerif.Gen.ByteBufFns.aws_isalnum"


def _norm(t):
    return "".join(t.split())


def _switch_parts(body, fname):
    """(case labels of the copy group, normalised text of the rest of the function around them)"""
    m = re.search(r"switch\s*\(\s*value\s*\)\s*\{", body)
    if not m:
        raise GenError(f"{fname}: `switch (value)` not found")
    pre = body[:m.start()]
    sw = body[m.end():]
    labels = []
    pos = 0
    while True:
        mm = re.match(r"\s*case\s+('(?:\\.|[^'\\])'|\d+|0x[0-9a-fA-F]+)\s*:", sw[pos:])
        if not mm:
            break
        labels.append(mm.group(1))
        pos += mm.end()
    if not labels:
        raise GenError(f"{fname}: no case labels at the head of the switch")
    rest = _norm(sw[pos:])
    copy = "++buffer->len;*dest_ptr=value;return;"
    esc = ("default:buffer->len+=3;*dest_ptr++='%';*dest_ptr++=s_to_uppercase_hex(value>>4);"
           "*dest_ptr=s_to_uppercase_hex(value&0x0F);return;}}")
    if rest not in (copy + esc, "{" + copy + "}" + esc):
        raise GenError(f"{fname}: the copy group / '%XX' escape group after the case labels no longer has the known shape: {rest[:200]}")
    want_pre = "{uint8_t*dest_ptr=buffer->buffer+buffer->len;if(aws_isalnum(value)){++buffer->len;*dest_ptr=value;return;}"
    if _norm(re.sub(r"AWS_ASSERT\s*\([^;]*\)\s*;", "", pre)) != want_pre:
        raise GenError(f"{fname}: the part before the switch (aws_isalnum copy) no longer has the known shape: {_norm(pre)[:200]}")
    return labels


def _safe_stub(name, labels):
    return (f"static bool {name}(uint8_t value) {{ if (aws_isalnum(value)) {{ return true; }} switch (value) {{ "
            + " ".join(f"case {l}:" for l in labels) + " return true; default: return false; } }\n")


def _between(body, start_pat, end_pat, fname, what):
    a = re.search(start_pat, body)
    if not a:
        raise GenError(f"{fname}: {what}: start not found")
    b = re.search(end_pat, body[a.end():])
    if not b:
        raise GenError(f"{fname}: {what}: end not found")
    return body[a.end():a.end() + b.start()]


def _estimate_stub(body):
    fname = "aws_uri_init_from_builder_options"
    seg = _between(body, r"size_t\s+buffer_size\s*=\s*0\s*;", r"if\s*\(\s*aws_byte_buf_init\s*\(", fname, "size estimate")
    # the loop over the parameter list: per-element increment cut out, the loop replaced by a sum
    lm = re.search(r"for\s*\(\s*size_t\s+i\s*=\s*0\s*;\s*i\s*<\s*query_len\s*;\s*\+\+i\s*\)\s*\{", seg)
    if not lm:
        raise GenError(f"{fname}: loop over query_params not found in the size estimate")
    depth, j = 1, lm.end()
    while j < len(seg) and depth:
        depth += {"{": 1, "}": -1}.get(seg[j], 0)
        j += 1
    loop_body = seg[lm.end():j - 1]
    inc = re.search(r"buffer_size\s*\+=\s*([^;]*);", loop_body)
    if not inc:
        raise GenError(f"{fname}: per-parameter increment not found")
    want = ("structaws_uri_param*uri_param_ptr=NULL;intresult=aws_array_list_get_at_ptr(options->query_params,(void**)&uri_param_ptr,i);"
            "AWS_FATAL_ASSERT(result==AWS_OP_SUCCESS);")
    if _norm(loop_body[:inc.start()]) != want or _norm(loop_body[inc.end():]) != "":
        raise GenError(f"{fname}: the parameter loop of the size estimate no longer has the known shape")
    per = " ".join(inc.group(1).split())
    per_c = per.replace("uri_param_ptr->key.len", "key_len").replace("uri_param_ptr->value.len", "value_len")
    if re.search(r"[A-Za-z_]\w*\s*(->|\.)", per_c):
        raise GenError(f"{fname}: per-parameter increment `{per}` mentions something besides key.len / value.len")
    seg2 = seg[:lm.start()] + "buffer_size += params_sum;" + seg[j:]
    subs = [(r"options->scheme\.len", "scheme_len"), (r"options->host_name\.len", "host_name_len"), (r"options->port\b", "port"),
            (r"options->path\.len", "path_len"), (r"options->query_string\.len", "query_string_len"),
            (r"aws_array_list_length\s*\(\s*options->query_params\s*\)", "n_params"), (r"options->query_params", "query_params")]
    for a, b in subs:
        seg2 = re.sub(a, b, seg2)
    if "options" in seg2 or "->" in seg2:
        raise GenError(f"{fname}: the size estimate mentions an option field the generator does not know: {_norm(seg2)[:300]}")
    stub = ("static size_t verif_uri_size_estimate(size_t scheme_len, size_t host_name_len, uint32_t port, size_t path_len, "
            "bool query_params, size_t n_params, size_t params_sum, size_t query_string_len) {\n    size_t buffer_size = 0;\n"
            + seg2 + "\n    return buffer_size;\n}\n"
            "static size_t verif_uri_param_estimate(size_t key_len, size_t value_len) { return (" + per_c + "); }\n")
    return stub, " ".join(seg.split()), per


def _lean_str(s):
    return '"' + s.replace("\\", "\\\\").replace('"', '\\"') + '"'


def generate(repo, cfg_inc):
    inc = ["-I" + os.path.join(repo, "include"), "-I" + cfg_inc]
    path = os.path.join(repo, "source", "uri.c")
    try:
        src = _strip_comments(open(path).read())
    except OSError as e:
        raise GenError(f"cannot read uri.c: {e}")

    def fb(name):
        try:
            return function_body(src, name)
        except GenError:
            raise GenError(f"definition of {name} not found in uri.c")

    # 1. safe-character tests
    path_labels = _switch_parts(fb("s_unchecked_append_canonicalized_path_character"), "s_unchecked_append_canonicalized_path_character")
    param_labels = _switch_parts(fb("s_raw_append_canonicalized_param_character"), "s_raw_append_canonicalized_param_character")
    stubs = _safe_stub("verif_uri_path_safe", path_labels) + _safe_stub("verif_uri_param_safe", param_labels)
    # 3. scheme delimiter test (loop body of s_parse_scheme)
    sb = fb("s_parse_scheme")
    if not re.search(r"for\s*\(\s*size_t\s+i\s*=\s*0\s*;\s*i\s*<\s*scheme_len\s*;\s*\+\+i\s*\)\s*\{\s*const\s+uint8_t\s+c\s*=\s*str->ptr\[i\]\s*;", sb):
        raise GenError("s_parse_scheme: the loop over the bytes before the colon no longer has the known shape")
    delim = if_condition(sb, "c ==", "s_parse_scheme")
    if set(re.findall(r"\b[A-Za-z_]\w*\b", re.sub(r"'(?:\\.|[^'\\])'", "", delim))) - {"c"}:
        raise GenError(f"s_parse_scheme: delimiter test `{delim}` mentions more than the byte c")
    stubs += f"static bool verif_uri_scheme_delim(uint8_t c) {{ return ({delim}); }}\n"
    # 4. port bound
    ab = fb("s_parse_authority")
    bound = if_condition(ab, "UINT32_MAX", "s_parse_authority")
    if set(re.findall(r"\b[A-Za-z_]\w*\b", bound)) - {"port_u64", "UINT32_MAX"}:
        raise GenError(f"s_parse_authority: port bound `{bound}` mentions more than port_u64 and UINT32_MAX")
    if not re.search(r"parser->uri->port\s*=\s*\(uint32_t\)\s*port_u64\s*;", ab):
        raise GenError("s_parse_authority: `parser->uri->port = (uint32_t)port_u64` not found")
    stubs += f"static bool verif_uri_port_too_big(uint64_t port_u64) {{ return ({bound}); }}\n"
    # 5./6. builder size estimate
    bb = fb("aws_uri_init_from_builder_options")
    est_stub, est_text, per_text = _estimate_stub(bb)
    stubs += est_stub
    if not re.search(r"char\s+port_arr\s*\[\s*PORT_BUFFER_SIZE\s*\]", bb) or not re.search(r"snprintf\s*\(\s*port_arr\s*,\s*sizeof\s*\(\s*port_arr\s*\)\s*,\s*\"%\"\s*PRIu32\s*,\s*options->port\s*\)", bb):
        raise GenError("aws_uri_init_from_builder_options: `char port_arr[PORT_BUFFER_SIZE]` / snprintf(\"%\" PRIu32) not found")
    consts = log_gen.constants(path, ["PORT_BUFFER_SIZE"], inc)
    # 7. reservation of the encoders / decoder
    eb = fb("s_encode_cursor_to_buffer")
    m = re.search(r"aws_mul_size_checked\s*\(\s*(\d+)\s*,\s*cursor->len\s*,\s*&capacity_needed\s*\)", eb)
    if not m:
        raise GenError("s_encode_cursor_to_buffer: `aws_mul_size_checked(<k>, cursor->len, &capacity_needed)` not found")
    factor = int(m.group(1))
    m = re.search(r"if\s*\(\s*(aws_byte_buf_reserve\w*)\s*\(\s*buffer\s*,\s*capacity_needed\s*\)\s*\)", eb)
    if not m:
        raise GenError("s_encode_cursor_to_buffer: `if (aws_byte_buf_reserve…(buffer, capacity_needed))` not found")
    enc_callee = m.group(1)
    if "while(current_ptr<end_ptr){append_canonicalized_character(buffer,*current_ptr);++current_ptr;}" not in _norm(eb):
        raise GenError("s_encode_cursor_to_buffer: the per-character loop no longer has the known shape")
    db = fb("aws_byte_buf_append_decoding_uri")
    m = re.search(r"if\s*\(\s*(aws_byte_buf_reserve\w*)\s*\(\s*buffer\s*,\s*([^)]*?)\s*\)\s*\)", db)
    if not m:
        raise GenError("aws_byte_buf_append_decoding_uri: reservation call not found")
    dec_callee, dec_arg = m.group(1), " ".join(m.group(2).split())
    app = {}
    for pub in ("aws_byte_buf_append_encoding_uri_path", "aws_byte_buf_append_encoding_uri_param"):
        m = re.search(r"return\s+s_encode_cursor_to_buffer\s*\(\s*buffer\s*,\s*cursor\s*,\s*(\w+)\s*\)\s*;", fb(pub))
        if not m:
            raise GenError(f"{pub}: `return s_encode_cursor_to_buffer(buffer, cursor, <fn>)` not found")
        app[pub] = m.group(1)

    # 8. accessors, query wrappers, clean_up, list form: which field / cursor they use; fixed shape for the last two
    acc = []
    for fn in ("aws_uri_scheme", "aws_uri_authority", "aws_uri_path", "aws_uri_query_string", "aws_uri_path_and_query", "aws_uri_host_name"):
        m = re.fullmatch(r"\{return&uri->(\w+);\}", _norm(fb(fn)))
        if not m:
            raise GenError(f"{fn}: body is no longer `return &uri-><field>;`")
        acc.append((fn, m.group(1)))
    m = re.fullmatch(r"\{returnuri->(\w+);\}", _norm(fb("aws_uri_port")))
    if not m:
        raise GenError("aws_uri_port: body is no longer `return uri-><field>;`")
    acc.append(("aws_uri_port", m.group(1)))
    m = re.fullmatch(r"\{returnaws_query_string_next_param\(uri->(\w+),param\);\}", _norm(fb("aws_uri_query_string_next_param")))
    if not m:
        raise GenError("aws_uri_query_string_next_param: no longer `return aws_query_string_next_param(uri-><field>, param);`")
    acc.append(("aws_uri_query_string_next_param", m.group(1)))
    m = re.fullmatch(r"\{returnaws_query_string_params\(uri->(\w+),out_params\);\}", _norm(fb("aws_uri_query_string_params")))
    if not m:
        raise GenError("aws_uri_query_string_params: no longer `return aws_query_string_params(uri-><field>, out_params);`")
    acc.append(("aws_uri_query_string_params", m.group(1)))
    if _norm(fb("aws_uri_clean_up")) != "{if(uri->uri_str.allocator){aws_byte_buf_clean_up(&uri->uri_str);}AWS_ZERO_STRUCT(*uri);}":
        raise GenError("aws_uri_clean_up: no longer `if (uri_str.allocator) clean_up(uri_str); AWS_ZERO_STRUCT(*uri);`")
    if _norm(fb("aws_query_string_params")) != ("{structaws_uri_paramparam;AWS_ZERO_STRUCT(param);while(aws_query_string_next_param(query_string_cursor,&param))"
                                                "{if(aws_array_list_push_back(out_params,&param)){returnAWS_OP_ERR;}}returnAWS_OP_SUCCESS;}"):
        raise GenError("aws_query_string_params: no longer the plain loop `while (next_param(cursor, &param)) push_back(out, &param)`")

    # 9. the byte_buf.c helpers the parser and the decoder stand on (guards as integer expressions, the rest by shape)
    bpath = os.path.join(repo, "source", "byte_buf.c")
    try:
        bsrc = _strip_comments(open(bpath).read())
    except OSError as e:
        raise GenError(f"cannot read byte_buf.c: {e}")

    def unlikely(c):
        m = re.fullmatch(r"AWS_(?:UN)?LIKELY\((.*)\)", c)
        return m.group(1) if m else c
    hb = function_body(bsrc, "aws_byte_cursor_read_hex_u8")
    hex_len = unlikely(if_condition(hb, "cur->len", "aws_byte_cursor_read_hex_u8")).replace("cur->len", "cur_len")
    hex_ok = unlikely(if_condition(hb, "hi !=", "aws_byte_cursor_read_hex_u8"))
    m = re.search(r"\*var\s*=\s*([^;]+);", hb)
    nh = _norm(hb)
    if not m or "consthi=s_hex_to_num_table[cur->ptr[0]];" not in nh.replace("uint8_t", "") or \
            "constlo=s_hex_to_num_table[cur->ptr[1]];" not in nh.replace("uint8_t", "") or "cur->ptr+=2;cur->len-=2;success=true;" not in nh:
        raise GenError("aws_byte_cursor_read_hex_u8: table look-ups / `*var = …` / advance by 2 no longer have the known shape")
    hex_val = " ".join(m.group(1).split())
    for e, ids in ((hex_len, {"cur_len"}), (hex_ok, {"hi", "lo"}), (hex_val, {"hi", "lo"})):
        if set(re.findall(r"\b[A-Za-z_]\w*\b", e)) - ids:
            raise GenError(f"aws_byte_cursor_read_hex_u8: expression `{e}` mentions more than {sorted(ids)}")
    rb = function_body(bsrc, "s_read_unsigned")
    digit = if_condition(rb, "cval", "s_read_unsigned")
    if set(re.findall(r"\b[A-Za-z_]\w*\b", digit)) - {"cval", "base"}:
        raise GenError(f"s_read_unsigned: digit test `{digit}` mentions more than cval and base")
    nr = _norm(rb)
    if ("if(cursor.len==0){returnaws_raise_error(AWS_ERROR_INVALID_ARGUMENT);}" not in nr or
            "if(aws_mul_u64_checked(val,base,&val)){returnaws_raise_error(AWS_ERROR_OVERFLOW_DETECTED);}"
            "if(aws_add_u64_checked(val,cval,&val)){returnaws_raise_error(AWS_ERROR_OVERFLOW_DETECTED);}" not in nr or
            "constuint8_tcval=hex_to_num_table[c];" not in nr):
        raise GenError("s_read_unsigned: empty-input refusal / table look-up / checked multiply-add no longer have the known shape")
    vb = function_body(bsrc, "aws_byte_buf_reserve")
    res_noop = if_condition(vb, "requested_capacity <", "aws_byte_buf_reserve").replace("buffer->capacity", "buffer_capacity")
    if set(re.findall(r"\b[A-Za-z_]\w*\b", res_noop)) - {"requested_capacity", "buffer_capacity"} or "buffer->capacity=requested_capacity;" not in _norm(vb):
        raise GenError("aws_byte_buf_reserve: no-op test / `buffer->capacity = requested_capacity` no longer have the known shape")
    ncp = _norm(function_body(bsrc, "aws_byte_buf_init_copy_from_cursor"))
    if "dest->len=src.len;dest->capacity=src.len;dest->allocator=allocator;if(src.len>0){memcpy(dest->buffer,src.ptr,src.len);}" not in ncp:
        raise GenError("aws_byte_buf_init_copy_from_cursor: len/capacity = src.len and memcpy(…, src.len) no longer have the known shape")
    stubs += (f"static bool verif_bb_hex_enough(size_t cur_len) {{ return ({hex_len}); }}\n"
              f"static bool verif_bb_hex_valid(uint8_t hi, uint8_t lo) {{ return ({hex_ok}); }}\n"
              f"static uint8_t verif_bb_hex_value(uint8_t hi, uint8_t lo) {{ return ({hex_val}); }}\n"
              f"static bool verif_bb_not_digit(uint8_t cval, uint8_t base) {{ return ({digit}); }}\n"
              f"static bool verif_bb_reserve_noop(size_t requested_capacity, size_t buffer_capacity) {{ return ({res_noop}); }}\n")

    # 10. both constructors tag the object and remember the allocator before anything can fail
    ip = _norm(fb("aws_uri_init_parse"))
    if ip != ("{AWS_ZERO_STRUCT(*uri);uri->self_size=sizeof(structaws_uri);uri->allocator=allocator;"
              "if(aws_byte_buf_init_copy_from_cursor(&uri->uri_str,allocator,*uri_str)){returnAWS_OP_ERR;}returns_init_from_uri_str(uri);}"):
        raise GenError("aws_uri_init_parse: no longer `zero; self_size; allocator; copy the text; parse it`")
    nbb = _norm(bb)
    if not nbb.startswith("{AWS_ZERO_STRUCT(*uri);if(options->query_string.len&&options->query_params){returnaws_raise_error(AWS_ERROR_INVALID_ARGUMENT);}"
                          "uri->self_size=sizeof(structaws_uri);uri->allocator=allocator;size_tbuffer_size=0;") or \
            not nbb.endswith("returns_init_from_uri_str(uri);}") or "if(aws_byte_buf_init(&uri->uri_str,allocator,buffer_size)){returnAWS_OP_ERR;}uri->uri_str.len=0;" not in nbb:
        raise GenError("aws_uri_init_from_builder_options: prologue (zero, both-queries refusal, self_size, allocator) / buffer init / final re-parse changed shape")
    ns = _norm(fb("s_init_from_uri_str"))
    if ns != ("{structuri_parserparser={.state=ON_SCHEME,.uri=uri,};structaws_byte_cursoruri_cur=aws_byte_cursor_from_buf(&uri->uri_str);"
              "while(parser.state<FINISHED){s_states[parser.state](&parser,&uri_cur);}if(parser.state==FINISHED){returnAWS_OP_SUCCESS;}"
              "aws_byte_buf_clean_up(&uri->uri_str);AWS_ZERO_STRUCT(*uri);returnAWS_OP_ERR;}"):
        raise GenError("s_init_from_uri_str: the state loop / error path (free the text, zero the object) changed shape")

    tu = f'#include "{path}"\n' + stubs
    info_alnum = {"kind": "value", "params": [("ch", (8, False))], "ret": (1, False), "outs": [], "abort": False}
    info_hex = {"kind": "value", "params": [("value", (8, False))], "ret": (8, False), "outs": [], "abort": False}

    def resolve(c):
        if c == "aws_isalnum":
            return (ISALNUM, info_alnum)
        if c == "s_to_uppercase_hex":
            return ("s_to_uppercase_hex", info_hex)
        return None

    def tr(node, lean_name):
        t = cfun.FnTranslator(bytebuf_fns.prepare(node), lean_name, resolve, {}, fuel=8)
        return t.translate()

    out = ["import AwsVerif.Gen.ByteBufFns",
           "/-! GENERATED by gen/uri_gen.py (through gen/cfun.py) from /repo/source/uri.c on every check — do not edit.",
           "C integers are `Nat` (two's complement), every wrapping operation carries its `% 2^w`. -/",
           "set_option linter.unusedVariables false", "namespace AwsVerif.Gen.UriFns", ""]
    hx = cfun.dump_functions(tu, "s_to_uppercase_hex", inc)
    if "s_to_uppercase_hex" not in hx:
        raise GenError("s_to_uppercase_hex not found in uri.c")
    text, info = tr(hx["s_to_uppercase_hex"], "s_to_uppercase_hex")
    if [tuple(p) for p in info["params"]] != [("value", (8, False))] or info["ret"] != (8, False):
        raise GenError("s_to_uppercase_hex changed its signature")
    out += ["/-- `static uint8_t s_to_uppercase_hex(uint8_t value)` -/", text]
    st = cfun.dump_functions(tu, "verif_uri_", inc)
    docs = {
        "verif_uri_path_safe": "bytes `s_unchecked_append_canonicalized_path_character` copies unchanged: aws_isalnum or one of " + " ".join(path_labels),
        "verif_uri_param_safe": "bytes `s_raw_append_canonicalized_param_character` copies unchanged: aws_isalnum or one of " + " ".join(param_labels),
        "verif_uri_scheme_delim": f"`s_parse_scheme`, loop body: `{delim}`",
        "verif_uri_port_too_big": f"`s_parse_authority`: `{bound}`",
        "verif_uri_size_estimate": "`aws_uri_init_from_builder_options`, buffer_size (loop over the list = params_sum): " + est_text.replace("-/", "- /"),
        "verif_uri_param_estimate": f"per-parameter increment of the loop: `{per_text}`",
    }
    for name in ["verif_uri_path_safe", "verif_uri_param_safe", "verif_uri_scheme_delim", "verif_uri_port_too_big",
                 "verif_uri_param_estimate", "verif_uri_size_estimate"]:
        if name not in st:
            raise GenError(f"stub {name} was not parsed")
        text, info = tr(st[name], name)
        out += [f"/-- {docs[name]} -/", text]
    bst = cfun.dump_functions(tu, "verif_bb_", inc)
    bdocs = {"verif_bb_hex_enough": f"`aws_byte_cursor_read_hex_u8`: `{hex_len}`", "verif_bb_hex_valid": f"`aws_byte_cursor_read_hex_u8`: `{hex_ok}`",
             "verif_bb_hex_value": f"`aws_byte_cursor_read_hex_u8`: `*var = {hex_val}`", "verif_bb_not_digit": f"`s_read_unsigned`: `{digit}`",
             "verif_bb_reserve_noop": f"`aws_byte_buf_reserve`: `{res_noop}`"}
    for name in bdocs:
        if name not in bst:
            raise GenError(f"stub {name} was not parsed")
        text, info = tr(bst[name], name)
        out += [f"/-- {bdocs[name]} -/", text]
    out += ["/-- `#define PORT_BUFFER_SIZE` (also the size of `port_arr` given to snprintf) -/",
            f"def PORT_BUFFER_SIZE : Nat := {consts['PORT_BUFFER_SIZE']}", "",
            "/-- `aws_mul_size_checked(<k>, cursor->len, &capacity_needed)` in `s_encode_cursor_to_buffer` -/",
            f"def encodeReserveFactor : Nat := {factor}", "",
            "/-- the function `s_encode_cursor_to_buffer` reserves `capacity_needed` with -/",
            f"def encodeReserveCallee : String := {_lean_str(enc_callee)}", "",
            "/-- the reservation of `aws_byte_buf_append_decoding_uri`: callee and argument -/",
            f"def decodeReserveCallee : String := {_lean_str(dec_callee)}",
            f"def decodeReserveArg : String := {_lean_str(dec_arg)}", "",
            "/-- per-character function passed by `aws_byte_buf_append_encoding_uri_path` / `_param` -/",
            f"def encodePathAppender : String := {_lean_str(app['aws_byte_buf_append_encoding_uri_path'])}",
            f"def encodeParamAppender : String := {_lean_str(app['aws_byte_buf_append_encoding_uri_param'])}", "",
            "/-- the field each accessor returns / the cursor each query wrapper iterates (`aws_uri_clean_up` and",
            "`aws_query_string_params` are checked by the generator to have their known shape) -/",
            "def accessors : List (String × String) := [" + ", ".join(f"({_lean_str(a)}, {_lean_str(b)})" for a, b in acc) + "]", "",
            "end AwsVerif.Gen.UriFns", ""]
    meta = {"path_labels": path_labels, "param_labels": param_labels, "delim": delim, "bound": bound,
            "PORT_BUFFER_SIZE": consts["PORT_BUFFER_SIZE"], "factor": factor, "enc_callee": enc_callee}
    return "\n".join(out), meta


if __name__ == "__main__":
    import sys
    sys.path.insert(0, os.path.dirname(os.path.dirname(os.path.abspath(__file__))))
    from lib import cbuild
    print(generate(cbuild.REPO, cbuild.config_include())[0])
