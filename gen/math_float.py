"""Generated layer for C16, part 3: the floating-point min/max of math.inl.

Outside the integer subset of gen/cfun.py; own tiny translator.  A `float`/`double` value is its IEEE-754 bit pattern
(`Nat` below 2^32 / 2^64); the only floating-point operation understood is an ordered comparison of two parameters,
whose meaning on bit patterns is `CSem.fcmp` (trusted, like the builtins).  Accepted grammar (GenError otherwise):

    T f(T a, T b) { return X <op> Y ? U : V; }      T in {float, double}; X, Y, U, V parameters; <op> in < > <= >=

Every varying part (operator, which parameter where) is read from the AST and reproduced in the emitted Lean.
"""
from . import cfun
from .cfun import GenError

FORMATS = {"float": (8, 23), "double": (11, 52)}
OPS = {"<": "lt", ">": "gt", "<=": "le", ">=": "ge"}


def _param_ref(n, names):
    """n must be exactly an lvalue-to-rvalue read of a parameter (no conversion of any kind)"""
    if n.get("kind") == "ImplicitCastExpr" and n.get("castKind") == "LValueToRValue":
        n = n["inner"][0]
        while n.get("kind") == "ParenExpr":
            n = n["inner"][0]
        if n.get("kind") == "DeclRefExpr" and n["referencedDecl"]["name"] in names:
            return n["referencedDecl"]["name"]
    if n.get("kind") == "ParenExpr":
        return _param_ref(n["inner"][0], names)
    return None


def translate(node, name):
    def bad(msg):
        raise GenError(f"{name}: outside the floating-point min/max subset: {msg}")
    params = [c for c in node.get("inner", []) if c["kind"] == "ParmVarDecl"]
    sig = node["type"]["qualType"].replace(" ", "")
    ty = sig.split("(")[0]
    if ty not in FORMATS or sig != f"{ty}({ty},{ty})" or len(params) != 2:
        bad(f"signature {node['type']['qualType']!r}")
    e, m = FORMATS[ty]
    names = [p["name"] for p in params]
    body = [c for c in node.get("inner", []) if c["kind"] == "CompoundStmt"]
    st = body[0].get("inner", []) if body else []
    if len(st) != 1 or st[0].get("kind") != "ReturnStmt" or not st[0].get("inner"):
        bad("body is not a single return")
    c = st[0]["inner"][0]
    while c.get("kind") == "ParenExpr":
        c = c["inner"][0]
    if c.get("kind") != "ConditionalOperator" or c["type"]["qualType"] != ty:
        bad("returned expression is not `x op y ? u : v` of the function's type")
    cond, t, f = c["inner"]
    while cond.get("kind") == "ParenExpr":
        cond = cond["inner"][0]
    if cond.get("kind") != "BinaryOperator" or cond.get("opcode") not in OPS:
        bad("condition is not an ordered comparison")
    x, y = (_param_ref(k, names) for k in cond["inner"])
    u, v = _param_ref(t, names), _param_ref(f, names)
    if None in (x, y, u, v):
        bad("operands must be the parameters themselves (no conversion, no arithmetic)")
    w = 1 + e + m
    text = (f"def {name} ({names[0]} : Nat) ({names[1]} : Nat) : Nat :=\n"
            f"  (if CSem.fcmp {e} {m} CSem.FCmp.{OPS[cond['opcode']]} {x} {y} then {u} else {v})\n")
    info = {"kind": "value", "params": [(names[0], (w, False)), (names[1], (w, False))], "ret": (w, False), "outs": [],
            "abort": False, "float": ty}
    return text, info


def signature_info(node):
    """info from the signature alone (for a function whose body is outside the subset), or None"""
    sig = node["type"]["qualType"].replace(" ", "")
    ty = sig.split("(")[0]
    params = [c for c in node.get("inner", []) if c["kind"] == "ParmVarDecl"]
    if ty not in FORMATS or sig != f"{ty}({ty},{ty})" or len(params) != 2:
        return None
    e, m = FORMATS[ty]
    w = 1 + e + m
    return {"kind": "value", "params": [(params[0]["name"], (w, False)), (params[1]["name"], (w, False))], "ret": (w, False),
            "outs": [], "abort": False, "float": ty}
