"""Generated layer for C19 (date-time): re-derived from /repo's source/date_time.c on every run.

  * the seven strftime format strings (static `const char *` initialisers, read from the AST)
  * the dispatch of the four `aws_date_time_to_{utc,local}_time[_short]_str` functions:
    format enumerator -> (which `struct tm` member is formatted, which format string)
  * the month-name table: `s_check_init_str_to_int` assignments + the compare chain of
    `get_month_number_from_str` (compare order, returned numbers, minimum window length)
  * `is_utc_time_zone`: accepted spellings (single letter, two-letter pair, triplets, offset length and signs)
  * RFC 822 / ISO 8601 reader constants: year bases (1900, 2000 - 1900), zone characters copied (5),
    `sizeof(tz)` (6), `AWS_DATE_TIME_STR_MAX_LEN`, the `enum aws_date_format` values
  * the `aws_timestamp_convert` calls of `as_nanos`, `as_millis`, `init_epoch_millis`
    (argument, units, whether a remainder pointer is passed)

Output: lean/AwsVerif/Gen/DateConsts.lean (namespace AwsVerif.Gen.Date).  Anything that leaves the
expected shape raises GenError (a broken correspondence of the generated layer).
"""
import os, re
from . import cfun, log_gen
from .cfun import GenError
from .log_gen import _walk, _c_string_value, lean_bytes

FORMAT_VARS = [("RFC822_DATE_FORMAT_STR_MINUS_Z", "rfc822MinusZ"), ("RFC822_DATE_FORMAT_STR_WITH_Z", "rfc822WithZ"),
               ("RFC822_SHORT_DATE_FORMAT_STR", "rfc822Short"), ("ISO_8601_LONG_DATE_FORMAT_STR", "isoLong"),
               ("ISO_8601_SHORT_DATE_FORMAT_STR", "isoShort"), ("ISO_8601_LONG_BASIC_DATE_FORMAT_STR", "isoBasicLong"),
               ("ISO_8601_SHORT_BASIC_DATE_FORMAT_STR", "isoBasicShort")]
DISPATCH = [("aws_date_time_to_utc_time_str", "utcStr"), ("aws_date_time_to_utc_time_short_str", "utcShortStr"),
            ("aws_date_time_to_local_time_str", "localStr"), ("aws_date_time_to_local_time_short_str", "localShortStr")]
ENUMS = ["AWS_DATE_FORMAT_RFC822", "AWS_DATE_FORMAT_ISO_8601", "AWS_DATE_FORMAT_ISO_8601_BASIC", "AWS_DATE_FORMAT_AUTO_DETECT",
         "AWS_DATE_TIME_STR_MAX_LEN", "AWS_TIMESTAMP_SECS", "AWS_TIMESTAMP_MILLIS", "AWS_TIMESTAMP_MICROS", "AWS_TIMESTAMP_NANOS"]
TRIPLET_MACRO = ("(((uint32_t)tolower((uint8_t)((str)[0])) << 0) | ((uint32_t)tolower((uint8_t)((str)[1])) << 8) | "
                 "((uint32_t)tolower((uint8_t)((str)[2])) << 16))")


def _strip(n):
    while n.get("kind") in ("ImplicitCastExpr", "ParenExpr", "CStyleCastExpr", "ConstantExpr"):
        n = n["inner"][0]
    return n


def _first(n, pred):
    res = []
    _walk(n, lambda x: res.append(x) if pred(x) else None)
    return res[0] if res else None


def _all(n, pred):
    res = []
    _walk(n, lambda x: res.append(x) if pred(x) else None)
    return res


def _ref(n):
    return (n.get("referencedDecl") or {}).get("name")


def format_strings(tu, inc):
    out = {}
    for o in log_gen._ast(tu, "DATE_FORMAT_STR", inc):
        if o.get("kind") == "VarDecl" and o.get("name") in dict(FORMAT_VARS):
            lit = _first(o, lambda x: x.get("kind") == "StringLiteral")
            if lit is None:
                raise GenError(f"{o['name']} is not initialised with a string literal")
            out[o["name"]] = _c_string_value(lit)
    for v, _ in FORMAT_VARS:
        if v not in out:
            raise GenError(f"format string {v} not found in date_time.c")
    return out


def dispatch(fn_node, fname, consts):
    """[(enum value, tm member, format variable)] in source order"""
    sw = _first(fn_node, lambda x: x.get("kind") == "SwitchStmt")
    if sw is None:
        raise GenError(f"{fname}: no switch on the format")
    rows = []
    for cs in _all(sw, lambda x: x.get("kind") == "CaseStmt"):
        lab = _first(cs["inner"][0], lambda x: x.get("kind") == "DeclRefExpr")
        if lab is None or _ref(lab) not in consts:
            raise GenError(f"{fname}: case label is not a known aws_date_format enumerator")
        call = _first(cs, lambda x: x.get("kind") == "CallExpr" and _ref(_strip(x["inner"][0])) == "s_date_to_str")
        if call is None:
            raise GenError(f"{fname}: case {_ref(lab)} does not call s_date_to_str")
        mem = _first(call["inner"][1], lambda x: x.get("kind") == "MemberExpr")
        fv = _strip(call["inner"][2])
        if mem is None or mem.get("name") not in ("gmt_time", "local_time") or fv.get("kind") != "DeclRefExpr" or \
                _ref(fv) not in dict(FORMAT_VARS):
            raise GenError(f"{fname}: case {_ref(lab)}: unexpected arguments of s_date_to_str")
        rows.append((consts[_ref(lab)], mem["name"], _ref(fv)))
    if not rows:
        raise GenError(f"{fname}: no cases")
    return rows


def month_table(init_node, fn_node):
    names = {}
    for b in _all(init_node, lambda x: x.get("kind") == "BinaryOperator" and x.get("opcode") == "="):
        lhs = _strip(b["inner"][0])
        if lhs.get("kind") != "DeclRefExpr":
            continue
        lits = {_c_string_value(l) for l in _all(b["inner"][1], lambda x: x.get("kind") == "StringLiteral")}
        if len(lits) != 1:
            raise GenError(f"s_check_init_str_to_int: {_ref(lhs)} is not set from one string literal")
        s = lits.pop()
        if len(s) != 3:
            raise GenError(f"s_check_init_str_to_int: {_ref(lhs)} = {s!r} is not a triplet")
        names[_ref(lhs)] = s
    rows, minlen = [], None
    for st in _all(fn_node, lambda x: x.get("kind") == "IfStmt"):
        cond = _strip(st["inner"][0])
        ret = _first(st["inner"][1], lambda x: x.get("kind") == "ReturnStmt")
        if cond.get("kind") != "BinaryOperator" or ret is None:
            raise GenError("get_month_number_from_str: unexpected if statement")
        if cond["opcode"] == "<":
            lit = _strip(cond["inner"][1])
            if lit.get("kind") != "IntegerLiteral":
                raise GenError("get_month_number_from_str: window test is not against a literal")
            minlen = int(lit["value"])
            continue
        if cond["opcode"] != "==":
            raise GenError("get_month_number_from_str: unexpected comparison " + cond["opcode"])
        refs = [_ref(_strip(c)) for c in cond["inner"]]
        var = [r for r in refs if r != "comp_val"]
        if "comp_val" not in refs or len(var) != 1 or var[0] not in names:
            raise GenError(f"get_month_number_from_str: comparison of {refs} is outside the subset")
        val = _strip(ret["inner"][0])
        if val.get("kind") != "IntegerLiteral":
            raise GenError("get_month_number_from_str: a month branch does not return a literal")
        rows.append((names[var[0]], int(val["value"])))
    if minlen is None or not rows:
        raise GenError("get_month_number_from_str: shape not recognised")
    return names, rows, minlen


def _one(rx, text, what):
    m = re.search(rx, text, re.S)
    if not m:
        raise GenError(f"date_time.c: {what} not recognised")
    return m


def _fn_text(src_text, header_rx):
    m = _one(header_rx + r"[^{;]*\{", src_text, "function " + header_rx)
    i, depth = m.end(), 1
    while i < len(src_text) and depth:
        depth += {"{": 1, "}": -1}.get(src_text[i], 0)
        i += 1
    return src_text[m.end():i]


def utc_zone(src_text, names):
    body = _fn_text(src_text, r"static bool is_utc_time_zone\(")
    norm = re.sub(r"\s+", " ", body)
    single = _one(r"if \(len > 0\) \{ if \(tolower\(\(uint8_t\)str\[0\]\) == '(.)'\) \{ return true; \}", norm, "is_utc_time_zone: single letter")
    off = _one(r"if \(len == (\d+) && \(str\[0\] == '(.)' \|\| str\[0\] == '(.)'\)\) \{ return true; \}", norm, "is_utc_time_zone: offset form")
    pair = _one(r"if \(len == (\d+)\) \{ return tolower\(\(uint8_t\)str\[0\]\) == '(.)' && tolower\(\(uint8_t\)str\[1\]\) == '(.)'; \}", norm,
                "is_utc_time_zone: two-letter form")
    short = _one(r"if \(len < (\d+)\) \{ return false; \}", norm, "is_utc_time_zone: length guard")
    trip = _one(r"if \(comp_val == (\w+) \|\| comp_val == (\w+)\) \{ return true; \}", norm, "is_utc_time_zone: triplet compare")
    for v in trip.groups():
        if v not in names:
            raise GenError(f"is_utc_time_zone compares against {v}, which s_check_init_str_to_int does not set")
    if int(pair.group(1)) != 2 or int(short.group(1)) != 3:
        raise GenError("is_utc_time_zone: length tests changed shape (two-letter form / triplet guard)")
    return dict(single=ord(single.group(1)), offLen=int(off.group(1)), offSigns=[ord(off.group(2)), ord(off.group(3))],
                pair=[ord(pair.group(2)), ord(pair.group(3))], triplets=[names[v] for v in trip.groups()])


def reader_consts(src_text):
    rfc = _fn_text(src_text, r"static bool s_parse_rfc_822\(")
    iso = _fn_text(src_text, r"static bool s_parse_iso_8601\(")
    y4 = _one(r"index - state_start_index == (\d+)\) \{\s*state = ON_HOUR;[^}]*?parsed_time->tm_year -= (\d+);", rfc, "RFC 822 4-digit year branch")
    y2 = _one(r"index - state_start_index == (\d+)\) \{\s*state = \w+;[^}]*?parsed_time->tm_year \+= (\d+) - (\d+);", rfc, "RFC 822 2-digit year branch")
    tz = _one(r"\(index - state_start_index\) < (\d+)\) \{\s*dt->tz\[index - state_start_index\] = c;", rfc, "RFC 822 zone copy guard")
    isoy = _one(r"s_read_n_digits\(&str, 4, &parsed_time->tm_year\)\) \{\s*return false;\s*\}\s*parsed_time->tm_year -= (\d+);", iso, "ISO year base")
    return dict(rfcYear4Digits=int(y4.group(1)), rfcYear4Sub=int(y4.group(2)), rfcYear2Digits=int(y2.group(1)),
                rfcYear2Add=int(y2.group(2)), rfcYear2Sub=int(y2.group(3)), tzMaxChars=int(tz.group(1)), isoYearSub=int(isoy.group(1)))


def tz_buf_size(tu, inc):
    for o in log_gen._ast(tu, "aws_date_time", inc):
        if o.get("kind") == "RecordDecl" and o.get("name") == "aws_date_time" and o.get("inner"):
            for f in o["inner"]:
                if f.get("kind") == "FieldDecl" and f.get("name") == "tz":
                    m = re.match(r"char\s*\[(\d+)\]", f["type"]["qualType"])
                    if m:
                        return int(m.group(1))
    raise GenError("struct aws_date_time: field `char tz[N]` not found")


def convert_calls(fn_node, fname, consts):
    """[(argument name, from unit, to unit, remainder pointer passed?)] in source order"""
    rows = []
    for call in _all(fn_node, lambda x: x.get("kind") == "CallExpr" and _ref(_strip(x["inner"][0])) == "aws_timestamp_convert"):
        a = call["inner"][1:]
        if len(a) != 4:
            raise GenError(f"{fname}: aws_timestamp_convert with {len(a)} arguments")
        mem = _first(a[0], lambda x: x.get("kind") in ("MemberExpr", "DeclRefExpr"))
        arg = mem.get("name") or _ref(mem)
        units = []
        for u in a[1:3]:
            r = _first(u, lambda x: x.get("kind") == "DeclRefExpr")
            if r is None or _ref(r) not in consts:
                raise GenError(f"{fname}: unit argument of aws_timestamp_convert is not an AWS_TIMESTAMP_* enumerator")
            units.append(consts[_ref(r)])
        rem = _first(a[3], lambda x: x.get("kind") == "UnaryOperator" and x.get("opcode") == "&") is not None
        rows.append((arg, units[0], units[1], rem))
    return rows


def _is_convert_call(n):
    n = _strip(n)
    return n.get("kind") == "CallExpr" and _ref(_strip(n["inner"][0])) == "aws_timestamp_convert"


def nanos_combine(fn_node):
    """how `aws_date_time_as_nanos` combines its two conversions: 'saturating' (aws_add_u64_saturating(c1, c2)) or
    'plain' (c1 + c2, which wraps); anything else is outside the subset"""
    ret = _first(fn_node, lambda x: x.get("kind") == "ReturnStmt")
    if ret is None or not ret.get("inner"):
        raise GenError("aws_date_time_as_nanos: no return expression")
    e = _strip(ret["inner"][0])
    if e.get("kind") == "BinaryOperator" and e.get("opcode") == "+" and all(_is_convert_call(c) for c in e["inner"]):
        return "plain"
    if e.get("kind") == "CallExpr" and _ref(_strip(e["inner"][0])) == "aws_add_u64_saturating" and len(e["inner"]) == 3 and \
            all(_is_convert_call(c) for c in e["inner"][1:]):
        return "saturating"
    raise GenError("aws_date_time_as_nanos: the return expression is neither `convert + convert` nor "
                   "`aws_add_u64_saturating(convert, convert)`")


def millis_combine(fn_node):
    """`aws_date_time_as_millis` must be `convert(secs -> ms) + (uint64_t)dt->milliseconds`"""
    ret = _first(fn_node, lambda x: x.get("kind") == "ReturnStmt")
    e = _strip(ret["inner"][0]) if ret is not None and ret.get("inner") else {}
    if e.get("kind") == "BinaryOperator" and e.get("opcode") == "+" and _is_convert_call(e["inner"][0]):
        m = _strip(e["inner"][1])
        if m.get("kind") == "MemberExpr" and m.get("name") == "milliseconds":
            return
    raise GenError("aws_date_time_as_millis: the return expression is not `convert(...) + (uint64_t)dt->milliseconds`")


def time_glue(repo, inc):
    """source/posix/time.c: aws_gmtime / aws_localtime / aws_timegm must be exactly one call of the re-entrant libc
    function on the caller's own buffers (`gmtime_r(&time, t)`, `localtime_r(&time, t)`, `return timegm(t)`);
    returns the callee names"""
    src = os.path.join(repo, "source", "posix", "time.c")
    tu = f'#include "{src}"\n'
    out = {}
    for fname, nargs in (("aws_gmtime", 2), ("aws_localtime", 2), ("aws_timegm", 1)):
        d = cfun.dump_functions(tu, fname, inc)
        if fname not in d:
            raise GenError(f"{fname} not found in source/posix/time.c")
        body = _first(d[fname], lambda x: x.get("kind") == "CompoundStmt")
        stmts = [c for c in (body or {}).get("inner", []) if isinstance(c, dict)]
        if len(stmts) != 1:
            raise GenError(f"{fname}: the body is not a single libc call (found {len(stmts)} statements)")
        st = stmts[0]
        if fname == "aws_timegm":
            if st.get("kind") != "ReturnStmt":
                raise GenError("aws_timegm: the body is not `return timegm(t);`")
            st = _strip(st["inner"][0])
        else:
            st = _strip(st)
        if st.get("kind") != "CallExpr" or len(st["inner"]) != nargs + 1:
            raise GenError(f"{fname}: the body is not a single call with {nargs} argument(s)")
        callee = _ref(_strip(st["inner"][0]))
        params = [c.get("name") for c in d[fname].get("inner", []) if c.get("kind") == "ParmVarDecl"]
        args = st["inner"][1:]
        if nargs == 2:
            a0 = _strip(args[0])
            ok = a0.get("kind") == "UnaryOperator" and a0.get("opcode") == "&" and _ref(_strip(a0["inner"][0])) == params[0] and \
                _ref(_strip(args[1])) == params[1]
        else:
            ok = _ref(_strip(args[0])) == params[0]
        if not ok:
            raise GenError(f"{fname}: {callee} is not called on the caller's own arguments")
        out[fname] = callee
    return out


def generate(repo, cfg_inc):
    inc = log_gen._includes(repo, cfg_inc)
    src = os.path.join(repo, "source", "date_time.c")
    src_text = open(src).read()
    tu = f'#include "{src}"\n'
    macro = _one(r"#define STR_TRIPLET_TO_INDEX\(str\)((?:[^\n]*\\\n)*[^\n]*)\n", src_text, "STR_TRIPLET_TO_INDEX")
    got = re.sub(r"\s+", " ", macro.group(1).replace("\\\n", " ")).strip()
    if got != TRIPLET_MACRO:
        raise GenError("STR_TRIPLET_TO_INDEX changed: " + got)
    consts = log_gen.constants(src, ENUMS, inc)
    fmts = format_strings(tu, inc)
    fns = cfun.dump_functions(tu, "aws_date_time_", inc)
    tables = {}
    for fname, lname in DISPATCH:
        if fname not in fns:
            raise GenError(f"{fname} not found in date_time.c")
        tables[lname] = dispatch(fns[fname], fname, consts)
    helpers = {}
    for nm in ("s_check_init_str_to_int", "get_month_number_from_str"):
        d = cfun.dump_functions(tu, nm, inc)
        if nm not in d:
            raise GenError(f"{nm} not found in date_time.c")
        helpers[nm] = d[nm]
    names, months, minlen = month_table(helpers["s_check_init_str_to_int"], helpers["get_month_number_from_str"])
    zone = utc_zone(src_text, names)
    rc = reader_consts(src_text)
    tzsize = tz_buf_size(tu, inc)
    calls = {}
    for fname in ("aws_date_time_as_nanos", "aws_date_time_as_millis", "aws_date_time_init_epoch_millis"):
        if fname not in fns:
            raise GenError(f"{fname} not found in date_time.c")
        calls[fname] = convert_calls(fns[fname], fname, consts)
    want = {"aws_date_time_as_nanos": ["timestamp", "milliseconds"], "aws_date_time_as_millis": ["timestamp"],
            "aws_date_time_init_epoch_millis": ["ms_since_epoch"]}
    for f, args in want.items():
        if [c[0] for c in calls[f]] != args:
            raise GenError(f"{f}: aws_timestamp_convert calls changed shape: {calls[f]}")
    combine = nanos_combine(fns["aws_date_time_as_nanos"])
    millis_combine(fns["aws_date_time_as_millis"])
    glue = time_glue(repo, inc)
    fmt_l = dict(FORMAT_VARS)
    out = ["/-! GENERATED by gen/date_gen.py from /repo's source/date_time.c and headers — do not edit. -/",
           "namespace AwsVerif.Gen.Date", ""]
    for k, v in consts.items():
        out.append(f"def {k} : Nat := {v}")
    out += ["", "/-! strftime format strings (static `const char *` of date_time.c), as bytes -/"]
    for v, l in FORMAT_VARS:
        out.append(f"/-- `{v}` = {fmts[v]!r} -/")
        out.append(f"def {l} : List Nat := {lean_bytes(fmts[v])}")
    out += ["", "/-! formatter dispatch: (format enumerator, formats `gmt_time`? (false: `local_time`), format string), in source order -/"]
    for fname, lname in DISPATCH:
        rows = ", ".join(f"({e}, {'true' if m == 'gmt_time' else 'false'}, {fmt_l[fv]})" for e, m, fv in tables[lname])
        out.append(f"/-- `{fname}` -/")
        out.append(f"def {lname} : List (Nat × Bool × List Nat) := [{rows}]")
    out += ["", "/-- `get_month_number_from_str`: (lower-case triplet, returned number) in compare order -/",
            "def monthTable : List (List Nat × Nat) := [" + ", ".join(f"({lean_bytes(s)}, {n})" for s, n in months) + "]",
            "/-- a window shorter than this gives -1 -/", f"def monthMinWindow : Nat := {minlen}", "",
            "/-! `is_utc_time_zone` -/",
            f"def utcSingle : Nat := {zone['single']}",
            f"def utcPair : Nat × Nat := ({zone['pair'][0]}, {zone['pair'][1]})",
            "def utcTriplets : List (List Nat) := [" + ", ".join(lean_bytes(t) for t in zone["triplets"]) + "]",
            f"def offsetZoneLen : Nat := {zone['offLen']}",
            f"def offsetSigns : List Nat := {lean_bytes(zone['offSigns'])}", "",
            "/-! readers -/"]
    for k, v in rc.items():
        out.append(f"def {k} : Nat := {v}")
    out.append(f"/-- `sizeof(((struct aws_date_time *)0)->tz)` -/\ndef tzBufSize : Nat := {tzsize}")
    out += ["", "/-! `aws_timestamp_convert` calls: (from unit, to unit, remainder pointer passed) -/"]
    cn = calls["aws_date_time_as_nanos"]
    out.append(f"def asNanosSecs : Nat × Nat × Bool := ({cn[0][1]}, {cn[0][2]}, {'true' if cn[0][3] else 'false'})")
    out.append(f"def asNanosMillis : Nat × Nat × Bool := ({cn[1][1]}, {cn[1][2]}, {'true' if cn[1][3] else 'false'})")
    cm = calls["aws_date_time_as_millis"][0]
    out.append(f"def asMillisSecs : Nat × Nat × Bool := ({cm[1]}, {cm[2]}, {'true' if cm[3] else 'false'})")
    ci = calls["aws_date_time_init_epoch_millis"][0]
    out.append(f"def initMillis : Nat × Nat × Bool := ({ci[1]}, {ci[2]}, {'true' if ci[3] else 'false'})")
    out.append("/-- `aws_date_time_as_nanos` adds its two conversions with `aws_add_u64_saturating` (true) or with a plain, wrapping `+` (false) -/")
    out.append(f"def asNanosSaturatingAdd : Bool := {'true' if combine == 'saturating' else 'false'}")
    out += ["", "/-! source/posix/time.c: each wrapper is a single call of this libc function on the caller's own buffers -/"]
    out.append(f'def gmtimeCallee : String := "{glue["aws_gmtime"]}"')
    out.append(f'def localtimeCallee : String := "{glue["aws_localtime"]}"')
    out.append(f'def timegmCallee : String := "{glue["aws_timegm"]}"')
    out += ["", "end AwsVerif.Gen.Date", ""]
    meta = dict(consts=consts, fmts={k: v.decode("latin-1") for k, v in fmts.items()}, months=[(s.decode(), n) for s, n in months],
                zone=zone, reader=rc, tz=tzsize, nanos_combine=combine, glue=glue)
    return "\n".join(out), meta
